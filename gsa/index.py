"""SourceIndex: parse every *.py of the two source trees of /repo and offer
symbol lookup (modules, classes with MRO over repo classes, functions, methods,
imports, dataclass field tables, module constants).

Lookups that fail raise AnalysisError: a vanished anchor must fail the run as
analysis-broken (exit 2), never pass silently.
"""

from __future__ import annotations

import ast
import os
from dataclasses import dataclass, field
from typing import Iterator

from .normalize import fold_single_use_temporaries

SRC_ROOTS = ("guppylang/src", "guppylang-internals/src")


class AnalysisError(Exception):
    """The analyser cannot stand on this tree (anchor vanished, floor undercut)."""


@dataclass
class ModuleInfo:
    name: str  # dotted
    path: str  # absolute
    rel: str  # relative to repo root
    source: str
    tree: ast.Module
    # local name -> fully qualified symbol it was imported from
    imports: dict[str, str] = field(default_factory=dict)


@dataclass
class FuncInfo:
    qualname: str  # module.Class.meth or module.fn (nested: module.outer.<locals>.inner)
    module: ModuleInfo
    node: ast.FunctionDef | ast.AsyncFunctionDef
    cls: "ClassInfo | None" = None

    @property
    def name(self) -> str:
        return self.node.name

    @property
    def where(self) -> str:
        return f"{self.module.rel}:{self.node.lineno}-{self.node.end_lineno}"

    def decorator_names(self) -> list[str]:
        return [dotted(d.func if isinstance(d, ast.Call) else d) for d in self.node.decorator_list]


@dataclass
class ClassInfo:
    qualname: str
    module: ModuleInfo
    node: ast.ClassDef
    methods: dict[str, FuncInfo] = field(default_factory=dict)
    base_names: list[str] = field(default_factory=list)  # as written (dotted)
    bases: list["ClassInfo"] = field(default_factory=list)  # resolved repo classes

    @property
    def name(self) -> str:
        return self.node.name

    @property
    def where(self) -> str:
        return f"{self.module.rel}:{self.node.lineno}-{self.node.end_lineno}"

    def mro(self) -> list["ClassInfo"]:
        out: list[ClassInfo] = []
        seen: set[str] = set()

        def go(c: ClassInfo) -> None:
            if c.qualname in seen:
                return
            seen.add(c.qualname)
            out.append(c)
            for b in c.bases:
                go(b)

        go(self)
        return out

    def find_method(self, name: str) -> FuncInfo | None:
        for c in self.mro():
            if name in c.methods:
                return c.methods[name]
        return None

    def is_dataclass(self) -> bool:
        for d in self.node.decorator_list:
            n = dotted(d.func if isinstance(d, ast.Call) else d)
            if n.split(".")[-1] == "dataclass":
                return True
        return False

    def dataclass_kw(self, key: str) -> ast.expr | None:
        for d in self.node.decorator_list:
            if isinstance(d, ast.Call) and dotted(d.func).split(".")[-1] == "dataclass":
                for kw in d.keywords:
                    if kw.arg == key:
                        return kw.value
        return None

    def own_fields(self) -> list[tuple[str, ast.AnnAssign]]:
        """Annotated class-level names (dataclass fields), ClassVar excluded."""
        out = []
        for st in self.node.body:
            if isinstance(st, ast.AnnAssign) and isinstance(st.target, ast.Name):
                ann = ast.unparse(st.annotation)
                if ann.startswith("ClassVar") or ann.startswith("typing.ClassVar"):
                    continue
                out.append((st.target.id, st))
        return out

    def all_fields(self) -> list[tuple[str, ast.AnnAssign, "ClassInfo"]]:
        """Dataclass field order: bases first (reverse MRO), then own; a redefinition
        keeps its original position."""
        order: list[str] = []
        info: dict[str, tuple[ast.AnnAssign, ClassInfo]] = {}
        for c in reversed(self.mro()):
            for name, st in c.own_fields():
                if name not in info:
                    order.append(name)
                info[name] = (st, c)
        return [(n, info[n][0], info[n][1]) for n in order]


def dotted(e: ast.AST | None) -> str:
    """`a.b.c` for Name/Attribute chains, '' otherwise."""
    if isinstance(e, ast.Name):
        return e.id
    if isinstance(e, ast.Attribute):
        b = dotted(e.value)
        return f"{b}.{e.attr}" if b else ""
    return ""


class SourceIndex:
    def __init__(self, root: str) -> None:
        self.root = os.path.abspath(root)
        self.modules: dict[str, ModuleInfo] = {}
        self.classes: dict[str, ClassInfo] = {}
        self.funcs: dict[str, FuncInfo] = {}
        self._by_simple_class: dict[str, list[ClassInfo]] = {}
        self._by_simple_func: dict[str, list[FuncInfo]] = {}
        self.parse_errors: list[str] = []
        self._load()
        self._link()

    # ---------------------------------------------------------------- loading
    def _load(self) -> None:
        for sr in SRC_ROOTS:
            base = os.path.join(self.root, sr)
            if not os.path.isdir(base):
                raise AnalysisError(f"source root missing: {base}")
            for dp, dns, fns in os.walk(base):
                dns[:] = sorted(d for d in dns if d != "__pycache__")
                for fn in sorted(fns):
                    if not fn.endswith(".py"):
                        continue
                    p = os.path.join(dp, fn)
                    rel = os.path.relpath(p, self.root)
                    modrel = os.path.relpath(p, base)[:-3].replace(os.sep, ".")
                    if modrel.endswith(".__init__"):
                        modrel = modrel[: -len(".__init__")]
                    try:
                        src = open(p, encoding="utf-8").read()
                        tree = ast.parse(src, filename=p)
                        # canonical form: `t = E; return t` / `raise t` / `if t:` with a single-use local t is `return E` / ... (normalize.py)
                        self.normalised = getattr(self, "normalised", 0) + fold_single_use_temporaries(tree)
                    except (SyntaxError, UnicodeDecodeError) as e:
                        self.parse_errors.append(f"{rel}: {e}")
                        continue
                    self.modules[modrel] = ModuleInfo(modrel, p, rel, src, tree)
        if self.parse_errors:
            raise AnalysisError("unparsable source files: " + "; ".join(self.parse_errors))
        if len(self.modules) < 100:
            raise AnalysisError(f"only {len(self.modules)} modules found under {self.root}")

    def _link(self) -> None:
        for m in self.modules.values():
            self._collect_imports(m)
            self._collect_defs(m, m.tree.body, m.name, None)
        for c in self.classes.values():
            for bn in c.base_names:
                b = self.resolve_class_name(c.module, bn)
                if b is not None:
                    c.bases.append(b)

    def _collect_imports(self, m: ModuleInfo) -> None:
        for node in ast.walk(m.tree):
            if isinstance(node, ast.Import):
                for a in node.names:
                    m.imports[a.asname or a.name.split(".")[0]] = a.name if a.asname else a.name.split(".")[0]
            elif isinstance(node, ast.ImportFrom):
                mod = node.module or ""
                if node.level:
                    parts = m.name.split(".")
                    is_pkg = m.path.endswith("__init__.py")
                    up = node.level - (1 if is_pkg else 0)
                    base = parts[: len(parts) - up] if up else parts
                    mod = ".".join([*base, mod] if mod else base)
                for a in node.names:
                    if a.name == "*":
                        continue
                    m.imports[a.asname or a.name] = f"{mod}.{a.name}"

    def _collect_defs(self, m: ModuleInfo, body: list[ast.stmt], prefix: str, cls: ClassInfo | None) -> None:
        for st in body:
            if isinstance(st, (ast.FunctionDef, ast.AsyncFunctionDef)):
                q = f"{prefix}.{st.name}"
                # overloads / singledispatch registrations share a name: keep all with #n
                if q in self.funcs:
                    n = 2
                    while f"{q}#{n}" in self.funcs:
                        n += 1
                    q = f"{q}#{n}"
                fi = FuncInfo(q, m, st, cls)
                self.funcs[q] = fi
                self._by_simple_func.setdefault(st.name, []).append(fi)
                if cls is not None and st.name not in cls.methods:
                    cls.methods[st.name] = fi
                elif cls is not None:
                    # property setter / register: keep the first as the method, rest reachable via funcs
                    pass
                self._collect_defs(m, st.body, f"{q}.<locals>", None)
            elif isinstance(st, ast.ClassDef):
                q = f"{prefix}.{st.name}"
                ci = ClassInfo(q, m, st, base_names=[dotted(b if not isinstance(b, ast.Subscript) else b.value) for b in st.bases])
                self.classes[q] = ci
                self._by_simple_class.setdefault(st.name, []).append(ci)
                self._collect_defs(m, st.body, q, ci)
            elif isinstance(st, (ast.If, ast.Try, ast.With)):
                for sub in _sub_bodies(st):
                    self._collect_defs(m, sub, prefix, cls)

    # ---------------------------------------------------------------- lookup
    def module(self, name: str) -> ModuleInfo:
        if name not in self.modules:
            raise AnalysisError(f"anchor module vanished: {name}")
        return self.modules[name]

    def has_module(self, name: str) -> bool:
        return name in self.modules

    def find_class(self, simple: str, hint: str | None = None) -> ClassInfo:
        cands = self._by_simple_class.get(simple, [])
        if hint:
            pref = [c for c in cands if c.module.name == hint or c.module.name.startswith(hint)]
            if pref:
                cands = pref
        if not cands:
            raise AnalysisError(f"anchor class vanished: {simple}")
        if len(cands) > 1:
            raise AnalysisError(f"anchor class ambiguous: {simple}: {[c.qualname for c in cands]}")
        return cands[0]

    def opt_class(self, simple: str, hint: str | None = None) -> ClassInfo | None:
        try:
            return self.find_class(simple, hint)
        except AnalysisError:
            return None

    def find_func(self, simple: str, hint: str | None = None, top_level: bool = True) -> FuncInfo:
        cands = [f for f in self._by_simple_func.get(simple, []) if (f.cls is None) or not top_level]
        if top_level:
            cands = [f for f in cands if "<locals>" not in f.qualname]
        if hint:
            pref = [f for f in cands if f.module.name == hint or f.module.name.startswith(hint)]
            if pref:
                cands = pref
        if not cands:
            raise AnalysisError(f"anchor function vanished: {simple}" + (f" (hint {hint})" if hint else ""))
        if len(cands) > 1:
            raise AnalysisError(f"anchor function ambiguous: {simple}: {[c.qualname for c in cands]}")
        return cands[0]

    def opt_func(self, simple: str, hint: str | None = None) -> FuncInfo | None:
        try:
            return self.find_func(simple, hint)
        except AnalysisError:
            return None

    def method(self, cls_simple: str, meth: str, hint: str | None = None, inherited: bool = False) -> FuncInfo:
        c = self.find_class(cls_simple, hint)
        f = c.find_method(meth) if inherited else c.methods.get(meth)
        if f is None:
            raise AnalysisError(f"anchor method vanished: {c.qualname}.{meth}")
        return f

    def opt_method(self, cls_simple: str, meth: str, hint: str | None = None, inherited: bool = False) -> FuncInfo | None:
        try:
            return self.method(cls_simple, meth, hint, inherited)
        except AnalysisError:
            return None

    def methods_named(self, cls: ClassInfo, name: str) -> list[FuncInfo]:
        """All defs with this name directly in the class body (property+setter, register)."""
        out = []
        for q, f in self.funcs.items():
            if f.cls is cls and f.node.name == name:
                out.append(f)
        return out

    def resolve_name(self, m: ModuleInfo, name: str) -> str:
        """Qualified symbol for a (possibly dotted) name used in module m."""
        head, _, rest = name.partition(".")
        if head in m.imports:
            q = m.imports[head]
        elif f"{m.name}.{head}" in self.classes or f"{m.name}.{head}" in self.funcs:
            q = f"{m.name}.{head}"
        else:
            q = head
        return f"{q}.{rest}" if rest else q

    def resolve_class_name(self, m: ModuleInfo, name: str) -> ClassInfo | None:
        q = self.resolve_name(m, name)
        seen = set()
        while q not in self.classes and q not in seen:
            seen.add(q)
            # follow re-exports: `pkg.X` where pkg/__init__ imports X from elsewhere
            mod, _, sym = q.rpartition(".")
            if mod in self.modules and sym in self.modules[mod].imports:
                q = self.modules[mod].imports[sym]
            else:
                break
        return self.classes.get(q)

    def subclasses(self, c: ClassInfo) -> list[ClassInfo]:
        return [d for d in self.classes.values() if d is not c and c in d.mro()]

    def iter_funcs(self, module_prefixes: tuple[str, ...] = ()) -> Iterator[FuncInfo]:
        for f in self.funcs.values():
            if not module_prefixes or any(
                f.module.name == p or f.module.name.startswith(p + ".") for p in module_prefixes
            ):
                yield f

    def module_constant(self, modname: str, name: str) -> ast.expr | None:
        m = self.modules.get(modname)
        if not m:
            return None
        for st in m.tree.body:
            if isinstance(st, ast.Assign) and any(isinstance(t, ast.Name) and t.id == name for t in st.targets):
                return st.value
            if isinstance(st, ast.AnnAssign) and isinstance(st.target, ast.Name) and st.target.id == name:
                return st.value
        return None


def _sub_bodies(st: ast.stmt) -> list[list[ast.stmt]]:
    out = []
    for f in ("body", "orelse", "finalbody"):
        b = getattr(st, f, None)
        if b:
            out.append(b)
    for h in getattr(st, "handlers", []) or []:
        out.append(h.body)
    return out


# ------------------------------------------------------------------ small ast helpers
def walk_no_nested(node: ast.AST) -> Iterator[ast.AST]:
    """ast.walk that does not descend into nested function/class/lambda bodies."""
    stack = [node]
    first = True
    while stack:
        n = stack.pop()
        if not first and isinstance(n, (ast.FunctionDef, ast.AsyncFunctionDef, ast.ClassDef, ast.Lambda)):
            continue
        first = False
        yield n
        stack.extend(reversed(list(ast.iter_child_nodes(n))))


def body_without_docstring(fn: ast.FunctionDef | ast.AsyncFunctionDef) -> list[ast.stmt]:
    b = fn.body
    if b and isinstance(b[0], ast.Expr) and isinstance(b[0].value, ast.Constant) and isinstance(b[0].value.value, str):
        return b[1:]
    return b


def calls_in(node: ast.AST, nested: bool = False) -> Iterator[ast.Call]:
    it = ast.walk(node) if nested else walk_no_nested(node)
    for n in it:
        if isinstance(n, ast.Call):
            yield n


def call_name(c: ast.Call) -> str:
    """Last component of the callee (`self.visit` -> 'visit', `f` -> 'f')."""
    f = c.func
    if isinstance(f, ast.Attribute):
        return f.attr
    if isinstance(f, ast.Name):
        return f.id
    return ""


def norm(node: ast.AST) -> str:
    return ast.unparse(node)
