"""CLI:  python -m gsa.check Cxx [--tier quick|thorough] [--root DIR] [--replay FILE]

exit 0 = all obligations hold (known findings printed), 1 = unlisted violation,
2 = analysis error (anchor vanished, floor undercut, internal error).
"""

from __future__ import annotations

import argparse
import importlib
import json
import os
import sys
import time
import traceback

from .index import AnalysisError, SourceIndex
from .report import VERIF_DIR, Ctx, finish


def run_property(prop: str, root: str, tier: str, seed: int, evidence_dir: str | None, quiet: bool = False) -> int:
    t0 = time.time()
    mod = importlib.import_module(f"gsa.rules.{prop}")
    idx = SourceIndex(root)
    ctx = Ctx(prop, idx, tier, seed)
    mod.run(ctx)
    return finish(
        ctx, t0, getattr(mod, "LEVEL", "other"), getattr(mod, "EXPLANATION", ""), evidence_dir,
        proof_rules=getattr(mod, "PROOF_RULES", ()),
        checker_cmd=f"/venv/bin/python -m gsa.check {prop} --tier {tier}",
    )


def main(argv: list[str] | None = None) -> int:
    ap = argparse.ArgumentParser()
    ap.add_argument("prop")
    ap.add_argument("--tier", default=os.environ.get("VERIF_TIER", "quick"), choices=["quick", "thorough"])
    ap.add_argument("--root", default=os.environ.get("GSA_ROOT", "/repo"))
    ap.add_argument("--evidence-dir", default=os.path.join(VERIF_DIR, "evidence"))
    ap.add_argument("--no-evidence", action="store_true")
    ap.add_argument("--replay")
    ap.add_argument("--jobs", type=int, default=16)
    a = ap.parse_args(argv)
    seed = int(os.environ.get("VERIF_SEED", "0") or 0)
    try:
        if a.prop == "selftest":
            from .selftest import runner

            return runner.main(None, a.jobs)
        if a.replay:
            r = json.load(open(a.replay))
            print(json.dumps(r, indent=1))
            # re-run the property and show whether that instance still fails
            rc = run_property(r["property"], a.root, "quick", seed, None)
            return rc
        rc = run_property(a.prop, a.root, a.tier, seed, None if a.no_evidence else a.evidence_dir)
        if a.tier == "thorough" and rc == 0:
            from .selftest import runner

            st = runner.main(a.prop, a.jobs)
            if st != 0:
                print(f"ANALYSIS-ERROR property={a.prop} selftest failed (checker does not behave as specified)")
                return 2
        return rc
    except AnalysisError as e:
        print(f"ANALYSIS-ERROR property={a.prop} {e}")
        return 2
    except Exception:  # noqa: BLE001
        print(f"ANALYSIS-ERROR property={a.prop} internal error")
        traceback.print_exc()
        return 2


if __name__ == "__main__":
    sys.exit(main())
