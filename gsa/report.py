"""Run context: obligations, verdicts, known-findings matching, evidence writer."""

from __future__ import annotations

import json
import os
import time
from dataclasses import dataclass, field
from typing import Any

from .index import AnalysisError, SourceIndex

VERIF_DIR = os.path.dirname(os.path.dirname(os.path.abspath(__file__)))
KNOWN_FINDINGS = os.path.join(VERIF_DIR, "known_findings.json")

OK, VIOL, UNDECIDED, NOTE = "ok", "violation", "undecided", "note"


@dataclass
class Obligation:
    rule: str  # R-C30.1
    key: str  # construct + discriminator, never a line number
    status: str
    where: str = ""  # file:line (for humans)
    facts: Any = None
    meaning: str = ""  # one line: what goes wrong for a user


@dataclass
class Ctx:
    prop: str
    idx: SourceIndex
    tier: str = "quick"
    seed: int = 0
    obligations: list[Obligation] = field(default_factory=list)
    analysed: dict[str, set[str]] = field(default_factory=dict)  # kind -> names
    assumptions: list[str] = field(default_factory=list)
    notes: list[str] = field(default_factory=list)
    floor_failures: list[str] = field(default_factory=list)

    # ---- verdict helpers
    def ok(self, rule: str, key: str, where: str = "", facts: Any = None) -> None:
        self.obligations.append(Obligation(rule, key, OK, where, facts))

    def violation(self, rule: str, key: str, where: str, facts: Any, meaning: str) -> None:
        self.obligations.append(Obligation(rule, key, VIOL, where, facts, meaning))

    def undecided(self, rule: str, key: str, where: str, why: str) -> None:
        self.obligations.append(Obligation(rule, key, UNDECIDED, where, why))

    def check(self, cond: bool, rule: str, key: str, where: str, facts: Any, meaning: str) -> bool:
        if cond:
            self.ok(rule, key, where, facts)
        else:
            self.violation(rule, key, where, facts, meaning)
        return cond

    def note(self, text: str) -> None:
        self.notes.append(text)

    def saw(self, kind: str, name: str) -> None:
        self.analysed.setdefault(kind, set()).add(name)

    def floor(self, rule: str, what: str, count: int, minimum: int) -> None:
        """Instance floor: fewer instances than confirmed by hand = analysis broken."""
        if count < minimum:
            # deferred: the run goes on so that a genuine violation elsewhere is still reported (exit 1 wins); without one,
            # finish() turns the undercut floor into ANALYSIS-ERROR / exit 2
            self.floor_failures.append(f"{rule}: only {count} {what} found, floor is {minimum} (anchor drifted?)")

    def count(self, rule_prefix: str) -> int:
        return sum(1 for o in self.obligations if o.rule.startswith(rule_prefix))


def load_known() -> list[dict]:
    if not os.path.exists(KNOWN_FINDINGS):
        return []
    with open(KNOWN_FINDINGS) as f:
        return json.load(f)["findings"]


def finish(ctx: Ctx, t0: float, level: str, explanation: str, evidence_dir: str | None,
           proof_rules: tuple[str, ...] = (), checker_cmd: str = "") -> int:
    """Print verdicts, write evidence, return exit code."""
    known = [k for k in load_known() if k["property"] == ctx.prop and k.get("status") == "known"]
    viols = [o for o in ctx.obligations if o.status == VIOL]
    unlisted: list[Obligation] = []
    listed: list[tuple[Obligation, dict]] = []
    for o in viols:
        m = next((k for k in known if k["rule"] == o.rule and k["key"] == o.key), None)
        if m:
            listed.append((o, m))
        else:
            unlisted.append(o)
    undec = [o for o in ctx.obligations if o.status == UNDECIDED]
    oks = [o for o in ctx.obligations if o.status == OK]

    replay_dir = os.path.join(evidence_dir, "replay") if evidence_dir else None
    if replay_dir:
        os.makedirs(replay_dir, exist_ok=True)
        for fn in os.listdir(replay_dir):
            if fn.startswith(ctx.prop + "-"):
                os.unlink(os.path.join(replay_dir, fn))

    for o, k in listed:
        print(f"KNOWN-FINDING: property={ctx.prop} {o.rule} {o.key} -- {k.get('what', o.meaning)}")
    for o in undec:
        print(f"UNDECIDED property={ctx.prop} {o.rule} {o.key} at {o.where}: {o.facts}")
    for i, o in enumerate(unlisted, 1):
        rp = os.path.join(replay_dir, f"{ctx.prop}-{i}.json") if replay_dir else "-"
        if replay_dir:
            with open(rp, "w") as f:
                json.dump({"property": ctx.prop, "rule": o.rule, "key": o.key, "where": o.where,
                           "facts": o.facts, "meaning": o.meaning, "root": ctx.idx.root}, f, indent=1, default=str)
        print(f"VIOLATION property={ctx.prop} replay={rp}")
        print(f"  rule      {o.rule}")
        print(f"  instance  {o.key}")
        print(f"  where     {o.where}")
        print(f"  facts     {json.dumps(o.facts, default=str)[:600]}")
        print(f"  meaning   {o.meaning}")
    for n in ctx.notes:
        print(f"NOTE property={ctx.prop} {n}")

    for ff in ctx.floor_failures:
        print(f"FLOOR-UNDERCUT property={ctx.prop} {ff}")
    if ctx.floor_failures and not unlisted:
        raise AnalysisError("; ".join(ctx.floor_failures))
    total = len(ctx.obligations)
    if total == 0:
        raise AnalysisError("no obligations produced")
    if undec and len(undec) == total:
        raise AnalysisError("every obligation is undecided")

    wall = time.time() - t0
    distinct = len({(o.rule, o.key) for o in ctx.obligations if o.facts not in (None, "", [], {})})
    samples = []
    seen_rules: set[str] = set()
    for o in ctx.obligations:
        if o.rule not in seen_rules:
            seen_rules.add(o.rule)
            samples.append({"rule": o.rule, "key": o.key, "status": o.status, "where": o.where, "facts": o.facts})
    coverage: dict[str, Any] = {
        "evaluations": total,
        "distinct_nontrivial": distinct,
        "rule": "one evaluation = one rule instance (rule id + construct key) examined on this run's parse of /repo; "
                "non-trivial = the instance carried extracted facts to check; distinct = distinct (rule,key)",
        "samples": samples[:40],
        "instances": [[o.rule, o.key, o.status] for o in ctx.obligations][:600],
        "explanation": explanation,
        "rules": sorted({o.rule for o in ctx.obligations}),
        "per_rule_counts": {r: sum(1 for o in ctx.obligations if o.rule == r) for r in sorted({o.rule for o in ctx.obligations})},
        "ok": len(oks),
        "violations_unlisted": [{"rule": o.rule, "key": o.key, "where": o.where} for o in unlisted],
        "known_findings_matched": [{"rule": o.rule, "key": o.key} for o, _ in listed],
        "undecided": [{"rule": o.rule, "key": o.key, "why": o.facts} for o in undec],
        "notes": ctx.notes,
        "analysed": {k: sorted(v) for k, v in ctx.analysed.items()},
        "modules_parsed": len(ctx.idx.modules),
        "functions_indexed": len(ctx.idx.funcs),
        "classes_indexed": len(ctx.idx.classes),
        "root": ctx.idx.root,
    }
    # inputs enumerated inside the instances (truth-table rows, symbolic cases, orderings ...), as recorded by the rules
    case_keys = ("cases", "rows", "assignments_tried", "truth_assignments_simulated", "orderings", "orderings_same_file",
                 "orderings_other_file", "namespaces_x_exits", "pairs", "pairs_evaluated", "functions_scanned", "n_cases")
    n_cases = 0
    for o in ctx.obligations:
        if isinstance(o.facts, dict):
            n_cases += sum(v for k, v in o.facts.items() if k in case_keys and isinstance(v, int) and not isinstance(v, bool))
    coverage["abstract_cases_evaluated"] = n_cases
    if level == "proof":
        pr = [o for o in ctx.obligations if o.rule.startswith(proof_rules)] if proof_rules else ctx.obligations
        coverage["obligations"] = len(pr)
        coverage["discharged"] = sum(1 for o in pr if o.status == OK)
        coverage["checker_cmd"] = checker_cmd
        coverage["trusted_base"] = ["CPython ast parser", "gsa finite-domain evaluators (gsa/absint)"]
        coverage["exhaustive"] = True
        if coverage["discharged"] != coverage["obligations"]:
            # open obligations: cannot call it a proof on this run
            level = "other"
    ev = {
        "property_id": ctx.prop,
        "tier": ctx.tier,
        "seed": ctx.seed,
        "level": level,
        "coverage": coverage,
        "assumptions": ctx.assumptions,
        "wall_s": round(wall, 3),
        "violations": len(unlisted),
    }
    if evidence_dir:
        os.makedirs(evidence_dir, exist_ok=True)
        p = os.path.join(evidence_dir, f"{ctx.prop}.json")
        tmp = p + ".tmp"
        with open(tmp, "w") as f:
            json.dump(ev, f, indent=1, default=str)
        os.replace(tmp, p)
    print(f"{ctx.prop}: {total} rule instances, {len(oks)} ok, {len(listed)} known findings, "
          f"{len(unlisted)} violations, {len(undec)} undecided, {wall:.2f}s [{ctx.tier}]")
    return 1 if unlisted else 0
