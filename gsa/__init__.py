"""gsa -- guppylang static analyser (pure `ast`, never imports or runs guppylang)."""
