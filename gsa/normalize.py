"""Canonical form of the parsed sources: single-use temporaries are folded back into their use.

    t = E                t = E               t = E
    return t      ->     raise t      ->     if t: ...      ->      return E   /   raise E   /   if E: ...

when `t` is a plain local name that occurs exactly twice in the enclosing function (this assignment and this use), is not
declared global/nonlocal, and the use is the statement that immediately follows the assignment.  Both forms denote the same
computation (E is evaluated once, at the same point, and t is dead afterwards), so every rule sees one spelling of it:
"analyse the resolved program, not text".  The folded statement keeps its own source position, E keeps its own.
"""

from __future__ import annotations

import ast

FUNCS = (ast.FunctionDef, ast.AsyncFunctionDef)


def _blocks(fn: ast.AST):
    """Every statement list inside a function (nested functions / classes are handled on their own)."""
    todo: list[ast.AST] = [fn]
    while todo:
        n = todo.pop()
        for f in ("body", "orelse", "finalbody"):
            b = getattr(n, f, None)
            if isinstance(b, list) and b and isinstance(b[0], ast.stmt):
                yield n, f, b
                todo.extend(s for s in b if not isinstance(s, (*FUNCS, ast.ClassDef)))
        for h in getattr(n, "handlers", []) or []:
            todo.append(h)
        for c in getattr(n, "cases", []) or []:
            todo.append(c)


def _fold_function(fn: ast.AST) -> int:
    counts: dict[str, int] = {}
    declared: set[str] = set()
    for n in ast.walk(fn):
        if isinstance(n, ast.Name):
            counts[n.id] = counts.get(n.id, 0) + 1
        elif isinstance(n, (ast.Global, ast.Nonlocal)):
            declared.update(n.names)
        elif isinstance(n, ast.arg):
            declared.add(n.arg)
    folded = 0
    for owner, field, block in list(_blocks(fn)):
        out: list[ast.stmt] = []
        i = 0
        while i < len(block):
            st = block[i]
            nxt = block[i + 1] if i + 1 < len(block) else None
            tgt = None
            if isinstance(st, ast.Assign) and len(st.targets) == 1 and isinstance(st.targets[0], ast.Name):
                tgt, val = st.targets[0].id, st.value
            elif isinstance(st, ast.AnnAssign) and isinstance(st.target, ast.Name) and st.value is not None:
                tgt, val = st.target.id, st.value
            if tgt is not None and nxt is not None and counts.get(tgt) == 2 and tgt not in declared:
                new = None
                if isinstance(nxt, ast.Return) and isinstance(nxt.value, ast.Name) and nxt.value.id == tgt:
                    new = ast.Return(value=val)
                elif isinstance(nxt, ast.Raise) and isinstance(nxt.exc, ast.Name) and nxt.exc.id == tgt:
                    new = ast.Raise(exc=val, cause=nxt.cause)
                elif isinstance(nxt, ast.If) and isinstance(nxt.test, ast.Name) and nxt.test.id == tgt:
                    new = ast.If(test=val, body=nxt.body, orelse=nxt.orelse)
                if new is not None:
                    ast.copy_location(new, nxt)
                    new.lineno = getattr(st, "lineno", getattr(nxt, "lineno", 0))  # the computation starts where the temporary was bound
                    out.append(new)
                    folded += 1
                    i += 2
                    continue
            out.append(st)
            i += 1
        if len(out) != len(block):
            block[:] = out
    return folded


def fold_single_use_temporaries(tree: ast.Module) -> int:
    """In place; returns the number of folded temporaries.  Repeated until nothing changes (an `if` exposed by a fold may
    itself end a foldable pair)."""
    total = 0
    for fn in [n for n in ast.walk(tree) if isinstance(n, FUNCS)]:
        while True:
            k = _fold_function(fn)
            total += k
            if not k:
                break
    return total
