"""Field-consumption analysis for AST handlers (engine of R-C32.1, also used by C01/C05).

Question decided: when a handler receives an `ast.X` node, is every *semantic* field of X
looked at on every path on which the node is accepted?

For a handler `h(node: X, ...)` we compute on h's own CFG, per field f of X, the set of CFG
nodes that *read* `node.f` -- directly (`node.f` in load context, a class pattern
`case ast.X(f=...)`) or through a call to a *resolved* helper that receives the node (the
helper's flow-insensitive may-read summary is attributed to the call site) -- and the CFG
nodes that *forward* the node to the next stage (`bb.statements.append(node)`,
`return node`, `generic_visit(node)`, `C(**dict(ast.iter_fields(node)))`).

Calls whose callee cannot be resolved (dynamic dispatch on a definition, hugr APIs) read
nothing except the fields that are passed to them explicitly (`node.args`).

Typing of expressions is a small inference over annotations `ast.X` / `list[ast.X]`,
the stdlib field-type table, for-loops/comprehensions over typed lists, tuple returns of
annotated helpers, `match` class patterns and `isinstance` narrowing.
"""

from __future__ import annotations

import ast
from dataclasses import dataclass, field

from .astfields import FIELD_TYPES, is_ast_class
from .flow import CFG, Node, node_exprs
from .index import ClassInfo, FuncInfo, SourceIndex, call_name, dotted, walk_no_nested

LOCATION_ONLY_CALLEES = {"set_location_from", "to_span", "get_file", "get_line_offset", "Span", "with_type", "get_type", "get_type_opt"}
IGNORED_CALLEES = {"len", "isinstance", "type", "id", "str", "repr", "list", "tuple", "enumerate", "zip", "iter", "next", "any", "all",
                   "bool", "print", "reversed", "sorted", "cast", "deepcopy", "replace"}
MAX_DEPTH = 5

# repo node classes that derive from a stdlib node class and carry its fields on
DERIVED = {"NestedFunctionDef": "FunctionDef", "CheckedNestedFunctionDef": "FunctionDef",
           "ModifiedBlock": "With", "CheckedModifiedBlock": "With"}


def same_family(cls: str) -> set[str]:
    return {cls} | {k for k, v in DERIVED.items() if v == cls}


def ann_type(ann: ast.expr | None) -> str | None:
    """'X' for `ast.X` / `X` (stdlib node class), '[X]' for list[ast.X] / Sequence[ast.X]."""
    if ann is None:
        return None
    if isinstance(ann, ast.Constant) and isinstance(ann.value, str):
        try:
            ann = ast.parse(ann.value, mode="eval").body
        except SyntaxError:
            return None
    d = dotted(ann)
    if d.startswith("ast.") and is_ast_class(d[4:]):
        return d[4:]
    if isinstance(ann, ast.Subscript) and dotted(ann.value).split(".")[-1] in ("list", "List", "Sequence", "Iterable"):
        inner = ann_type(ann.slice)
        return f"[{inner}]" if inner and not inner.startswith("[") else None
    return None


def tuple_ann_types(ann: ast.expr | None) -> list[str | None] | None:
    if isinstance(ann, ast.Subscript) and dotted(ann.value) in ("tuple", "Tuple") and isinstance(ann.slice, ast.Tuple):
        return [ann_type(e) for e in ann.slice.elts]
    return None


@dataclass
class Read:
    cls: str
    fld: str
    at: ast.AST  # the expression that reads
    via: str = ""  # helper qualname when attributed from a callee


@dataclass
class FuncFacts:
    """Flow-insensitive facts of one function for given parameter types."""
    reads: list[Read] = field(default_factory=list)
    forwards: list[tuple[ast.AST, str]] = field(default_factory=list)  # (site, as class or '')
    opaque: list[tuple[ast.AST, str]] = field(default_factory=list)  # whole node handed to unresolved callee
    entered: set[str] = field(default_factory=set)  # helper classes for which an alias existed
    calls: list[tuple[ast.Call, FuncInfo, dict[str, str]]] = field(default_factory=list)  # resolved calls with typed params
    returns_new: list[ast.AST] = field(default_factory=list)  # returned values that are another object than the node
    return_calls: list[tuple[ast.Call, FuncInfo, dict[str, str]]] = field(default_factory=list)  # `return helper(node)`


class Consumption:
    def __init__(self, idx: SourceIndex):
        self.idx = idx
        self._memo: dict[tuple, tuple[set[tuple[str, str]], bool, set[str]]] = {}

    def noreturn_names(self) -> set[str]:
        """Simple names of repo functions that never return normally (annotated NoReturn or
        a body that must raise)."""
        if not hasattr(self, "_noreturn"):
            from .flow import must_raise
            from .index import body_without_docstring
            out = set()
            for fi in self.idx.funcs.values():
                r = fi.node.returns
                if r is not None and ast.unparse(r).split(".")[-1] in ("NoReturn", "Never"):
                    out.add(fi.node.name)
                elif fi.node.name.startswith("_fail") or fi.node.name in ("_fail",):
                    if must_raise(body_without_docstring(fi.node)):
                        out.add(fi.node.name)
            self._noreturn = out
        return self._noreturn

    # ------------------------------------------------------------------ call resolution
    def resolve(self, f: FuncInfo, call: ast.Call) -> FuncInfo | None:
        fn = call.func
        if isinstance(fn, ast.Name):
            q = self.idx.resolve_name(f.module, fn.id)
            g = self.idx.funcs.get(q)
            if g is not None and g.cls is None:
                return g
            # follow re-export through a package __init__
            mod, _, sym = q.rpartition(".")
            if mod in self.idx.modules and sym in self.idx.modules[mod].imports:
                g = self.idx.funcs.get(self.idx.modules[mod].imports[sym])
                if g is not None:
                    return g
            return None
        if isinstance(fn, ast.Attribute):
            base = fn.value
            owner: ClassInfo | None = None
            if isinstance(base, ast.Name) and base.id in ("self", "cls") and f.cls is not None:
                owner = f.cls
                # a subclass may override: only resolve when no repo subclass overrides the method
                m = owner.find_method(fn.attr)
                if m is None:
                    return None
                if any(fn.attr in s.methods for s in self.idx.subclasses(owner)):
                    return None
                return m
            if isinstance(base, ast.Call) and dotted(base.func) == "super" and f.cls is not None:
                for b in f.cls.mro()[1:]:
                    if fn.attr in b.methods:
                        return b.methods[fn.attr]
                return None
            if isinstance(base, ast.Name):
                c = self.idx.resolve_class_name(f.module, base.id)
                if c is not None:
                    return c.find_method(fn.attr)
        return None

    @staticmethod
    def bind(call: ast.Call, callee: FuncInfo) -> dict[str, ast.expr]:
        """parameter name -> argument expression"""
        params = [a.arg for a in callee.node.args.posonlyargs + callee.node.args.args]
        is_method = callee.cls is not None and not any(d in ("staticmethod",) for d in callee.decorator_names())
        if is_method and params and params[0] in ("self", "cls"):
            params = params[1:]
        out: dict[str, ast.expr] = {}
        for p, a in zip(params, call.args):
            if not isinstance(a, ast.Starred):
                out[p] = a
        for kw in call.keywords:
            if kw.arg:
                out[kw.arg] = kw.value
        return out

    # ------------------------------------------------------------------ per-function facts
    def facts(self, f: FuncInfo, ptypes: dict[str, str]) -> FuncFacts:
        F = FuncFacts()
        env = dict(ptypes)
        fn = f.node
        # parameter annotations add types
        for a in fn.args.posonlyargs + fn.args.args + fn.args.kwonlyargs:
            t = ann_type(a.annotation)
            if t and a.arg not in env:
                env[a.arg] = t

        def type_of(e: ast.AST, env: dict[str, str]) -> str | None:
            if isinstance(e, ast.Name):
                return env.get(e.id)
            if isinstance(e, ast.Attribute):
                t = type_of(e.value, env)
                if t and not t.startswith("["):
                    return FIELD_TYPES.get((t, e.attr))
                return None
            if isinstance(e, ast.Subscript):
                t = type_of(e.value, env)
                if t and t.startswith("["):
                    return t if isinstance(e.slice, ast.Slice) else t[1:-1]
                return None
            if isinstance(e, ast.Call) and call_name(e) in ("list", "reversed", "sorted", "tuple") and e.args:
                return type_of(e.args[0], env)
            return None

        def bind_target(t: ast.AST, ty: str | None, env: dict[str, str]) -> bool:
            if ty and ty.strip("[]") in ("expr", "stmt", "AST", "mod"):
                return False  # abstract bases carry no field obligations
            if ty and isinstance(t, ast.Name) and t.id in env:
                return False  # the first (declared) type of a name wins; rebinding does not retype it
            if ty and isinstance(t, ast.Name) and env.get(t.id) != ty:
                env[t.id] = ty
                return True
            return False

        def elem(ty: str | None) -> str | None:
            return ty[1:-1] if ty and ty.startswith("[") else None

        def iter_bind(target: ast.AST, it: ast.AST, env: dict[str, str]) -> bool:
            ch = False
            if isinstance(it, ast.Call) and call_name(it) == "enumerate" and it.args and isinstance(target, ast.Tuple) and len(target.elts) == 2:
                return iter_bind(target.elts[1], it.args[0], env)
            if isinstance(it, ast.Call) and call_name(it) == "zip" and isinstance(target, ast.Tuple):
                for t, a in zip(target.elts, it.args):
                    ch |= iter_bind(t, a, env)
                return ch
            return bind_target(target, elem(type_of(it, env)), env)

        # fixpoint over simple bindings (flow-insensitive)
        for _ in range(4):
            changed = False
            for n in walk_no_nested(fn):
                if isinstance(n, ast.Assign) and len(n.targets) == 1:
                    t = n.targets[0]
                    changed |= bind_target(t, type_of(n.value, env), env)
                    if isinstance(t, ast.Tuple) and isinstance(n.value, ast.Call):
                        callee = self.resolve(f, n.value)
                        tys = tuple_ann_types(callee.node.returns) if callee else None
                        if tys:
                            for el, ty in zip(t.elts, tys):
                                changed |= bind_target(el, ty, env)
                elif isinstance(n, ast.AnnAssign):
                    changed |= bind_target(n.target, ann_type(n.annotation) or (type_of(n.value, env) if n.value else None), env)
                elif isinstance(n, (ast.For, ast.AsyncFor)):
                    changed |= iter_bind(n.target, n.iter, env)
                elif isinstance(n, ast.comprehension):
                    changed |= iter_bind(n.target, n.iter, env)
            if not changed:
                break

        # scoped walk: narrowing by match / isinstance
        def kw_copy_context(parent_call: ast.Call | None, kwname: str | None, attr: str, owner_cls: str = "") -> bool:
            """`C(f=node.f)` with C the node's own class or a class derived from it: the field travels on
            unchanged inside the successor node (forwarding, not consumption)."""
            if parent_call is None or kwname != attr:
                return False
            return call_name(parent_call) in same_family(owner_cls)

        def walk(n: ast.AST, env: dict[str, str], parent_call: ast.Call | None = None, kwname: str | None = None, loc_only: bool = False) -> None:
            if isinstance(n, (ast.FunctionDef, ast.AsyncFunctionDef, ast.ClassDef, ast.Lambda)) and n is not fn:
                return
            if isinstance(n, ast.Match):
                walk(n.subject, env)
                sty = type_of(n.subject, env)
                for case in n.cases:
                    env2 = dict(env)
                    self._pattern_reads(case.pattern, n.subject, sty, env2, F)
                    if case.guard is not None:
                        walk(case.guard, env2)
                    for st in case.body:
                        walk(st, env2)
                return
            if isinstance(n, ast.If):
                walk(n.test, env)
                env2 = dict(env)
                for c in ast.walk(n.test):
                    if isinstance(c, ast.Call) and dotted(c.func) == "isinstance" and len(c.args) == 2 and isinstance(c.args[0], ast.Name):
                        t = ann_type(c.args[1])
                        if t:
                            env2[c.args[0].id] = t
                for st in n.body:
                    walk(st, env2)
                for st in n.orelse:
                    walk(st, env)
                return
            if isinstance(n, ast.Attribute) and isinstance(n.ctx, ast.Load):
                t = type_of(n.value, env)
                if t and not t.startswith("["):
                    if t not in ("",):
                        F.entered.add(t)
                    if not kw_copy_context(parent_call, kwname, n.attr, t) and not loc_only:
                        F.reads.append(Read(t, n.attr, n))
                    # do not descend into n.value as a "whole node use"
                    if isinstance(n.value, ast.Name):
                        return
                    walk(n.value, env)
                    return
            if isinstance(n, ast.Call):
                self._call(f, n, env, F, type_of, walk)
                return
            if isinstance(n, ast.Return) and n.value is not None:
                self._return(f, n, env, F, type_of)
            for ch in ast.iter_child_nodes(n):
                walk(ch, env, None, None, loc_only)

        self._walk = walk  # for helpers
        for st in fn.body:
            walk(st, env)
        for v in env.values():
            F.entered.add(v.strip("[]"))
        return F

    def _pattern_reads(self, p: ast.pattern, subject: ast.AST, sty: str | None, env: dict[str, str], F: FuncFacts) -> None:
        if isinstance(p, ast.MatchClass):
            c = ann_type(p.cls)
            if c:
                for k, sub in zip(p.kwd_attrs, p.kwd_patterns):
                    F.reads.append(Read(c, k, p))
                    ft = FIELD_TYPES.get((c, k))
                    self._pattern_reads(sub, p, ft, env, F)
                F.entered.add(c)
                if isinstance(subject, ast.Name):
                    env[subject.id] = c
        elif isinstance(p, ast.MatchAs):
            if p.pattern is not None:
                self._pattern_reads(p.pattern, subject, sty, env, F)
                if p.name and isinstance(p.pattern, ast.MatchClass):
                    c = ann_type(p.pattern.cls)
                    if c:
                        env[p.name] = c
            elif p.name and sty and not sty.startswith("["):
                env[p.name] = sty
        elif isinstance(p, ast.MatchOr):
            for q in p.patterns:
                self._pattern_reads(q, subject, sty, env, F)
        elif isinstance(p, ast.MatchSequence):
            el = sty[1:-1] if sty and sty.startswith("[") else None
            for q in p.patterns:
                if isinstance(q, ast.MatchStar):
                    if q.name and sty:
                        env[q.name] = sty
                else:
                    self._pattern_reads(q, subject, el, env, F)

    def _call(self, f: FuncInfo, c: ast.Call, env, F: FuncFacts, type_of, walk) -> None:
        name = call_name(c)
        args = list(c.args) + [k.value for k in c.keywords]
        # forward through **dict(ast.iter_fields(node))
        for k in c.keywords:
            if k.arg is None:
                for x in ast.walk(k.value):
                    if isinstance(x, ast.Call) and call_name(x) == "iter_fields" and x.args and type_of(x.args[0], env):
                        F.forwards.append((c, name))
        if name == "append" and isinstance(c.func, ast.Attribute) and ast.unparse(c.func.value).endswith("statements") and c.args \
                and type_of(c.args[0], env) and not type_of(c.args[0], env).startswith("["):
            F.forwards.append((c, ""))
            return
        if name in ("generic_visit", "visit", "synthesize", "_synthesize") and c.args and isinstance(c.args[0], ast.Name) and type_of(c.args[0], env) \
                and isinstance(c.func, ast.Attribute):
            F.forwards.append((c, ""))
            for a in c.args[1:]:
                walk(a, env)
            return
        loc_only = name in LOCATION_ONLY_CALLEES or name.endswith(("Error", "Hint", "Note", "Help")) or name == "with_loc"
        callee = None if (loc_only or name in IGNORED_CALLEES) else self.resolve(f, c)
        typed: dict[str, str] = {}
        if callee is not None:
            for p, a in self.bind(c, callee).items():
                t = type_of(a, env)
                if t:
                    typed[p] = t
            if typed:
                F.calls.append((c, callee, typed))
        for i, a in enumerate(c.args):
            is_whole = isinstance(a, ast.Name) and type_of(a, env) and not type_of(a, env).startswith("[")
            if is_whole:
                if name == "with_loc" and i == 0:
                    continue
                if loc_only or name in IGNORED_CALLEES:
                    continue
                if callee is None:
                    F.opaque.append((c, ast.unparse(c.func)))
                continue
            walk(a, env, c, None, loc_only and not (name == "with_loc" and i == 1))
        for k in c.keywords:
            is_whole = isinstance(k.value, ast.Name) and type_of(k.value, env) and not type_of(k.value, env).startswith("[")
            if is_whole:
                if not (loc_only or name in IGNORED_CALLEES) and callee is None:
                    F.opaque.append((c, ast.unparse(c.func)))
                continue
            walk(k.value, env, c, k.arg, loc_only)
        walk(c.func, env) if not isinstance(c.func, ast.Name) else None

    def _return(self, f: FuncInfo, r: ast.Return, env, F: FuncFacts, type_of) -> None:
        def classify(v: ast.AST) -> None:
            if isinstance(v, ast.BoolOp):
                for x in v.values:
                    classify(x)
                return
            if isinstance(v, ast.IfExp):
                classify(v.body), classify(v.orelse)
                return
            if isinstance(v, ast.Name) and type_of(v, env) and not type_of(v, env).startswith("["):
                F.forwards.append((r, ""))
                return
            if isinstance(v, ast.Tuple) and v.elts and isinstance(v.elts[0], ast.Name) and type_of(v.elts[0], env):
                F.forwards.append((r, ""))
                return
            if isinstance(v, ast.Call) and call_name(v) in ("generic_visit", "visit") and v.args and isinstance(v.args[0], ast.Name) and type_of(v.args[0], env):
                return  # recorded as forward by _call
            if isinstance(v, ast.Constant) and v.value is None:
                return
            if isinstance(v, ast.Call) and call_name(v) in ("with_loc", "with_type") and len(v.args) == 2:
                classify(v.args[1])  # both return their second argument (annotated with location / type)
                return
            if isinstance(v, ast.Call):
                callee = self.resolve(f, v)
                if callee is not None:
                    typed = {p: type_of(a, env) for p, a in self.bind(v, callee).items() if type_of(a, env)}
                    if any(not t.startswith("[") for t in typed.values()):
                        F.return_calls.append((v, callee, typed))
                        return
            F.returns_new.append(v)
        classify(r.value)

    # ------------------------------------------------------------------ helper summaries (may-read)
    def summary(self, f: FuncInfo, ptypes: dict[str, str], depth: int = 0, stack: tuple = ()) -> tuple[set[tuple[str, str]], bool, set[str]]:
        """(may-reads, may-forward, entered helper classes) of f and its resolved callees."""
        key = (f.qualname, tuple(sorted(ptypes.items())))
        if key in self._memo:
            return self._memo[key]
        if key in stack or depth > MAX_DEPTH:
            return (set(), False, set())
        F = self.facts(f, ptypes)
        reads = {(r.cls, r.fld) for r in F.reads}
        fwd = bool(F.forwards)
        entered = set(F.entered)
        for c, callee, typed in F.calls:
            r2, f2, e2 = self.summary(callee, typed, depth + 1, stack + (key,))
            reads |= r2
            entered |= e2
            fwd = fwd or f2
        self._memo[key] = (reads, fwd, entered)
        return self._memo[key]

    def replace_points(self, f: FuncInfo, ptypes: dict[str, str], depth: int = 0) -> list[tuple[str, set[tuple[str, str]]]]:
        """Places where a (node-transforming) handler, or a helper whose result it returns, hands back
        an object other than the node it received, with the (class, field) reads available there:
        the may-reads of the function that replaces plus those of the functions up the return chain."""
        F = self.facts(f, ptypes)
        avail = {(r.cls, r.fld) for r in F.reads}
        returned = {id(c) for c, _, _ in F.return_calls}
        for c, callee, typed in F.calls:
            if id(c) not in returned:
                avail |= self.summary(callee, typed)[0]
        out = [(f"{f.qualname} line {getattr(v, 'lineno', 0)}: returns `{ast.unparse(v)[:50]}`", set(avail)) for v in F.returns_new]
        if depth < 3:
            for c, callee, typed in F.return_calls:
                for where, reads in self.replace_points(callee, typed, depth + 1):
                    out.append((where, reads | avail))
        return out

    # ------------------------------------------------------------------ handler analysis (path-based)
    def handler(self, f: FuncInfo, param: str, cls: str) -> "HandlerResult":
        F = self.facts(f, {param: cls})
        g = CFG(f.node, noreturn=self.noreturn_names())
        read_nodes: dict[tuple[str, str], set[int]] = {}
        sites: dict[tuple[str, str], list[str]] = {}
        entered = set(F.entered)

        def cfg_ids(site: ast.AST) -> set[int]:
            return {n.id for n in g.nodes_for(site)}

        for r in F.reads:
            read_nodes.setdefault((r.cls, r.fld), set()).update(cfg_ids(r.at))
            sites.setdefault((r.cls, r.fld), []).append(f"{f.module.rel}:{getattr(r.at, 'lineno', 0)}")
        helper_forward: set[int] = set()
        for c, callee, typed in F.calls:
            r2, f2, e2 = self.summary(callee, typed, 1, ((f.qualname, ()),))
            ids = cfg_ids(c)
            entered |= e2
            for k in r2:
                read_nodes.setdefault(k, set()).update(ids)
                sites.setdefault(k, []).append(f"via {callee.qualname}")
            if f2:
                helper_forward |= ids
        fwd_nodes: set[int] = set(helper_forward)
        fwd_as: set[str] = set()
        for site, as_cls in F.forwards:
            fwd_nodes |= cfg_ids(site)
            fwd_as.add(as_cls)
        if helper_forward:
            fwd_as.add("")
        return HandlerResult(f, cls, g, read_nodes, sites, fwd_nodes, fwd_as, F, entered)


@dataclass
class HandlerResult:
    func: FuncInfo
    cls: str
    cfg: CFG
    read_nodes: dict[tuple[str, str], set[int]]
    sites: dict[tuple[str, str], list[str]]
    fwd_nodes: set[int]
    fwd_as: set[str]
    facts: FuncFacts
    entered: set[str]

    def may_read(self, cls: str, fld: str) -> bool:
        return bool(self.read_nodes.get((cls, fld)))

    def must_read(self, cls: str, fld: str, or_forward: bool = False) -> bool:
        """Every normal path entry->exit passes a node reading (cls,fld) [or forwarding the node]."""
        ids = set(self.read_nodes.get((cls, fld), ()))
        if or_forward:
            ids |= self.fwd_nodes
        return self.cfg.every_path_to_exit_passes(lambda n: n.id in ids)

    def always_forwards(self) -> bool:
        return bool(self.fwd_nodes) and self.cfg.every_path_to_exit_passes(lambda n: n.id in self.fwd_nodes)

    def never_returns_normally(self) -> bool:
        return not self.cfg.exit_reachable()
