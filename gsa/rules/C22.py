"""C22 comptime tracing enforces ownership.

R-C22.1  frozenlist overrides every in-place mutator of `list`; each body, interpreted with its helpers, raises
         GuppyComptimeError (c22_unpack.py); `copy` hands out a plain list.
R-C22.2  GuppyStructObject.__setattr__ interpreted on {field or not} x {frozen or not}: frozen -> GuppyComptimeError and the values
         untouched, not frozen -> exactly that field updated, unknown name -> error (c22_usewire.run_setattr; guard shape as fallback);
         unpack_guppy_object, interpreted on a nested tuple/struct/array type with frozen False and True, yields frozenlists
         and frozen struct objects at every level iff frozen (c22_unpack.py; syntactic threading only as fallback);
         trace_function freezes exactly the non-borrowed inputs.
R-C22.3  GuppyObject._use_wire interpreted on {used, copyable, droppable}^3: GuppyComptimeError iff already used and not copyable
         (nothing changed then); otherwise the object's wire is returned, the use recorded and a non-droppable value leaves the
         leak registry (c22_usewire.py); nobody else reads `_wire` or resets `_used`.
R-C22.5  the leak registry refers to its entries strongly (c22_registry.py).
R-C22.4  objects of non-droppable type are registered on creation; `trace_function`, interpreted as a whole with recorder
         tokens, raises a GuppyError and never sets the outputs when the traced function leaves something in the leak
         registry, and sets them exactly once otherwise (c22_leak.py).
"""

from __future__ import annotations

import ast

from ..absint import booltab
from ..flow import CFG, must_raise, raised_class
from ..guards import guards_imply, lexical_guards
from ..index import AnalysisError, body_without_docstring, calls_in, dotted, walk_no_nested
from ..report import Ctx

LEVEL = "other"
EXPLANATION = (
    "Exhaustiveness (list mutator table vs. frozenlist overrides), must-raise on the frozen path, guard "
    "truth tables for the use-once and leak tests, threading of the `frozen` flag, and who-may-read/write "
    "rules for the private wire/used fields. Decides that the enforcement points exist on every path and test the "
    "right flags; does not run tracing."
)

# In-place mutators of the builtin `list` type (fixed by the language: MutableSequence
# mixins + list extras + in-place operators).
LIST_MUTATORS = ["append", "clear", "extend", "insert", "pop", "remove", "reverse", "sort",
                 "__setitem__", "__delitem__", "__iadd__", "__imul__"]


def run(ctx: Ctx) -> None:
    idx = ctx.idx
    # ------------------------------------------------------------ R-C22.1
    fl = idx.find_class("frozenlist", "guppylang_internals.tracing")
    ctx.saw("classes", fl.qualname)
    ctx.check(fl.base_names == ["list"], "R-C22.1", f"{fl.qualname}#base", fl.where, {"bases": fl.base_names},
              "frozenlist must derive from list (and only list): the mutator table below is list's")
    from . import c22_unpack
    if not c22_unpack.mutators(ctx, fl, LIST_MUTATORS):
        # fallback for bodies that could not be interpreted: every path of the body ends in a raise of GuppyComptimeError
        for m in LIST_MUTATORS:
            f = fl.methods.get(m)
            key = f"{fl.qualname}.{m}#must-raise"
            if f is None:
                ctx.violation("R-C22.1", key, fl.where, {"overridden": False},
                              f"`{m}` is inherited from list: a value derived from an owned comptime argument can be mutated in place")
                continue
            body = body_without_docstring(f.node)
            mr = must_raise(body)
            classes = sorted({raised_class(r)[0] for r in ast.walk(f.node) if isinstance(r, ast.Raise)})
            ctx.check(mr and classes == ["GuppyComptimeError"], "R-C22.1", key, f.where,
                      {"must_raise": mr, "raises": classes},
                      f"frozenlist.{m} does not reject the mutation with GuppyComptimeError on every path")
    cp = fl.methods.get("copy")
    key = f"{fl.qualname}.copy#plain-list"
    if cp is None:
        ctx.ok("R-C22.1", key, fl.where, {"inherited": True, "note": "list.copy returns a plain list"})
    else:
        rets = [r.value for r in walk_no_nested(cp.node) if isinstance(r, ast.Return)]
        good = bool(rets) and all(
            isinstance(v, ast.Call) and dotted(v.func) in ("list", "builtins.list") or isinstance(v, (ast.List, ast.ListComp))
            for v in rets)
        ctx.check(good, "R-C22.1", key, cp.where, {"returns": [ast.unparse(v) if v else None for v in rets]},
                  "frozenlist.copy must hand out a mutable plain list (the documented escape hatch), not another frozenlist/self")

    # ------------------------------------------------------------ R-C22.2
    so = idx.find_class("GuppyStructObject", "guppylang_internals.tracing.object")
    sa = so.methods.get("__setattr__")
    if sa is None:
        raise AnalysisError("GuppyStructObject.__setattr__ vanished")
    ctx.saw("functions", sa.qualname)
    from . import c22_usewire as _c22u
    if not _c22u.run_setattr(ctx):
        # fallback: every store into _field_values is guarded by `not frozen`; the frozen branch raises GuppyComptimeError (shape)
        stores = [n for n in walk_no_nested(sa.node)
                  if isinstance(n, (ast.Assign, ast.AugAssign, ast.AnnAssign, ast.Delete))
                  and any(isinstance(t, ast.Subscript) and ast.unparse(t.value).endswith("_field_values")
                          for t in (n.targets if isinstance(n, (ast.Assign, ast.Delete)) else [n.target]))]
        # also: calls mutating the dict, or delegation to object.__setattr__/super().__setattr__ for fields
        for c in calls_in(sa.node):
            if isinstance(c.func, ast.Attribute) and ast.unparse(c.func.value).endswith("_field_values") and c.func.attr in (
                    "update", "setdefault", "pop", "__setitem__", "clear", "popitem"):
                stores.append(c)
            if isinstance(c.func, ast.Attribute) and c.func.attr == "__setattr__":
                stores.append(c)
        ctx.floor("R-C22.2", "field stores in GuppyStructObject.__setattr__", len(stores), 1)
        known = booltab.suffix_atomizer({"._frozen": "frozen"})
        for i, st in enumerate(stores):
            gs = lexical_guards(sa.node, st) or []
            try:
                ok, bad = guards_imply(gs, known, lambda env: env.get("frozen") is False)
            except Exception as e:  # noqa: BLE001
                ctx.undecided("R-C22.2", f"{sa.qualname}#store{i}", sa.where, f"guards not evaluable: {e}")
                continue
            ctx.check(ok, "R-C22.2", f"{sa.qualname}#store-only-if-not-frozen[{i}]", f"{sa.module.rel}:{st.lineno}",
                      {"store": ast.unparse(st)[:80], "guards": [(ast.unparse(e)[:60], p) for e, p in gs], "reachable_with": bad},
                      "a frozen struct object (owned comptime argument) can have a field overwritten in place")
        # the frozen branch raises GuppyComptimeError
        frozen_ifs = [n for n in walk_no_nested(sa.node) if isinstance(n, ast.If) and "_frozen" in ast.unparse(n.test)]
        good = False
        facts = []
        for n in frozen_ifs:
            try:
                t = booltab.table(n.test, ["frozen"], known)
            except booltab.Unsupported:
                continue
            branch = n.body if t[(True,)] and not t[(False,)] else (n.orelse if t[(False,)] and not t[(True,)] else None)
            if branch:
                mr = must_raise(branch)
                cls = sorted({raised_class(r)[0] for b in branch for r in ast.walk(b) if isinstance(r, ast.Raise)})
                facts.append({"test": ast.unparse(n.test), "must_raise": mr, "raises": cls})
                if mr and cls == ["GuppyComptimeError"]:
                    good = True
        ctx.check(good, "R-C22.2", f"{sa.qualname}#frozen-raises", sa.where, facts,
                  "mutating a frozen struct object must raise GuppyComptimeError (not pass silently / raise something else)")

    # threading of `frozen` through unpack_guppy_object
    up = idx.find_func("unpack_guppy_object", "guppylang_internals.tracing.unpacking")
    ctx.saw("functions", up.qualname)
    params = [a.arg for a in up.node.args.args]
    if "frozen" not in params:
        raise AnalysisError("unpack_guppy_object has no `frozen` parameter")
    fpos = params.index("frozen")

    def arg_at(c: ast.Call, pos: int, name: str) -> ast.expr | None:
        for kw in c.keywords:
            if kw.arg == name:
                return kw.value
        return c.args[pos] if len(c.args) > pos else None

    if not c22_unpack.unpack(ctx):
        # fallback (not interpretable): `frozen` is passed on syntactically at every recursive call / struct object / list result
        n_rec = 0
        for c in calls_in(up.node):
            cn = dotted(c.func)
            if cn == "unpack_guppy_object":
                n_rec += 1
                a = arg_at(c, fpos, "frozen")
                ctx.check(a is not None and dotted(a) == "frozen", "R-C22.2", f"{up.qualname}#recursive-call[{n_rec}]",
                          f"{up.module.rel}:{c.lineno}", {"frozen_arg": ast.unparse(a) if a else None},
                          "nested values of an owned comptime argument are unpacked without the frozen flag and become mutable")
            elif cn == "GuppyStructObject":
                init = so.methods.get("__init__")
                ipos = [x.arg for x in init.node.args.args].index("frozen") - 1 if init else 2
                a = arg_at(c, ipos, "frozen")
                ctx.check(a is not None and dotted(a) == "frozen", "R-C22.2", f"{up.qualname}#struct-object",
                          f"{up.module.rel}:{c.lineno}", {"frozen_arg": ast.unparse(a) if a else None},
                          "struct objects built from an owned comptime argument are not frozen")
        ctx.floor("R-C22.2", "recursive unpack_guppy_object calls", n_rec, 3)
        # list results: every returned list display/comprehension goes through `frozenlist(x) if frozen else x`
        list_locals = set()
        for n in walk_no_nested(up.node):
            if isinstance(n, ast.Assign) and isinstance(n.value, (ast.ListComp, ast.List)) or (
                    isinstance(n, ast.Assign) and isinstance(n.value, ast.Call) and dotted(n.value.func) == "list"):
                for t in n.targets:
                    if isinstance(t, ast.Name):
                        list_locals.add(t.id)
        n_list_ret = 0
        for r in walk_no_nested(up.node):
            if not isinstance(r, ast.Return) or r.value is None:
                continue
            v = r.value
            def listy(x: ast.expr) -> bool:
                return (isinstance(x, (ast.ListComp, ast.List)) or (isinstance(x, ast.Name) and x.id in list_locals)
                        or (isinstance(x, ast.Call) and dotted(x.func) in ("frozenlist", "list"))
                        or (isinstance(x, ast.IfExp) and (listy(x.body) or listy(x.orelse))))
            is_list_expr = listy(v)
            if not is_list_expr:
                continue
            n_list_ret += 1
            ok = (isinstance(v, ast.IfExp) and dotted(v.test) == "frozen" and isinstance(v.body, ast.Call)
                  and dotted(v.body.func) == "frozenlist")
            if not ok and isinstance(v, ast.IfExp) and isinstance(v.test, ast.UnaryOp) and dotted(v.test.operand) == "frozen":
                ok = isinstance(v.orelse, ast.Call) and dotted(v.orelse.func) == "frozenlist"
            if not ok:
                gs = lexical_guards(up.node, r) or []
                fz = booltab.suffix_atomizer({"frozen": "frozen"})
                try:
                    always_frozen, _ = guards_imply(gs, fz, lambda env: env.get("frozen") is True)
                    never_frozen, _ = guards_imply(gs, fz, lambda env: env.get("frozen") is False)
                except Exception:  # noqa: BLE001
                    always_frozen = never_frozen = False
                is_fl = isinstance(v, ast.Call) and dotted(v.func) == "frozenlist"
                ok = (always_frozen and is_fl) or (never_frozen and not is_fl)
            ctx.check(ok, "R-C22.2", f"{up.qualname}#list-result[{n_list_ret}]", f"{up.module.rel}:{r.lineno}",
                      {"returns": ast.unparse(v)[:100]},
                      "arrays of an owned comptime argument are unpacked into a plain mutable list")
        ctx.floor("R-C22.2", "list-valued returns in unpack_guppy_object", n_list_ret, 1)
    # trace_function freezes exactly the non-borrowed inputs
    tf = idx.find_func("trace_function", "guppylang_internals.tracing.function")
    ctx.saw("functions", tf.qualname)
    n_tf = 0
    for c in calls_in(tf.node):
        if dotted(c.func) != "unpack_guppy_object":
            continue
        a = arg_at(c, fpos, "frozen")
        n_tf += 1
        key = f"{tf.qualname}#freeze-non-borrowed-inputs"
        where = f"{tf.module.rel}:{c.lineno}"
        if a is None:
            ctx.violation("R-C22.2", key, where, {"frozen_arg": None}, "owned comptime inputs are not frozen (default frozen=False)")
            continue
        s = ast.unparse(a)
        verdict = None
        # the expression is evaluated for every flag set an input can carry: frozen  <=>  the input is not borrowed
        import itertools as _it
        from ..absint.minieval import Unsupported as _Uns
        from ..absint.pyeval import Raised as _Raised, Tok as _Tok
        from .c07_trace import FlagNameEval
        loop_vars = sorted({n_.id for n_ in ast.walk(a) if isinstance(n_, ast.Name)} - {"InputFlags"})
        table = {}
        try:
            for r_ in range(0, 4):
                for fl in _it.combinations(("InputFlags.Inout", "InputFlags.Owned", "InputFlags.Comptime"), r_):
                    if "InputFlags.Inout" in fl and "InputFlags.Owned" in fl:
                        continue  # contradictory annotations are rejected when the signature is parsed
                    inp_t = _Tok("inp", flags=set(fl), ty=_Tok("ty", copyable=True, droppable=True))
                    v_ = FlagNameEval(idx, tf.module.name).ev(a, {nm: inp_t for nm in loop_vars})
                    if not isinstance(v_, bool):
                        raise _Uns(f"frozen argument evaluates to {v_!r}")
                    table[fl] = v_
            wrong = {", ".join(x.split(".")[1] for x in fl) or "no flags": got for fl, got in table.items() if got != ("InputFlags.Inout" not in fl)}
            ctx.check(not wrong, "R-C22.2", key, where, {"frozen_arg": s, "flag_sets": len(table), "wrong_for": wrong},
                      "the frozen flag passed for function inputs is not `Inout not in flags`: owned or by-value inputs mutable, or borrowed inputs frozen")
            continue
        except (_Uns, _Raised):
            pass  # fall back to the recognised spellings below
        if isinstance(a, ast.Compare) and len(a.ops) == 1 and dotted(a.left).endswith("Inout") and ast.unparse(a.comparators[0]).endswith(".flags"):
            verdict = isinstance(a.ops[0], ast.NotIn)
        elif (isinstance(a, ast.UnaryOp) and isinstance(a.op, ast.Not) and isinstance(a.operand, ast.Compare)
              and len(a.operand.ops) == 1 and dotted(a.operand.left).endswith("Inout")):
            verdict = isinstance(a.operand.ops[0], ast.In)
        elif isinstance(a, ast.Constant):
            verdict = False
        if verdict is None:
            ctx.undecided("R-C22.2", key, where, f"frozen argument `{s}` not in the recognised fragment")
        else:
            ctx.check(verdict, "R-C22.2", key, where, {"frozen_arg": s},
                      "the frozen flag passed for function inputs is not `Inout not in flags`: owned inputs mutable or borrowed inputs frozen")
    ctx.floor("R-C22.2", "unpack_guppy_object calls in trace_function", n_tf, 1)

    # ------------------------------------------------------------ R-C22.3
    go = idx.find_class("GuppyObject", "guppylang_internals.tracing.object")
    uw = go.methods.get("_use_wire")
    if uw is None:
        raise AnalysisError("GuppyObject._use_wire vanished")
    ctx.saw("functions", uw.qualname)
    from . import c22_usewire
    if not c22_usewire.run(ctx):
        # fallback: guards of the returns, the raising branch, the recorded use and the registry pop by their shape
        known_uw = booltab.suffix_atomizer({"._used": "used", ".copyable": "copyable"})
        # (a) every `return self._wire` is guarded by NOT(used and not copyable); the raising branch exists
        rets = [r for r in walk_no_nested(uw.node) if isinstance(r, ast.Return)]
        ctx.floor("R-C22.3", "returns in _use_wire", len(rets), 1)
        for i, r in enumerate(rets):
            gs = lexical_guards(uw.node, r) or []
            try:
                ok, bad = guards_imply(gs, known_uw, lambda env: "used" in env and "copyable" in env and not (env["used"] and not env["copyable"]))
            except Exception as e:  # noqa: BLE001
                ctx.undecided("R-C22.3", f"{uw.qualname}#return[{i}]", uw.where, str(e))
                continue
            ctx.check(ok, "R-C22.3", f"{uw.qualname}#no-wire-when-used-and-noncopyable[{i}]", f"{uw.module.rel}:{r.lineno}",
                      {"guards": [(ast.unparse(e)[:60], p) for e, p in gs], "reachable_with": bad},
                      "a non-copyable comptime value that was already used can be used again (its wire is handed out twice)")
        raising = False
        over_strict = None
        for n in walk_no_nested(uw.node):
            if isinstance(n, ast.If):
                try:
                    eq, bad = booltab.equivalent(n.test, ["used", "copyable"], known_uw, lambda used, copyable: used and not copyable)
                except booltab.Unsupported:
                    continue
                if must_raise(n.body):
                    raising = True
                    over_strict = None if eq else bad
        ctx.check(raising and over_strict is None, "R-C22.3", f"{uw.qualname}#raise-iff-used-and-noncopyable", uw.where,
                  {"raising_branch_found": raising, "differs_from_spec_at": over_strict},
                  "_use_wire must raise exactly when the value was used and is not copyable (copyable values may be reused)")
        # (b) the use is recorded on every path that returns the wire
        g = CFG(uw.node)
        def sets_used(n):  # noqa: E306
            return n.ast is not None and isinstance(n.ast, (ast.Assign, ast.AnnAssign)) and any(
                isinstance(t, ast.Attribute) and t.attr == "_used" for t in (n.ast.targets if isinstance(n.ast, ast.Assign) else [n.ast.target]))
        ctx.check(g.every_path_to_exit_passes(sets_used), "R-C22.3", f"{uw.qualname}#records-use", uw.where,
                  {"rule": "every normal path assigns self._used"},
                  "a use of a non-copyable comptime value is not recorded, so a second use is not detected")
        # (c) unused_undroppable bookkeeping: popped when a non-droppable value is used
        pops = [c for c in calls_in(uw.node) if isinstance(c.func, ast.Attribute) and c.func.attr in ("pop", "__delitem__")
                and "unused_undroppable_objs" in ast.unparse(c.func.value)]
        dels = [d for d in walk_no_nested(uw.node) if isinstance(d, ast.Delete) and "unused_undroppable_objs" in ast.unparse(d)]
        ctx.check(bool(pops or dels), "R-C22.3", f"{uw.qualname}#clears-leak-entry", uw.where, {"pops": len(pops) + len(dels)},
                  "using a non-droppable value does not clear its leak-tracking entry: every qubit would be reported as leaked")
    # (d) who may read _wire / write _used
    readers = []
    writers_used = []
    for f in idx.iter_funcs(("guppylang_internals", "guppylang")):
        for n in walk_no_nested(f.node):
            if isinstance(n, ast.Attribute) and n.attr == "_wire" and isinstance(n.ctx, ast.Load):
                readers.append(f.qualname)
            if isinstance(n, ast.Attribute) and n.attr == "_used" and isinstance(n.ctx, ast.Store):
                writers_used.append(f.qualname)
    allowed_readers = {uw.qualname}
    allowed_writers = {uw.qualname, f"{go.qualname}.__init__", "guppylang_internals.tracing.unpacking.update_packed_value"}
    ctx.check(set(readers) <= allowed_readers, "R-C22.3", "who-may-read#_wire", go.where,
              {"readers": sorted(set(readers)), "allowed": sorted(allowed_readers)},
              "the wire of a comptime object is read without going through the use-once check in _use_wire")
    ctx.check(set(writers_used) <= allowed_writers, "R-C22.3", "who-may-write#_used", go.where,
              {"writers": sorted(set(writers_used)), "allowed": sorted(allowed_writers),
               "reason": "update_packed_value re-arms a borrowed value after write-back with a fresh wire"},
              "the used flag of a comptime object is reset outside the borrow write-back: a consumed value becomes usable again")

    # ------------------------------------------------------------ R-C22.4
    init = go.methods.get("__init__")
    if init is None:
        raise AnalysisError("GuppyObject.__init__ vanished")
    regs = [n for n in walk_no_nested(init.node) if isinstance(n, ast.Assign)
            and any(isinstance(t, ast.Subscript) and "unused_undroppable_objs" in ast.unparse(t.value) for t in n.targets)]
    ctx.floor("R-C22.4", "registration of undroppable objects in GuppyObject.__init__", len(regs), 1)
    known_init = booltab.suffix_atomizer({".droppable": "droppable", "._used": "used", "used": "used"})
    for n in regs:
        gs = lexical_guards(init.node, n) or []
        # registration must happen whenever not droppable and not used:  (¬droppable ∧ ¬used) -> guards hold
        from ..absint.booltab import evaluate
        from ..guards import generic_atomizer
        atomize = generic_atomizer(known_init)
        bad = []
        try:
            for d in (False, True):
                for u in (False, True):
                    env = {"droppable": d, "used": u}
                    holds = all(evaluate(e, env, atomize) == p for e, p in gs)
                    want = (not d) and (not u)
                    if want and not holds:
                        bad.append({**env, "registered": holds})
        except (KeyError, booltab.Unsupported) as e:
            ctx.undecided("R-C22.4", f"{init.qualname}#register", init.where, f"guard outside fragment: {e}")
            continue
        ctx.check(not bad, "R-C22.4", f"{init.qualname}#register-undroppable", f"{init.module.rel}:{n.lineno}",
                  {"guards": [(ast.unparse(e), p) for e, p in gs], "missed": bad},
                  "a freshly created non-droppable comptime value is not registered for the leak check")
    from . import c22_leak
    if not c22_leak.run(ctx):
        # fallback (trace_function not interpretable): an `if <registry>: raise` test that dominates set_outputs
        # trace_function: raise when unused_undroppable_objs non-empty, before set_outputs
        gtf = CFG(tf.node)
        leak_tests = [n for n in gtf.nodes if n.kind == "test" and n.ast is not None and "unused_undroppable_objs" in ast.unparse(n.ast)]
        ctx.floor("R-C22.4", "leak test in trace_function", len(leak_tests), 1)
        leak_if = [n for n in walk_no_nested(tf.node) if isinstance(n, ast.If) and "unused_undroppable_objs" in ast.unparse(n.test)]
        good = False
        facts = []
        for n in leak_if:
            neg = isinstance(n.test, ast.UnaryOp) and isinstance(n.test.op, ast.Not)
            branch = n.orelse if neg else n.body
            mr = bool(branch) and must_raise(branch)
            cls = sorted({raised_class(r)[0] for b in branch for r in ast.walk(b) if isinstance(r, ast.Raise)})
            facts.append({"test": ast.unparse(n.test), "must_raise": mr, "raises": cls})
            plain = ast.unparse(n.test.operand if neg else n.test)
            if mr and cls and set(cls) <= {"GuppyError", "GuppyComptimeError"} and plain.endswith("unused_undroppable_objs"):
                good = True
        ctx.check(good, "R-C22.4", f"{tf.qualname}#leak-raises", tf.where, facts,
                  "a comptime function that leaks a non-droppable value (e.g. a qubit) is compiled instead of rejected")
        # the leak test dominates set_outputs
        so_nodes = [n for n in gtf.nodes if n.ast is not None and n.kind == "stmt" and any(
            isinstance(c, ast.Call) and isinstance(c.func, ast.Attribute) and c.func.attr == "set_outputs" for c in ast.walk(n.ast))]
        ctx.floor("R-C22.4", "set_outputs calls in trace_function", len(so_nodes), 1)
        for i, n in enumerate(so_nodes):
            dom = gtf.dominated_by(n, lambda m: m.kind == "test" and m.ast is not None and "unused_undroppable_objs" in ast.unparse(m.ast))
            ctx.check(dom, "R-C22.4", f"{tf.qualname}#leak-check-before-set_outputs[{i}]", f"{tf.module.rel}:{n.ast.lineno}",
                      {"dominated": dom}, "outputs of a comptime function are set on a path that skipped the leak check")

    # ------------------------------------------------------------ R-C22.5 leak registry holds strong references
    from . import c22_registry
    c22_registry.run(ctx)

