"""R-C11.5  registrations into the session store do not depend on what the store already holds.

`CompilationEngine.reset()` clears the engine's caches but not DEF_STORE (definitions registered
by decorators must survive).  Definitions *derived during checking* (a struct's generated
constructor, its impl-table entry) are therefore re-registered by every check, overwriting the
entries of the previous check.  If such a registration is skipped when the store "already has
one", every later check in the session silently reuses objects that belong to an earlier check
(they point at the earlier CheckedStructDef): the outcome then depends on the session history.

Rule: no write into DEF_STORE (`DEF_STORE.register_*(...)`, stores through `DEF_STORE.<map>[…]`,
mutating calls on `DEF_STORE.<map>`) is control-dependent on a condition that reads DEF_STORE or
one of the engine's per-session caches (`self.parsed/checked/compiled` inside CompilationEngine).
Guards are the lexical guards incl. early exits (`if …: continue/return` before the write).
"""

from __future__ import annotations

import ast

from ..guards import lexical_guards
from ..index import walk_no_nested
from ..report import Ctx

STORE = "DEF_STORE"
ENGINE_CACHES = {"parsed", "checked", "compiled"}
MUTATORS = {"append", "extend", "insert", "pop", "remove", "clear", "update", "add", "discard", "setdefault", "popitem"}


def _store_reads(e: ast.AST, in_engine: bool) -> list[str]:
    out = []
    for n in ast.walk(e):
        if isinstance(n, ast.Attribute) and isinstance(n.value, ast.Name):
            if n.value.id == STORE:
                out.append(ast.unparse(n))
            elif in_engine and n.value.id == "self" and n.attr in ENGINE_CACHES:
                out.append(ast.unparse(n))
    return out


def _is_store_write(n: ast.AST) -> str | None:
    if isinstance(n, ast.Call) and isinstance(n.func, ast.Attribute):
        v = n.func.value
        if isinstance(v, ast.Name) and v.id == STORE and n.func.attr.startswith("register"):
            return f"{STORE}.{n.func.attr}(…)"
        if isinstance(v, (ast.Attribute, ast.Subscript)) and n.func.attr in MUTATORS and STORE in {x.id for x in ast.walk(v) if isinstance(x, ast.Name)}:
            return f"{ast.unparse(v)}.{n.func.attr}(…)"
    if isinstance(n, (ast.Assign, ast.AugAssign, ast.Delete)):
        tgts = n.targets if isinstance(n, (ast.Assign, ast.Delete)) else [n.target]
        for t in tgts:
            if isinstance(t, (ast.Subscript, ast.Attribute)) and STORE in {x.id for x in ast.walk(t) if isinstance(x, ast.Name)}:
                return f"{ast.unparse(t)} = …"
    return None


def run(ctx: Ctx) -> None:
    idx = ctx.idx
    n_sites = 0
    # engine attributes that survive a check: those `reset()` does not re-initialise (the caches it clears are per-check
    # memo tables -- `if id in self.checked: return …` inside one check is not a dependence on the session)
    eng = idx.find_class("CompilationEngine", "guppylang_internals.engine")
    reset = eng.methods.get("reset")
    cleared = {t.attr for n in ast.walk(reset.node) if isinstance(n, ast.Assign) for t in n.targets
               if isinstance(t, ast.Attribute) and isinstance(t.value, ast.Name) and t.value.id == "self"} if reset else set()
    all_attrs = {t.attr for m in eng.methods.values() for n in ast.walk(m.node) if isinstance(n, (ast.Assign, ast.AnnAssign))
                 for t in (n.targets if isinstance(n, ast.Assign) else [n.target])
                 if isinstance(t, ast.Attribute) and isinstance(t.value, ast.Name) and t.value.id == "self"}
    ENGINE_CACHES.clear()
    ENGINE_CACHES.update(all_attrs - cleared)
    ctx.note(f"R-C11.5: engine attributes that survive reset(): {sorted(ENGINE_CACHES)}; cleared per check: {sorted(cleared)}")
    for f in idx.iter_funcs(("guppylang_internals", "guppylang")):
        in_engine = f.cls is not None and f.cls.name == "CompilationEngine"
        for n in walk_no_nested(f.node):
            w = _is_store_write(n)
            if w is None:
                continue
            n_sites += 1
            gs = lexical_guards(f.node, n) or []
            offending = [(ast.unparse(e)[:90], pol, r) for e, pol in gs for r in [_store_reads(e, in_engine)] if r]
            ctx.check(not offending, "R-C11.5", f"{f.qualname}#{w}-independent-of-store-content", f"{f.module.rel}:{n.lineno}",
                      {"write": ast.unparse(n)[:100], "guards_reading_session_state": [{"test": t, "taken_when": p, "reads": r} for t, p, r in offending]},
                      "a definition is registered in the session-wide store only if the store does not already hold one: later checks in the same "
                      "session reuse objects derived during an earlier check, so the result depends on what was compiled before")
    ctx.floor("R-C11.5", "writes into DEF_STORE", n_sites, 4)
