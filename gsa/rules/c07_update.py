"""R-C07.7  the comptime write-back reaches every leaf of the lent Python value (`update_packed_value`, interpreted).

`update_packed_value(v, obj, builder)` is interpreted from its syntax tree on Python values built from Guppy-object leaves
(copyable and linear, used and unused), `None`, tuples, struct objects, lists, and plain Python numbers, against an object of
the matching type; the HUGR builder hands out fresh wires per unpacking, `GuppyObject(ty, wire)` is a recorder.

Decided: every Guppy-object leaf ends up with the wire of ITS component of `obj` (copyable ones too) and is available again
(`_used` reset); a plain Python value inside a list / struct that cannot be updated in place is replaced by an object for
that element (its type, its wire) -- not by the object of the whole container; the function reports success unless the
top-level value itself cannot be updated.
"""

from __future__ import annotations

from ..absint.minieval import Unsupported
from ..absint.pyeval import PyEval, Raised, Tok
from ..report import Ctx

UP = "guppylang_internals.tracing.unpacking"
_c = [0]


def _ty(name, cls="NumericType", **kw):
    return Tok(name, __class__=cls, __ident__=1, **kw)


def _gobj(ty, wire, used=False, droppable=True):
    _c[0] += 1
    o = Tok(f"gobj{_c[0]}", __class__="GuppyObject", _ty=ty, _wire=wire, _used=Tok("earlier_use") if used else None, _id=_c[0], __ident__=1)
    o.attrs["__methods__"] = {"_use_wire": lambda r, a: r.attrs["_wire"]}
    return o


def run(ctx: Ctx) -> bool:
    idx = ctx.idx
    f = idx.find_func("update_packed_value", UP)
    key = f"{f.qualname}#every-leaf-gets-its-new-wire"
    ps = [a.arg for a in f.node.args.args]
    INT = _ty("int_ty", copyable=True, droppable=True)
    QB = _ty("qubit_ty", "OpaqueType", copyable=False, droppable=False)

    def tuple_ty(*ts):
        return _ty(f"tuple_ty{len(ts)}", "TupleType", element_types=list(ts), copyable=False, droppable=False)

    def struct_ty(**fs):
        return _ty("struct_ty", "StructType", fields=[Tok(f"field_{n}", name=n, ty=t) for n, t in fs.items()], copyable=False, droppable=False)

    def array_ty(elem, n):
        return _ty(f"array_ty[{n}]", "OpaqueType", __array__=(elem, n), copyable=False, droppable=True)

    bad = []
    n = 0

    def case(desc, v, ty, leaves, replaced=(), want_ret=True):
        """leaves: [(leaf object, path of component indices)]; replaced: [(container, key, element type, path)]"""
        nonlocal n
        n += 1
        counter = [0]
        origin: dict = {}  # wire name -> path of the component it stands for

        def split(wire, k):
            base = origin.get(wire.name, ())
            outs = []
            for j in range(k):
                counter[0] += 1
                w = Tok(f"wire{counter[0]}", __ident__=1)
                origin[w.name] = base + (j,)
                outs.append(w)
            return outs

        root = Tok("root_wire", __ident__=1)
        origin[root.name] = ()
        made: list = []

        def h_gobj(node, e, env):
            o = _gobj(e.ev(node.args[0], env), e.ev(node.args[1], env))
            made.append(o)
            return o

        def h_add_op(r, a):
            src = a[1]
            return Tok("unpack_node", __methods__={"outputs": lambda rr, x, src=src: split(src, 8)})

        builder = Tok("builder", __methods__={"add_op": h_add_op}, __ident__=1)
        state = Tok("state", unused_undroppable_objs={}, __ident__=1)

        def h_zip(node, e, env):
            seqs = [list(e.ev(x, env)) for x in node.args]
            m = min(len(s) for s in seqs)
            return [tuple(s[i] for s in seqs) for i in range(m)]

        env = {ps[0]: v, ps[1]: _gobj(ty, root), ps[2]: builder, "GuppyObject": h_gobj, "get_tracing_state": lambda node, e, env: state,
               "is_array_type": lambda node, e, env: "__array__" in e.ev(node.args[0], env).attrs,
               "get_element_type": lambda node, e, env: e.ev(node.args[0], env).attrs["__array__"][0],
               "unpack_array": lambda node, e, env: split(e.ev(node.args[1], env), 8), "zip": h_zip}
        ev = PyEval(idx, UP, max_depth=12)
        try:
            out = ev.run_function(f, env)
        except Raised as e:
            bad.append({"value": desc, "problem": f"raises {e.cls or e}"})
            return
        ret = out[1] if out[0] == "return" else f"{out[0]} {out[1]}"
        problems = []
        if ret is not want_ret:
            problems.append(f"returns {ret!r}, should return {want_ret}")
        for leaf, path in leaves:
            w = leaf.attrs.get("_wire")
            if not isinstance(w, Tok) or origin.get(w.name) != path:
                problems.append(f"leaf at {path} keeps {'its old wire' if isinstance(w, str) else 'the wire of component ' + str(origin.get(getattr(w, 'name', None)))}")
            if leaf.attrs.get("_used") is not None:
                problems.append(f"leaf at {path} is still marked as used")
        for container, k, ety, path in replaced:
            cur = container[k]
            if not (isinstance(cur, Tok) and cur.attrs.get("__class__") == "GuppyObject" and cur.attrs.get("_ty") is ety
                    and isinstance(cur.attrs.get("_wire"), Tok) and origin.get(cur.attrs["_wire"].name) == path):
                what = f"type {cur.attrs.get('_ty')!r}, wire of component {origin.get(getattr(cur.attrs.get('_wire'), 'name', None))}" if isinstance(cur, Tok) else repr(cur)
                problems.append(f"element {k!r} is replaced by {what}; should be an object of type {ety!r} for component {path}")
        if problems:
            bad.append({"value": desc, "problems": problems[:3]})

    try:
        a, b = _gobj(INT, "old_a"), _gobj(QB, "old_b", used=True, droppable=False)
        case("a copyable object", a, INT, [(a, ())])
        case("a used linear object", b, QB, [(b, ())])
        case("None", None, _ty("none_ty", "NoneType"), [])
        x, y = _gobj(INT, "old_x", used=True), _gobj(QB, "old_y", used=True)
        case("(copyable object, linear object)", (x, y), tuple_ty(INT, QB), [(x, (0,)), (y, (1,))])
        x, y = _gobj(INT, "old_x"), _gobj(QB, "old_y", used=True)
        st = struct_ty(n=INT, q=QB)
        so = Tok("struct_object", __class__="GuppyStructObject", _ty=st, _field_values={"n": x, "q": y}, __ident__=1)
        case("struct object {n: copyable object, q: linear object}", so, st, [(x, (0,)), (y, (1,))])
        x, y = _gobj(INT, "old_x", used=True), _gobj(INT, "old_y")
        case("[copyable object, copyable object]", [x, y], array_ty(INT, 2), [(x, (0,)), (y, (1,))])
        lst = [1, 2]
        at = array_ty(INT, 2)
        case("[1, 2]  (plain Python numbers)", lst, at, [], replaced=[(lst, 0, INT, (0,)), (lst, 1, INT, (1,))])
        x = _gobj(QB, "old_x", used=True)
        vals = {"n": 3, "q": x}
        so = Tok("struct_object", __class__="GuppyStructObject", _ty=st, _field_values=vals, __ident__=1)
        case("struct object {n: 3 (plain number), q: linear object}", so, st, [(x, (1,))], replaced=[(vals, "n", INT, (0,))])
        x = _gobj(INT, "old_x")
        inner = [x, 7]
        it = array_ty(INT, 2)
        case("([copyable object, 7], linear object)", (inner, (y2 := _gobj(QB, "old_y", used=True))), tuple_ty(it, QB), [(x, (0, 0)), (y2, (1,))],
             replaced=[(inner, 1, INT, (0, 1))])
        case("5  (a plain number at top level)", 5, INT, [], want_ret=False)
    except Unsupported as e:
        ctx.undecided("R-C07.7", key, f.where, str(e))
        return False
    ctx.check(not bad, "R-C07.7", key, f.where, {"cases": n, "counterexamples": bad[:4], "n_counterexamples": len(bad)},
              "after a comptime call that borrows a Python value, some part of the value still refers to the pre-call wire, stays marked as "
              "used, or is replaced by the wrong object: the caller does not see the callee's update")
    return True
