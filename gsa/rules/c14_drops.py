"""R-C14.5 (semantic form)  which dangling values get an explicit drop.

requires_drop   interpreted from its syntax tree (helpers followed) on every HUGR type term up to nesting depth 2 over
                {affine extension type (array), plain extension type, affine / plain opaque type, sum, tuple, type variable
                with linear / copyable bound, function type, qubit-like leaf}, with type arguments and const arguments mixed.
                Reference: a type needs a drop iff it is one of the affine extension types, or a type argument of an
                extension/opaque type needs one, or a component of a sum needs one, or it is a type variable with linear
                bound.  (Function types and everything else: no.)
insert_drops    interpreted on a model HUGR of four nodes (a function definition, which is skipped, and three operations)
                whose out-ports are connected / dangling, value / non-value, of types that need a drop or not: a drop
                operation of exactly the port's type is added under the node's parent and linked to the port iff the port is
                a dangling value port whose type needs a drop; nothing else is added.
"""

from __future__ import annotations

from ..absint.minieval import Unsupported
from ..absint.pyeval import PyEval, Raised, Tok, with_kwargs
from ..index import dotted
from ..report import Ctx

CC = "guppylang_internals.compiler.core"
AFFINE = ["EXT.array", "EXT.borrow_array"]


class HugrEval(PyEval):
    """`ht.TypeBound.X` evaluates to the string "TypeBound.X" (type-variable tokens carry the same strings)."""

    def attr(self, value, name, node, env):
        d = dotted(node)
        if d and d.split(".")[-2:-1] == ["TypeBound"]:
            return f"TypeBound.{name}"
        return super().attr(value, name, node, env)


def _ev(idx) -> HugrEval:
    ev = HugrEval(idx, CC, max_depth=12)
    ev.__dict__["_modconst"] = {"AFFINE_EXTENSION_TYS": list(AFFINE)}
    return ev


# ---- type terms: (kind, payload) with a reference verdict -----------------------------------------------------------------
def _mk(term):
    """Token for a type term; returns (token, needs_drop)."""
    kind = term[0]
    if kind == "leaf":
        return Tok("qubit_like", __class__="_QubitDef"), False
    if kind == "fn":
        return Tok("fn_ty", __class__="FunctionType", input=[], output=[]), False
    if kind == "var":
        # hugr-py prints a type variable as `$<index>`, without its bound: two different variables may print alike
        return Tok(f"var_{term[1]}", __class__="Variable", idx=0, bound=f"TypeBound.{term[1]}", __str__="$0"), term[1] == "Linear"
    if kind in ("ext", "opaque"):
        _, name, args = term
        toks, need = [], name in ("array", "borrow_array")
        for a in args:
            if a == "const":
                toks.append(Tok("nat_arg", __class__="BoundedNatArg", n=3))
            else:
                t, nd = _mk(a)
                toks.append(Tok(f"tyarg({t.name})", __class__="TypeTypeArg", ty=t))
                need = need or nd
        if kind == "ext":
            td = Tok(f"typedef_{name}", name=name, _extension=Tok("ext", name="EXT"))
            return Tok(f"Ext[{name}]({','.join(x.name for x in toks)})", __class__="ExtType", type_def=td, args=toks), need
        return Tok(f"Opaque[{name}]({','.join(x.name for x in toks)})", __class__="Opaque", id=name, extension="EXT", args=toks, bound="TypeBound.Linear"), need
    if kind in ("sum", "tuple"):
        rows, need = [], False
        for row in term[1]:
            r = []
            for a in row:
                t, nd = _mk(a)
                r.append(t)
                need = need or nd
            rows.append(r)
        cls = "Sum" if kind == "sum" else "Tuple"
        return Tok(f"{cls}{[[x.name for x in r] for r in rows]}", __class__=cls, __bases__=("Sum",), variant_rows=rows), need
    raise AssertionError(term)


def _terms():
    base = [("leaf",), ("fn",), ("var", "Linear"), ("var", "Copyable"), ("ext", "array", []), ("ext", "option", []), ("opaque", "borrow_array", []), ("opaque", "thing", [])]
    level1 = list(base)
    for b in base:
        level1 += [("ext", "array", [b, "const"]), ("ext", "option", [b]), ("ext", "option", ["const", b]), ("opaque", "thing", [b]), ("opaque", "array", ["const"]),
                   ("sum", [[], [b]]), ("tuple", [[("leaf",), b]])]
    level2 = list(level1)
    for b in level1[len(base):][::2]:
        level2 += [("ext", "option", [b]), ("sum", [[b], [("leaf",)]]), ("opaque", "thing", ["const", b])]
    return level2


def run(ctx: Ctx) -> bool:
    idx = ctx.idx
    decided = True
    rd = idx.find_func("requires_drop", CC)
    key = f"{rd.qualname}#recursion"
    p0 = rd.node.args.args[0].arg
    bad = []
    n = 0
    try:
        for term in _terms():
            tok, want = _mk(term)
            n += 1
            ev = _ev(idx)
            try:
                out = ev.run_function(rd, {p0: tok})
            except Raised as e:
                bad.append({"type": tok.name[:90], "problem": f"raises {e.cls or e}"})
                continue
            got = out[1] if out[0] == "return" else f"{out[0]} {out[1]}"
            if got is not want:
                bad.append({"type": tok.name[:90], "requires_drop": got, "should_be": want})
        ctx.check(not bad, "R-C14.5", key, rd.where, {"type_terms": n, "affine_extension_types": AFFINE, "counterexamples": bad[:4], "n_counterexamples": len(bad)},
                  "a droppable-but-not-copyable value nested in an extension type / sum / type variable is not recognised as needing a drop (or a "
                  "value that must not be dropped is)")
    except Unsupported as e:
        ctx.undecided("R-C14.5", key, rd.where, str(e))
        decided = False

    # ------------------------------------------------------------------------------------------------ insert_drops
    ins = idx.find_func("insert_drops", CC)
    key = f"{ins.qualname}#drops-exactly-the-dangling-affine-values"
    arr, arr_need = _mk(("ext", "array", [("leaf",), "const"]))
    tup, tup_need = _mk(("tuple", [[("leaf",), ("ext", "array", [])]]))
    qb, _ = _mk(("leaf",))
    vc, _ = _mk(("var", "Copyable"))
    vl, _ = _mk(("var", "Linear"))
    port_specs = [  # (linked, value kind, type, needs drop)
        (False, True, arr, True), (True, True, arr, True), (False, True, qb, False), (False, False, arr, True), (False, True, tup, True), (True, True, qb, False)]
    bad = []
    n = 0
    try:
        same_print = [(False, True, vc, False), (False, True, vl, True), (False, True, vc, False)]  # decided per type, not per printed form
        # one node with a copyable output that is used twice next to a dangling array (ports 0 and 3 land on node 0): a test on the
        # NUMBER of links of a node instead of each port's own links misses the dangling one
        fan_out = [(2, True, qb, False), (True, True, qb, False), (True, True, qb, False), (False, True, arr, True)]
        for layout in (port_specs, port_specs[::-1], port_specs[:1], [], same_print, same_print[::-1][1:], fan_out):
            n += 1
            nodes, data, ports, kinds, linked, want = [], {}, {}, {}, {}, []
            parent = Tok("parent_node", __ident__=1)
            fdef = Tok("funcdefn_node", __ident__=1)
            nodes.append(fdef)
            data[fdef] = Tok("data_fdef", op=Tok("op", __class__="FuncDefn"), parent=None)
            ports[fdef] = [Tok("fdef_port0", __ident__=1)]
            # (function definitions are skipped because of an upstream port-count bug; the model gives them nothing to drop, so
            # the verdict does not depend on that workaround)
            kinds[ports[fdef][0]] = Tok("kind", __class__="ValueKind", ty=qb)
            linked[ports[fdef][0]] = [Tok("some_input_port")]
            for i in range(3):
                nd = Tok(f"node{i}", __ident__=1)
                nodes.append(nd)
                data[nd] = Tok(f"data{i}", op=Tok("op", __class__="DataflowOp"), parent=parent)
                ports[nd] = []
                for j, (lk, val, ty, need) in enumerate(layout[i::3]):
                    pt = Tok(f"node{i}.out{j}", __ident__=1)
                    ports[nd].append(pt)
                    kinds[pt] = Tok("kind", __class__="ValueKind" if val else "OrderKind", ty=ty) if val else Tok("kind", __class__="OrderKind")
                    linked[pt] = [Tok(f"some_input_port{q}") for q in range(int(lk))]  # 0 = dangling, 1 = connected, 2 = a copied value used twice
                    if not lk and val and need:
                        want.append((pt, ty, parent))
            for nd in nodes:
                nd.attrs["__methods__"] = {"out": (lambda recv, a: ports[recv][a[0]])}
            added, links = [], []

            @with_kwargs
            def add_node(recv, a, kw, added=added):
                par = kw.get("parent", a[1] if len(a) > 1 else None)
                dn = Tok(f"dropnode{len(added)}", __ident__=1)
                dn.attrs["__methods__"] = {"inp": (lambda r, x, dn=dn: Tok(f"{dn.name}.in{x[0]}", __ident__=1))}
                added.append((dn, a[0], par))
                return dn

            hugr = Tok("hugr", __iter__=list(nodes), __getitem__=lambda k: data[k], __ident__=1, __methods__={
                "num_out_ports": lambda recv, a: len(ports[a[0]]),
                "port_kind": lambda recv, a: kinds[a[0]],
                "linked_ports": lambda recv, a: list(linked[a[0]]),
                # other queries a HUGR answers (modelled so that code using them is decided, not skipped)
                "num_outgoing": lambda recv, a: sum(len(linked[p]) for p in ports[a[0]]),
                "outgoing_links": lambda recv, a: [(p, list(linked[p])) for p in ports[a[0]] if linked[p]],
                "num_in_ports": lambda recv, a: 0,
                "num_incoming": lambda recv, a: 0,
                "port_type": lambda recv, a: kinds[a[0]].attrs.get("ty"),
                "add_node": add_node,
                "add_link": lambda recv, a, links=links: links.append((a[0], a[1])),
            })
            env = {ins.node.args.args[0].arg: hugr, "drop_op": lambda node, e, env: Tok("drop_op", ty=e.ev(node.args[0], env))}
            ev = _ev(idx)
            try:
                out = ev.run_function(ins, env)
                if out[0] == "raise":
                    raise Raised(str(out[1]), str(out[1]))
            except Raised as e:
                bad.append({"ports": len(layout), "problem": f"raises {e.cls or e}"})
                continue
            got = []
            for (dn, op, par) in added:
                tgt = [p for p, q in links if isinstance(q, Tok) and q.name == f"{dn.name}.in0"]
                got.append((tgt[0].name if len(tgt) == 1 else None, op.attrs.get("ty").name if isinstance(op, Tok) and isinstance(op.attrs.get("ty"), Tok) else None,
                            par.name if isinstance(par, Tok) else None))
            want_s = sorted((p.name, t.name, par.name) for p, t, par in want)
            if sorted(got, key=str) != sorted(want_s, key=str) or len(links) != len(added):
                bad.append({"ports": len(layout), "drops_added(port, type, parent)": got, "should_be": want_s})
        ctx.check(not bad, "R-C14.5", key, ins.where, {"layouts": n, "counterexamples": bad[:2]},
                  "whether a dangling port gets a drop is not decided by requires_drop on that port's own type: values that need a drop are left "
                  "dangling, or connected / non-value / linear ports get one")
    except Unsupported as e:
        ctx.undecided("R-C14.5", key, ins.where, str(e))
        decided = False
    return decided
