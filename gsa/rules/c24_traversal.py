"""R-C24.8  the call check descends into the arguments unconditionally.

`_check_classical_args(node.args)` is both the classifier ("is some argument a qubit?") and the traversal that
visits the argument expressions, where further calls may sit (`rot(q, bad(r))`).  If it is evaluated only under a
condition -- as the right operand of `and`/`or`, inside a conditional expression, or in one branch of an `if` -- calls
nested in the arguments of a call that happens to be acceptable are never checked.

Rule: in every function of the unitary checker that calls `_check_classical_args`, some call of it is evaluated on
every normal path and is not short-circuited (it is not a later operand of a BoolOp, not a branch of an IfExp).
"""

from __future__ import annotations

import ast

from ..flow import CFG, node_exprs
from ..report import Ctx

UC = "guppylang_internals.checker.unitary_checker"
NAME = "_check_classical_args"


def _unconditional_calls(e: ast.AST) -> list[ast.Call]:
    """Calls of NAME that are evaluated whenever `e` is evaluated."""
    out: list[ast.Call] = []

    def walk(x: ast.AST, cond: bool) -> None:
        if isinstance(x, ast.Call) and isinstance(x.func, ast.Attribute) and x.func.attr == NAME and not cond:
            out.append(x)
        if isinstance(x, ast.BoolOp):
            walk(x.values[0], cond)
            for v in x.values[1:]:
                walk(v, True)
            return
        if isinstance(x, ast.IfExp):
            walk(x.test, cond)
            walk(x.body, True)
            walk(x.orelse, True)
            return
        if isinstance(x, (ast.ListComp, ast.SetComp, ast.DictComp, ast.GeneratorExp, ast.Lambda)):
            for c in ast.iter_child_nodes(x):
                walk(c, True)
            return
        if isinstance(x, ast.Compare) and len(x.ops) > 1:
            walk(x.left, cond)
            walk(x.comparators[0], cond)
            for c in x.comparators[1:]:
                walk(c, True)
            return
        for c in ast.iter_child_nodes(x):
            walk(c, cond)

    walk(e, False)
    return out


def run(ctx: Ctx, calls_decided: bool = False) -> None:
    global NAME
    idx = ctx.idx
    if not calls_decided:
        _call_shape_rules(ctx)
    _struct_fields(ctx)


def _call_shape_rules(ctx: Ctx) -> None:
    """Fallback for c24_calls: shape of the callers of the argument classifier and of visit_LocalCall."""
    global NAME
    idx = ctx.idx
    n = 0
    # the helper is identified by behaviour: the non-visitor method of the unitary checker that asks contain_qubit_ty
    chk0 = idx.find_class("BBUnitaryChecker", UC)
    cands = [nm for nm, m in chk0.methods.items() if not nm.startswith("visit")
             and any(isinstance(c, ast.Call) and isinstance(c.func, ast.Name) and c.func.id == "contain_qubit_ty" for c in ast.walk(m.node))]
    if cands:
        NAME = cands[0]
    for f in idx.iter_funcs((UC,)):
        if f.name == NAME or not any(isinstance(c, ast.Call) and isinstance(c.func, ast.Attribute) and c.func.attr == NAME for c in ast.walk(f.node)):
            continue
        n += 1
        g = CFG(f.node)
        ok = g.every_path_to_exit_passes(lambda nd: any(_unconditional_calls(e) for e in node_exprs(nd)))
        ctx.check(ok, "R-C24.8", f"{f.qualname}#arguments-always-visited", f.where, {"traversal": NAME},
                  "the arguments of a call are only visited when the call itself needs the qubit test (short-circuited or in one branch): "
                  "a non-unitary call nested in the arguments of an acceptable call is never checked")
    ctx.floor("R-C24.8", f"callers of {NAME}", n, 1)

    # ---- the callee expression of an indirect call is an expression like any other: it must be visited too
    chk = idx.find_class("BBUnitaryChecker", UC)
    lc = chk.methods.get("visit_LocalCall")
    if lc is None:
        ctx.undecided("R-C24.8", f"{chk.qualname}.visit_LocalCall#callee-expression-visited", chk.where, "no visit_LocalCall")
    else:
        p = lc.node.args.args[1].arg
        visits_func = any(isinstance(c, ast.Call) and isinstance(c.func, ast.Attribute) and c.func.attr in ("visit", "generic_visit") and c.args
                          and ast.unparse(c.args[0]) in (f"{p}.func", p) for c in ast.walk(lc.node))
        ctx.check(visits_func, "R-C24.8", f"{lc.qualname}#callee-expression-visited", lc.where, {"visits": f"{p}.func" if visits_func else None},
                  "`make(q)()`: the expression in callee position of an indirect call is never visited, so a non-unitary call that "
                  "produces the callee escapes the check")



def _struct_fields(ctx: Ctx) -> None:
    idx = ctx.idx
    # ---- qubits inside struct FIELDS (structs need not be generic: the type arguments do not show them)
    qf = idx.find_class("QubitFinder", "guppylang_internals.tys.qubit")
    arm = None
    for m in qf.methods.values():
        ann = m.node.args.args[1].annotation if len(m.node.args.args) > 1 else None
        if ann is not None and ast.unparse(ann).split(".")[-1] == "StructType":
            arm = m
    ok = False
    facts: dict = {"arm": arm.qualname if arm else None}
    if arm is not None:
        field_locals = {n_.targets[0].id for n_ in ast.walk(arm.node) if isinstance(n_, ast.Assign) and len(n_.targets) == 1 and isinstance(n_.targets[0], ast.Name)
                        and ".fields" in ast.unparse(n_.value)}
        loops = [n_ for n_ in ast.walk(arm.node) if isinstance(n_, ast.For)
                 and (".fields" in ast.unparse(n_.iter) or any(isinstance(x, ast.Name) and x.id in field_locals for x in ast.walk(n_.iter)))]
        visits = any(isinstance(c, ast.Call) and isinstance(c.func, ast.Attribute) and c.func.attr == "visit" for lp in loops for c in ast.walk(lp))
        early = any(isinstance(x, (ast.Break, ast.Return)) for lp in loops for x in ast.walk(lp))
        rets = [r for r in ast.walk(arm.node) if isinstance(r, ast.Return)]
        prunes = any(not (isinstance(r.value, ast.Constant) and r.value.value is False) for r in rets)
        facts.update({"loops_over_fields": bool(loops), "visits_field_types": visits, "early_exit": early, "may_prune_the_descent_into_args": prunes})
        ok = bool(loops) and visits and not early and not prunes
    ctx.check(ok, "R-C24.8", f"{qf.qualname}#looks-into-struct-fields", qf.where, facts,
              "a qubit inside a struct field is not found: passing such a struct to a non-unitary function in a unitary context is accepted")
    _type_variables(ctx, qf)


def _type_variables(ctx: Ctx, qf) -> None:
    """A value whose type is a type variable that can be instantiated with a qubit-holding type (i.e. a variable that is not
    copyable) must count as possibly quantum: the arm of the finder for `BoundTypeVar` is interpreted on a non-copyable variable and
    has to report a find (raise the finder's flag).  Nothing is demanded for copyable variables (they cannot hold a qubit)."""
    from ..absint.minieval import Unsupported
    from ..absint.pyeval import PyEval, Raised, Tok

    idx = ctx.idx
    key = f"{qf.qualname}#non-copyable-type-variable-may-hold-a-qubit"
    arm = None
    for m in qf.methods.values():
        ann = m.node.args.args[1].annotation if len(m.node.args.args) > 1 else None
        if ann is not None and "BoundTypeVar" in {x.split(".")[-1] for x in ast.unparse(ann).replace(" ", "").split("|")}:
            arm = m
    if arm is None:
        ctx.violation("R-C24.8", key, qf.where, {"arm_for_BoundTypeVar": None, "default_arm": "continue the descent (a variable has no children): not a qubit"},
                      "an argument typed by a non-copyable type variable counts as classical: `g(x)` with `x: T` and g without flags is accepted in a "
                      "control/dagger/power function, and instantiating T with qubit runs a non-unitary operation inside it")
        return
    ps = [a.arg for a in arm.node.args.args]
    found = Tok("FoundFlag", __exception__="FoundFlag", __ident__=1)
    me = Tok("finder", FoundFlag=found, __classes__=qf.mro(), __ident__=1)
    var = Tok("T", __class__="BoundTypeVar", copyable=False, droppable=False, __ident__=1)
    try:
        out = PyEval(idx, qf.module.name, max_depth=4).run(arm.node.body, {ps[0]: me, ps[1]: var})
        raised = out[0] == "raise"
    except Raised:
        raised = True
    except Unsupported as e:
        ctx.undecided("R-C24.8", key, arm.where, str(e))
        return
    ctx.check(raised, "R-C24.8", key, arm.where, {"non_copyable_variable_reported": raised},
              "an argument typed by a non-copyable type variable counts as classical: `g(x)` with `x: T` and g without flags is accepted in a "
              "control/dagger/power function, and instantiating T with qubit runs a non-unitary operation inside it")
