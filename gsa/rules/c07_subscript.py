"""R-C07.4 (semantic form)  the index of `a[i]` is compiled once and re-used for the write-back -- by interpretation.

`ExprCompiler.visit_PlaceNode` (a read of `xs[i]` / `xs[i].y`) and `StmtCompiler._assign_place` (a store to it) are interpreted
from their syntax trees.  The place contains a subscript `xs[i]` whose index is kept in the data-flow container under the
temporary place `subscript.item`; the container is a model map (membership, lookup, store, every store logged), the expression
compiler a recorder.  Cases: the index temporary is already bound (the read that precedes a write-back has compiled it) or not
x the place is the subscript itself or a field below it x (for the store) -- 4 + 4 cases.

Decided: the index expression is compiled iff the temporary is not bound yet, and then exactly once and bound to the
temporary; a temporary that is bound keeps its wire (the write-back goes to the slot that was read).  For the store
additionally: the element is fetched (getitem) iff the place lies below the subscript, the new value is stored under the
place, the setitem call is compiled last and its value variable is bound to the container's wire for `xs[i]` at that moment.
"""

from __future__ import annotations

import itertools

from ..absint.minieval import Unsupported
from ..absint.pyeval import PyEval, Raised, Tok
from ..report import Ctx

EC = "guppylang_internals.compiler.expr_compiler"
SC = "guppylang_internals.compiler.stmt_compiler"


class Dfg:
    def __init__(self, bound: dict):
        self.map = dict(bound)
        self.log: list = []
        self.tok = Tok("dfg", __getitem__=self.get, __contains__=lambda k: k.name in self.map, __ident__=1)
        self.tok.attrs["__methods__"] = {"__setitem__": self.set}

    def get(self, k):
        if k.name not in self.map:
            raise Raised(f"no wire for {k.name}", "InternalGuppyError")
        return self.map[k.name]

    def set(self, r, a):
        self.map[a[0].name] = a[1]
        self.log.append(("store", a[0].name, a[1].name if isinstance(a[1], Tok) else a[1]))


def run(ctx: Ctx) -> bool:
    idx = ctx.idx
    decided = True
    for cls_name, meth, hint in (("ExprCompiler", "visit_PlaceNode", EC), ("StmtCompiler", "_assign_place", SC)):
        f = idx.method(cls_name, meth, hint)
        key = f"{f.qualname}#index-compiled-once"
        ps = [a.arg for a in f.node.args.args]
        bad = []
        n = 0
        try:
            for bound, nested in itertools.product((False, True), repeat=2):
                n += 1
                item = Tok("idx_tmp", id="idx_tmp", __ident__=1)
                item_expr = Tok("item_expr", __ident__=1)
                getitem = Tok("getitem_call", __ident__=1)
                value_var = Tok("setitem_value_var", id="setitem_value_var", __ident__=1)
                setitem = Tok("setitem", call=Tok("setitem_call", __ident__=1), value_var=value_var, __ident__=1)
                sub = Tok("xs[i]", id="xs[i]", item=item, item_expr=item_expr, getitem_call=getitem, setitem_call=setitem, __ident__=1)
                place = Tok("xs[i].y", id="xs[i].y", parent=sub, __ident__=1) if nested else sub
                d = Dfg({"idx_tmp": Tok("earlier_index_wire", __ident__=1)} if bound else {})
                compiled: list = []

                def compile_(r, a, d=d, compiled=compiled):
                    compiled.append(a[0].name)
                    d.log.append(("compile", a[0].name))
                    if a[0].name == "setitem_call":
                        d.log.append(("setitem sees", d.map.get("setitem_value_var").name if isinstance(d.map.get("setitem_value_var"), Tok) else None))
                    return Tok(f"wire({a[0].name})", __ident__=1)

                expr_compiler = Tok("expr_compiler", __methods__={"compile": compile_, "visit": compile_}, __ident__=1)
                me = Tok("compiler", dfg=d.tok, expr_compiler=expr_compiler, __classes__=f.cls.mro(), __ident__=1)
                me.attrs["__methods__"] = {"visit": compile_}
                node = Tok("place_node", place=place, __ident__=1)
                env = {ps[0]: me, ps[1]: node, "contains_subscript": lambda nd, e, env, sub=sub: sub}
                port = Tok("new_value_wire", __ident__=1)
                if meth == "_assign_place":
                    env[ps[2]] = port
                else:
                    # a read ends with the lookup of the place: the element fetched by getitem is what is bound under xs[i]
                    d.map["xs[i].y"] = Tok("field_wire", __ident__=1)
                ev = PyEval(idx, f.module.name, max_depth=6)
                case = {"index_temporary_already_bound": bound, "place": place.name}
                try:
                    out = ev.run(f.node.body, env)
                    if out[0] == "raise":
                        raise Raised(str(out[1]), str(out[1]))
                except Raised as e:
                    bad.append({**case, "problem": f"raises {e.cls or e}"})
                    continue
                problems = []
                if compiled.count("item_expr") != (0 if bound else 1):
                    problems.append(f"the index expression is compiled {compiled.count('item_expr')} time(s)")
                want_idx = "earlier_index_wire" if bound else "wire(item_expr)"
                got_idx = d.map.get("idx_tmp")
                if not isinstance(got_idx, Tok) or got_idx.name != want_idx:
                    problems.append(f"the index temporary ends up bound to {got_idx!r}, should be <{want_idx}>")
                if meth == "visit_PlaceNode":
                    if compiled.count("getitem_call") != 1 or ("store", "xs[i]", "wire(getitem_call)") not in d.log:
                        problems.append("the element is not fetched and bound under xs[i]")
                    elif "item_expr" in compiled and compiled.index("item_expr") > compiled.index("getitem_call"):
                        problems.append("the element is fetched before the index is compiled")
                else:
                    if compiled.count("getitem_call") != (1 if nested else 0):
                        problems.append(f"getitem compiled {compiled.count('getitem_call')} time(s) for a store to {place.name}")
                    if ("store", place.name, "new_value_wire") not in d.log:
                        problems.append("the new value is not stored under the place")
                    if not compiled or compiled[-1] != "setitem_call":
                        problems.append("the setitem call is not compiled last")
                    else:
                        sees = [x[1] for x in d.log if x[0] == "setitem sees"]
                        want_val = "new_value_wire" if not nested else "wire(getitem_call)"
                        # (model container: a store to xs[i].y does not rebuild xs[i]; the value handed to setitem is the container's
                        #  wire for xs[i] at the time of the call)
                        if sees != [want_val]:
                            problems.append(f"setitem gets {sees}, should get the container's wire for xs[i] (<{want_val}>)")
                        order = [x for x in d.log if x[0] == "store" and x[1] == place.name or x == ("compile", "setitem_call") or (x[0] == "store" and x[1] == "setitem_value_var")]
                        if [x[1] if x[0] == "store" else x[1] for x in order] != [place.name, "setitem_value_var", "setitem_call"]:
                            problems.append("the value variable of setitem is bound before the new value is stored (or after the call)")
                if problems:
                    bad.append({**case, "problems": problems[:3]})
        except Unsupported as e:
            ctx.undecided("R-C07.4", key, f.where, str(e))
            decided = False
            continue
        ctx.check(not bad, "R-C07.4", key, f.where, {"cases": n, "counterexamples": bad[:3], "n_counterexamples": len(bad)},
                  "the index expression of `a[i]` is compiled again for the write-back: with a side-effecting or changing index the element is "
                  "put back into a different slot than it was taken from")
    return decided
