"""R-C06.5  `leaf_places` enumerates exactly the leaves of a place.

Uses, assignments and leak checks of the linearity checker are all done leaf by leaf
(`for place in leaf_places(p)`).  A leaf that is skipped is never checked: a qubit inside a
struct or tuple could then be used twice or dropped silently.  The generator is interpreted from
its syntax tree (yields collected) on struct/tuple shapes nested up to depth 2, 1-3 children each.

Decided: the yielded places are exactly the non-aggregate descendants of the place, each once
(as a set; the order is irrelevant to the checker).
"""

from __future__ import annotations

import itertools

from ..absint.minieval import Unsupported
from ..absint.pyeval import PyEval, Raised, Tok
from ..report import Ctx

LC = "guppylang_internals.checker.linearity_checker"


def _ty(shape) -> Tok:
    """shape: 'L' leaf | ('S', [shapes]) struct | ('T', [shapes]) tuple"""
    if shape == "L":
        return Tok("leafty", __class__="OpaqueType", __ident__=1)
    kind, kids = shape
    if kind == "S":
        return Tok("structty", __class__="StructType", fields=[Tok(f"f{i}", name=f"f{i}", ty=_ty(k)) for i, k in enumerate(kids)], __ident__=1)
    return Tok("tuplety", __class__="TupleType", element_types=[_ty(k) for k in kids], __ident__=1)


def _leaves(shape, path="p"):
    if shape == "L":
        return [path]
    kind, kids = shape
    out = []
    for i, k in enumerate(kids):
        out += _leaves(k, f"{path}.f{i}" if kind == "S" else f"{path}.{i}")
    return out


def run(ctx: Ctx) -> None:
    idx = ctx.idx
    f = idx.find_func("leaf_places", LC)
    ctx.saw("functions", f.qualname)
    key = f"{f.qualname}#all-leaves-once"
    base = ["L", ("S", ["L"]), ("T", ["L", "L"]), ("S", ["L", "L", "L"])]
    shapes = list(base)
    for kind in ("S", "T"):
        for kids in itertools.product(base, repeat=2):
            shapes.append((kind, list(kids)))
        shapes.append((kind, [base[1], "L", base[2]]))
    bad = []
    n = 0
    for shape in shapes:
        n += 1

        def mk(kind):
            def h(node, ev, env):
                vals = [ev.ev(a, env) for a in node.args]
                parent = vals[0]
                if kind == "F":
                    fld = vals[1]
                    return Tok(f"{parent.name}.{fld.attrs['name']}", ty=fld.attrs["ty"], defined_at=None, __class__="FieldAccess", __ident__=1)
                return Tok(f"{parent.name}.{vals[2]}", ty=vals[1], defined_at=None, __class__="TupleAccess", __ident__=1)
            return h

        env = {f.node.args.args[0].arg: Tok("p", ty=_ty(shape), defined_at=None, __class__="Variable", __ident__=1), "FieldAccess": mk("F"), "TupleAccess": mk("T")}
        ev = PyEval(idx, LC)
        try:
            ev.run(f.node.body, env)
        except Unsupported as e:
            ctx.undecided("R-C06.5", key, f.where, str(e))
            return
        except Raised as e:
            bad.append({"shape": repr(shape), "problem": f"raises {e}"})
            continue
        got = sorted(t.name for t in env.get("__yields__", []))
        want = sorted(_leaves(shape))
        if got != want:
            bad.append({"shape": repr(shape), "yielded": got, "leaves": want})
    ctx.check(not bad, "R-C06.5", key, f.where, {"cases": n, "counterexamples": bad[:3]},
              "some leaf of a struct/tuple place is not visited (or visited twice) by the linearity checker: a linear field can be used twice or dropped unnoticed")
