"""R-C08.7 (assignment expressions)  a read that Python evaluates BEFORE `(x := e)` in the same statement must not see the new binding.

`ExprBuilder` is interpreted (driver `self.visit(node)`, AST constructors symbolic, basic blocks recorders -- the machinery of the
C05 desugaring rules) on the expression  `(x, (x := e))`:  a load of `x` followed by an assignment expression to `x`.
Python evaluates the load first, so on a path where nothing else assigns `x` the load is a use without definition (and if `x` is
defined it yields the OLD value).  In the built form the load has to come before the assignment statement that the builder emits:
either the assignment is not moved in front of the remaining expression, or the load is bound to a temporary before it.
Decided: the position of the original load token relative to the emitted `x = e` statement.
"""

from __future__ import annotations

import ast

from ..absint.minieval import Unsupported
from ..absint.pyeval import Raised, Tok
from ..report import Ctx
from .C05 import Recorder, interpret_branch, mk_ast

B = "guppylang_internals.cfg.builder"


class _Drive:  # a two-line driver `return self.visit(node)` run as if it were a method of ExprBuilder
    node = ast.parse("def _drive(self, node):\n    return self.visit(node)").body[0]


def _contains(node, tok) -> bool:
    if node is tok:
        return True
    if isinstance(node, Tok):
        return any(_contains(v, tok) for k, v in node.attrs.items() if not k.startswith("__"))
    if isinstance(node, (list, tuple)):
        return any(_contains(v, tok) for v in node)
    return False


def run(ctx: Ctx) -> bool:
    idx = ctx.idx
    bb_cls = idx.find_class("BranchBuilder", B)
    eb_cls = idx.find_class("ExprBuilder", B)
    vn = eb_cls.methods.get("visit_NamedExpr")
    key = f"{eb_cls.qualname}.visit_NamedExpr#earlier-read-of-the-target-in-the-same-statement"
    if vn is None:
        ctx.undecided("R-C08.7", key, eb_cls.where, "no visitor for assignment expressions")
        return False
    read = mk_ast("Name", "read_of_x", id="x", ctx="Load", __ident__=True, _fields=())
    value = mk_ast("Operand", "e", __ident__=True, _fields=())
    walrus = mk_ast("NamedExpr", "walrus", target=mk_ast("Name", "target_x", id="x", ctx="Store", __ident__=True, _fields=()), value=value, _fields=("target", "value"))
    node = mk_ast("Tuple", "tuple", elts=[read, walrus], _fields=("elts",))
    rec = Recorder()
    try:
        interpret_branch(idx, rec, node, bb_cls, eb_cls, value_visitor=_Drive)
        res = rec.result[0] if isinstance(rec.result, tuple) else rec.result
        # statements emitted into blocks while building, in order: where does the binding of x happen, where is the load?
        emitted = [st for b in rec.blocks.values() for st in b.attrs["statements"]]
        assign_at = next((i for i, st in enumerate(emitted) if _contains(st, value)), None)
        read_at = next((i for i, st in enumerate(emitted) if _contains(st, read)), None)
        stays_behind = _contains(res, read)  # the load is still part of the expression that is placed AFTER everything emitted
    except (Unsupported, Raised, KeyError, IndexError, AttributeError, TypeError) as e:
        ctx.undecided("R-C08.7", key, vn.where, f"{type(e).__name__}: {e}")
        return False
    bad = assign_at is not None and (read_at is None or read_at > assign_at) and stays_behind
    ctx.check(not bad, "R-C08.7", key, vn.where,
              {"expression": "(x, (x := e))", "binding_of_x_emitted_before_the_rest_of_the_expression": assign_at is not None,
               "load_of_x_evaluated": "after the binding (it stays in the enclosing expression)" if bad else "before the binding"},
              "`y = x + (x := 1)` is accepted although the read of `x` is reached without an assignment (Python raises UnboundLocalError): the "
              "assignment expression is turned into a statement in front of the whole enclosing statement, so the earlier read sees the new value")
    return True
