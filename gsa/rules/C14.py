"""C14 copy/drop classification is structural and matches HUGR bounds.

R-C14.1  sibling isomorphism: every copyable/droppable pair (properties, the two guards of
         TypeParam.check_arg and check_inst) is the same code up to renaming
         copyable<->droppable (catches `droppable` defined through `.copyable`).
R-C14.2  structural rule, interpreted on all small cases: a parametrised type is copyable
         iff intrinsically copyable and every type argument is; a struct is intrinsically
         copyable iff every *instantiated* field type is; tuples always; opaque types iff
         not never_copyable.  Same for droppable.
R-C14.3  HUGR bound: `hugr_bound` is Copyable iff copyable (4-row truth table); type
         parameters are Copyable iff must_be_copyable; constant classes agree.
R-C14.4  intrinsic table: array never copyable but droppable; qubit neither; bool, str,
         list, Option, frozenarray, SizedIter both; custom_type passes (not copyable, not
         droppable) into the never_* slots.
R-C14.5  drops: affine builtins are listed in AFFINE_EXTENSION_TYS; requires_drop is interpreted on 148 HUGR type terms
         (nesting depth 2: affine/plain extension and opaque types, sums, tuples, type variables by bound, function types)
         against the recursive reference; insert_drops is interpreted on model HUGRs: a drop of the port's own type, under the
         node's parent, iff the port is a dangling value port whose type needs one (c14_drops.py; match-arm shapes only as
         fallback); insert_drops is called by CompilerContext.compile on every path.
R-C14.7  struct types: `copyable`, `hugr_bound` and the bound of the lowered tuple agree when type argument and
         field vary independently (c14_struct.py, below).
R-C14.6  no cache keyed by the *printed* form of a type (printing is not injective: type
         variables print without their bound).
"""

from __future__ import annotations

import ast
import copy
import itertools

from ..absint.minieval import Opaque, Unsupported
from ..absint.pyeval import PyEval, Raised, Tok
from ..flow import CFG, calls_any
from ..index import AnalysisError, ClassInfo, FuncInfo, body_without_docstring, call_name, calls_in, dotted, walk_no_nested
from ..report import Ctx

LEVEL = "other"  # the exhaustive truth tables of R-C14.3 are a finite-domain proof of ONE clause; the property as a whole has a known finding (R-C14.7)
PROOF_RULES = ("R-C14.3",)
EXPLANATION = (
    "Finite-domain decisions: the bound/copyable relation is a 4-row truth table evaluated on the expression trees of "
    "TypeBase.linear/affine/hugr_bound (exhaustive: proof for that clause); the structural copy/drop rule is interpreted on "
    "all argument/field lists up to length 2 over {copyable, non-copyable, const} entries; plus sibling alpha-equivalence, "
    "table agreement of the builtin type definitions and shape rules for drop insertion."
)

TY = "guppylang_internals.tys.ty"
RENAME = [("never_droppable", "never_copyable"), ("must_be_droppable", "must_be_copyable"), ("intrinsically_droppable", "intrinsically_copyable"),
          ("droppable", "copyable")]


def _swap(v: str) -> str:
    """copyable <-> droppable (simultaneously), in identifiers and message texts"""
    pairs = [("copyable", "droppable"), ("Copyable", "Droppable"), ("copied", "dropped"), ("Copy", "Drop"), ("copy", "drop")]
    for i, (x, y) in enumerate(pairs):
        v = v.replace(x, f"\0{i}a").replace(y, f"\0{i}b")
    for i, (x, y) in enumerate(pairs):
        v = v.replace(f"\0{i}a", y).replace(f"\0{i}b", x)
    return v


def _norm(node: ast.AST, swap: bool = False) -> str:
    """Dump of a statement; with swap=True the roles copyable/droppable are exchanged first.  Siblings are compared as
    _norm(copy side, swap=True) == _norm(drop side): a drop-side rule that reads `.copyable` does not match."""
    n = copy.deepcopy(node)
    for x in ast.walk(n):
        for fld in ("id", "attr", "arg", "name"):
            v = getattr(x, fld, None)
            if isinstance(v, str) and swap:
                setattr(x, fld, _swap(v))
        if isinstance(x, ast.Constant) and isinstance(x.value, str):
            x.value = _swap(x.value) if swap else x.value
    return ast.dump(n, annotate_fields=False, include_attributes=False)


def _siblings_agree(idx, c, f, sib):
    """Evaluate the copy-side method on T and the drop-side method on swap(T) for a small domain of receivers T
    (intrinsic flags, <= 2 arguments / fields with independent copy/drop flags, definition flags): equal results everywhere?"""
    flags = list(itertools.product((False, True), repeat=2))

    def mk(ic, idr, parts, nc, nd, swap):
        def fl(cp, dr):
            return (dr, cp) if swap else (cp, dr)
        tys = [Tok(f"ty{i}", copyable=fl(cp, dr)[0], droppable=fl(cp, dr)[1]) for i, (cp, dr) in enumerate(parts)]
        args = [Tok(f"arg{i}", __class__="TypeArg", ty=t) for i, t in enumerate(tys)] + [Tok("constarg", __class__="ConstArg")]
        fields = [Tok(f"fld{i}", name=f"f{i}", ty=t) for i, t in enumerate(tys)]
        a, b = fl(ic, idr)
        n1, n2 = fl(nc, nd)
        return Tok("self", intrinsically_copyable=a, intrinsically_droppable=b, args=args, fields=fields, element_types=tys,
                   defn=Tok("defn", never_copyable=n1, never_droppable=n2, fields=fields), must_be_copyable=a, must_be_droppable=b)

    n = 0
    bad = []
    try:
        for ic, idr in flags:
            for k in (0, 1, 2):
                for parts in itertools.product(flags, repeat=k):
                    for nc, nd in flags:
                        n += 1
                        ev1, ev2 = PyEval(idx, c.module.name), PyEval(idx, c.module.name)
                        r1 = ev1.run(f.node.body, {f.node.args.args[0].arg: mk(ic, idr, parts, nc, nd, False)})
                        r2 = ev2.run(sib.node.body, {sib.node.args.args[0].arg: mk(ic, idr, parts, nc, nd, True)})
                        if isinstance(r1[1], Opaque) or isinstance(r2[1], Opaque):
                            return None, {"why": f"opaque result {r1[1]!r} / {r2[1]!r}"}
                        if r1 != r2:
                            bad.append({"intrinsic": [ic, idr], "parts": list(parts), "never": [nc, nd], "copy_side": repr(r1), "drop_side_on_swapped_input": repr(r2)})
    except (Unsupported, Raised) as e:
        return None, {"why": str(e)}
    return not bad, {"cases": n, "counterexamples": bad[:3]}


def run(ctx: Ctx) -> None:
    idx = ctx.idx
    mods = (TY, "guppylang_internals.tys.param", "guppylang_internals.definition.ty", "guppylang_internals.definition.struct")

    # ------------------------------------------------------------ R-C14.1
    n_pairs = 0
    for c in idx.classes.values():
        if c.module.name not in mods:
            continue
        for name, f in sorted(c.methods.items()):
            if "copyable" not in name:
                continue
            sib = c.methods.get(name.replace("copyable", "droppable"))
            if sib is None:
                continue
            n_pairs += 1
            ctx.saw("functions", f.qualname)
            a = [_norm(s, swap=True) for s in body_without_docstring(f.node)]
            b = [_norm(s) for s in body_without_docstring(sib.node)]
            da = sorted(d for d in f.decorator_names())
            db = sorted(d for d in sib.decorator_names())
            if a == b and da == db:
                ctx.ok("R-C14.1", f"{c.qualname}.{name}~{sib.name}", f.where, {"identical_up_to_role_swap": True})
                continue
            # spelled differently: compare the two siblings by evaluation on role-swapped inputs
            verdict, facts = _siblings_agree(idx, c, f, sib)
            facts.update({"copy_side": ast.unparse(f.node.body[-1])[:100], "drop_side": ast.unparse(sib.node.body[-1])[:100], "same_decorators": da == db})
            if verdict is None:
                ctx.undecided("R-C14.1", f"{c.qualname}.{name}~{sib.name}", f.where, f"siblings are spelled differently and cannot be evaluated: {facts.get('why')}")
            else:
                ctx.check(verdict and da == db, "R-C14.1", f"{c.qualname}.{name}~{sib.name}", f.where, facts,
                          "the droppable rule is not the copyable rule with the roles renamed (copy-paste slip between the two siblings)")
        # dataclass fields come in pairs too
        flds = [n for n, _ in c.own_fields()]
        for n in flds:
            if "copyable" in n:
                ctx.check(n.replace("copyable", "droppable") in flds, "R-C14.1", f"{c.qualname}#{n}-has-drop-sibling", c.where, {"fields": flds},
                          "a copyable flag without its droppable sibling")
    ctx.floor("R-C14.1", "copyable/droppable method pairs", n_pairs, 6)
    # adjacent guards:  if P.must_be_copyable and not T.copyable: raise ...   /  ... droppable ...
    n_guards = 0
    for f in idx.iter_funcs(("guppylang_internals.tys.param", "guppylang_internals.checker.expr_checker", "guppylang_internals.tys.parsing", "guppylang_internals.checker")):
        for n in walk_no_nested(f.node):
            body = getattr(n, "body", None)
            if not isinstance(body, list):
                continue
            for s1, s2 in zip(body, body[1:]):
                if isinstance(s1, ast.If) and isinstance(s2, ast.If) and "must_be_copyable" in ast.unparse(s1.test) and "must_be_droppable" in ast.unparse(s2.test):
                    n_guards += 1
                    ctx.check(_norm(s1, swap=True) == _norm(s2), "R-C14.1", f"{f.qualname}#copy-guard~drop-guard[{n_guards}]", f"{f.module.rel}:{s1.lineno}",
                              {"copy_guard": ast.unparse(s1.test), "drop_guard": ast.unparse(s2.test)},
                              "the droppable bound of a type parameter is checked differently from the copyable bound")
    # the two known sites (check_inst's fast path, TypeParam.check_arg) are also decided by interpretation on all four capability
    # classes x all four bounds (c12_inst.py): a copy/drop slip in either shows there even when the guards are not adjacent `if`s
    from . import c12_inst
    sub = Ctx("C12", idx, ctx.tier, ctx.seed)
    if c12_inst.run(sub):
        o = sub.obligations[-1]
        ctx.check(o.status == "ok", "R-C14.1", "type-parameter-bounds#copy~drop(check_inst + TypeParam.check_arg, interpreted)", o.where, o.facts,
                  "the droppable bound of a type parameter is checked differently from the copyable bound")
    else:
        ctx.floor("R-C14.1", "adjacent copy/drop guards", n_guards, 2)

    # ------------------------------------------------------------ R-C14.2 structural rule
    ptb = idx.find_class("ParametrizedTypeBase", TY)
    st = idx.find_class("StructType", TY)
    tup = idx.find_class("TupleType", TY)
    opq = idx.find_class("OpaqueType", TY)
    ev = PyEval(idx, TY)

    def arg_tok(kind: str, which: str) -> Tok:
        if kind == "const":
            return Tok("const_arg", __class__="ConstArg")
        other = "droppable" if which == "copyable" else "copyable"
        # the other flag gets the opposite value: a rule that reads the wrong flag computes the wrong answer
        return Tok("type_arg", __class__="TypeArg", ty=Tok("argty", **{which: kind == "yes", other: kind != "yes"}))

    for which in ("copyable", "droppable"):
        prop = ptb.methods.get(which)
        if prop is None:
            raise AnalysisError(f"ParametrizedTypeBase.{which} vanished")
        bad = []
        und = None
        n = 0
        for intrinsic in (False, True):
            for length in (0, 1, 2):
                for kinds in itertools.product(("yes", "no", "const"), repeat=length):
                    # (the receiver knows its class: helper methods / properties of the class are interpreted too)
                    self_tok = Tok("self", args=[arg_tok(k, which) for k in kinds], __classes__=ptb.mro(), **{f"intrinsically_{which}": intrinsic})
                    n += 1
                    try:
                        out = ev.run(prop.node.body, {prop.node.args.args[0].arg: self_tok})
                    except (Unsupported, Raised) as e:
                        und = str(e)
                        break
                    want = intrinsic and all(k != "no" for k in kinds)
                    if out[0] != "return" or out[1] is not want:
                        bad.append({"intrinsic": intrinsic, "args": kinds, "got": out[1] if out[0] == "return" else out[0], "want": want})
        key = f"{prop.qualname}#structural-rule"
        if und:
            ctx.undecided("R-C14.2", key, prop.where, und)
        else:
            ctx.check(not bad, "R-C14.2", key, prop.where, {"cases": n, "counterexamples": bad[:4]},
                      f"a parametrised type is {which} although a type argument is not (or vice versa)")
        # struct: every instantiated field
        sp = st.methods.get(f"intrinsically_{which}")
        if sp is None:
            raise AnalysisError(f"StructType.intrinsically_{which} vanished")
        bad = []
        und = None
        n = 0
        hooks = {"StructField": lambda node, e, env: Tok("field", name=e.ev(node.args[0], env), ty=e.ev(node.args[1], env)),
                 "Instantiator": lambda node, e, env: Tok("inst")}
        for length in (0, 1, 2):
            for combo in itertools.product(itertools.product((False, True), repeat=3), repeat=length):
                # per field: (generic?, declared type has the property, instantiated type has the property)
                fields = []
                for i, (generic, declared, inst) in enumerate(combo):
                    if not generic:
                        inst = declared  # a non-generic field is unchanged by instantiation
                    inst_ty = Tok(f"inst{i}", bound_vars=set(), unsolved_vars=set(), **{which: inst})
                    decl_ty = Tok(f"decl{i}", bound_vars={"T"} if generic else set(), unsolved_vars=set(), **{which: declared},
                                  __methods__={"transform": (lambda r, a, t=inst_ty: t), "substitute": (lambda r, a, t=inst_ty: t)})
                    fields.append((Tok(f"f{i}", name=f"f{i}", ty=decl_ty), inst))
                self_tok = Tok("struct", args=[], defn=Tok("defn", fields=[f for f, _ in fields]), __classes__=[st, ptb])
                n += 1
                try:
                    out = ev.run(sp.node.body, {**hooks, sp.node.args.args[0].arg: self_tok})
                except (Unsupported, Raised) as e:
                    und = str(e)
                    break
                want = all(inst for _, inst in fields)
                if out[0] != "return" or out[1] is not want:
                    bad.append({"fields(generic,declared,instantiated)": [list(map(bool, c)) for c in combo], "got": out[1] if out[0] == "return" else out[0], "want": want})
            if und:
                break
        key = f"{sp.qualname}#all-instantiated-fields"
        if und:
            ctx.undecided("R-C14.2", key, sp.where, und)
        else:
            ctx.check(not bad, "R-C14.2", key, sp.where, {"cases": n, "counterexamples": bad[:4]},
                      f"a struct is classified {which} although one of its (instantiated) field types is not")
        # tuple: always; opaque: not never_*
        tp = tup.methods.get(f"intrinsically_{which}")
        rets = [r.value for r in walk_no_nested(tp.node) if isinstance(r, ast.Return)] if tp else []
        ctx.check(len(rets) == 1 and isinstance(rets[0], ast.Constant) and rets[0].value is True, "R-C14.2", f"{tup.qualname}.intrinsically_{which}", tp.where if tp else tup.where,
                  {"returns": [ast.unparse(r) for r in rets if r is not None]}, f"tuples must be {which} iff all elements are (no intrinsic restriction)")
        op = opq.methods.get(f"intrinsically_{which}")
        bad = []
        for never in (False, True):
            try:
                out = ev.run(op.node.body, {op.node.args.args[0].arg: Tok("opaque", defn=Tok("defn", **{f"never_{which}": never}))})
                if out[0] != "return" or out[1] is not (not never):
                    bad.append({f"never_{which}": never, "got": out[1] if out[0] == "return" else out[0]})
            except (Unsupported, Raised) as e:
                bad.append({"unsupported": str(e)})
        ctx.check(not bad, "R-C14.2", f"{opq.qualname}.intrinsically_{which}", op.where, {"counterexamples": bad},
                  f"an opaque type's intrinsic {which} flag is not the negation of its definition's never_{which}")

    # ------------------------------------------------------------ R-C14.3 bound <=> copyable
    tb = idx.find_class("TypeBase", TY)
    hb = tb.methods.get("hugr_bound")
    if hb is None:
        raise AnalysisError("TypeBase.hugr_bound vanished")
    for c, d in itertools.product((False, True), repeat=2):
        self_tok = Tok("ty", copyable=c, droppable=d, __classes__=[tb])
        key = f"{hb.qualname}#copyable={c},droppable={d}"
        try:
            out = ev.run(hb.node.body, {hb.node.args.args[0].arg: self_tok})
        except (Unsupported, Raised) as e:
            ctx.undecided("R-C14.3", key, hb.where, str(e))
            continue
        got = out[1].what.split(".")[-1] if out[0] == "return" and isinstance(out[1], Opaque) else repr(out)
        ctx.check(got == ("Copyable" if c else "Linear"), "R-C14.3", key, hb.where, {"hugr_bound": got},
                  "the HUGR bound of a type is Copyable although the Guppy type is not copyable (or Linear although it is)")
    tpar = idx.find_class("TypeParam", "guppylang_internals.tys.param")
    th = tpar.methods.get("to_hugr")
    for must, mdrop in itertools.product((False, True), repeat=2):
        # all four requirement combinations (a `Drop`-only parameter is affine: still not Copyable in HUGR)
        key = f"{th.qualname}#must_be_copyable={must},must_be_droppable={mdrop}"
        try:
            seen = []
            out = ev.run(th.node.body, {"self": Tok("param", must_be_copyable=must, must_be_droppable=mdrop, __classes__=[tpar]),
                                        "ht.TypeTypeParam": lambda node, e, env, seen=seen: seen.append(e.ev(node.keywords[0].value if node.keywords else node.args[0], env)) or Tok("tp")})
            got = seen[0].what.split(".")[-1] if seen and isinstance(seen[0], Opaque) else repr(seen)
            ctx.check(got == ("Copyable" if must else "Linear"), "R-C14.3", key, th.where, {"bound": got},
                      "a type parameter's HUGR bound does not follow its copyable requirement (the declared parameter bound and the bound "
                      "of the variable's uses disagree)")
        except (Unsupported, Raised) as e:
            ctx.undecided("R-C14.3", key, th.where, str(e))
    # constant classes: copyable True with bound Copyable
    for cname in ("NoneType", "NumericType", "FunctionType"):
        c = idx.find_class(cname, TY)
        facts = {}
        ok = True
        for which in ("copyable", "droppable"):
            m = c.methods.get(which)
            if m is not None:
                rets = [r.value for r in walk_no_nested(m.node) if isinstance(r, ast.Return)]
                v = len(rets) == 1 and isinstance(rets[0], ast.Constant) and rets[0].value is True
            else:
                fl = [s for n, s in c.own_fields() if n == which]
                v = bool(fl) and "default=True" in ast.unparse(fl[0].value or ast.Constant(value=None))
            facts[which] = v
            ok = ok and v
        hbm = c.methods.get("hugr_bound")
        if hbm is not None:
            rets = [ast.unparse(r.value) for r in walk_no_nested(hbm.node) if isinstance(r, ast.Return)]
            facts["hugr_bound"] = rets
            ok = ok and all(r.endswith("Copyable") for r in rets)
        else:
            fl = [s for n, s in c.own_fields() if n == "hugr_bound"]
            facts["hugr_bound"] = ast.unparse(fl[0].value) if fl and fl[0].value is not None else "inherited (TypeBase rule)"
            ok = ok and (not fl or "Copyable" in facts["hugr_bound"])
        ctx.check(ok, "R-C14.3", f"{c.qualname}#constant-classification", c.where, facts,
                  f"{cname} must be copyable and droppable with a Copyable HUGR bound")

    # ------------------------------------------------------------ R-C14.4 intrinsic table
    bi = idx.module("guppylang_internals.tys.builtin")
    want_tbl = {"array": (True, False), "bool": (False, False), "str": (False, False), "list": (False, False), "Option": (False, False),
                "frozenarray": (False, False), "SizedIter": (False, False)}
    found = {}
    for stmt in bi.tree.body:
        if isinstance(stmt, ast.Assign) and isinstance(stmt.value, ast.Call):
            kws = {k.arg: k.value for k in stmt.value.keywords}
            if "never_copyable" in kws and "name" in kws and isinstance(kws["name"], ast.Constant):
                found[kws["name"].value] = tuple(k.value if isinstance(k, ast.Constant) else None for k in (kws["never_copyable"], kws["never_droppable"]))
    for nm, want in want_tbl.items():
        ctx.check(found.get(nm) == want, "R-C14.4", f"{bi.name}#{nm}", bi.rel, {"never_copyable,never_droppable": found.get(nm), "want": want},
                  f"builtin `{nm}` has the wrong intrinsic copy/drop flags (arrays are never copyable but droppable; the others are both)")
    ct = idx.find_func("custom_type", "guppylang_internals.decorator")
    otd = idx.find_class("OpaqueTypeDef", "guppylang_internals.definition.ty")
    order = [n for n, st_, _ in otd.all_fields()
             if not (st_.value is not None and isinstance(st_.value, ast.Call) and any(k.arg == "init" and isinstance(k.value, ast.Constant) and k.value.value is False
                                                                                      for k in st_.value.keywords))]
    calls = [c for c in calls_in(ct.node, nested=True) if call_name(c) == "OpaqueTypeDef"]
    ok = False
    facts = {"field_order": order}
    for c in calls:
        argmap = {order[i]: a for i, a in enumerate(c.args) if i < len(order)}
        argmap.update({k.arg: k.value for k in c.keywords if k.arg})
        nc, nd = argmap.get("never_copyable"), argmap.get("never_droppable")
        facts.update({"never_copyable": ast.unparse(nc) if nc is not None else None, "never_droppable": ast.unparse(nd) if nd is not None else None})
        ok = nc is not None and nd is not None and ast.unparse(nc) == "not copyable" and ast.unparse(nd) == "not droppable"
    defaults = {a.arg: ast.unparse(d) for a, d in zip(reversed(ct.node.args.args + ct.node.args.kwonlyargs), reversed(ct.node.args.defaults + [x for x in ct.node.args.kw_defaults if x is not None]))}
    ctx.check(ok and bool(calls), "R-C14.4", f"{ct.qualname}#flags-into-never-slots", ct.where, facts,
              "custom_type passes its copyable/droppable flags into the wrong (or un-negated) slots of OpaqueTypeDef")
    qm = idx.module("guppylang.std.quantum")
    qc = idx.classes.get(f"{qm.name}.qubit")
    deco = [d for d in (qc.node.decorator_list if qc else []) if isinstance(d, ast.Call) and call_name(d) == "custom_type"]
    kws = {k.arg: k.value.value for d in deco for k in d.keywords if isinstance(k.value, ast.Constant)}
    ctx.check(kws.get("copyable") is False and kws.get("droppable") is False, "R-C14.4", f"{qm.name}.qubit#neither", qc.where if qc else qm.rel, {"decorator": kws},
              "qubit must be neither copyable nor droppable")

    # ------------------------------------------------------------ R-C14.5 drops
    cc = idx.module("guppylang_internals.compiler.core")
    aff = idx.module_constant(cc.name, "AFFINE_EXTENSION_TYS")
    names = sorted({a.value for a in ast.walk(aff) if isinstance(a, ast.Constant) and isinstance(a.value, str)}) if aff is not None else []
    ctx.check({"array", "borrow_array"} <= set(names), "R-C14.5", f"{cc.name}.AFFINE_EXTENSION_TYS", cc.rel, {"types": names},
              "an affine builtin (array) lowers to a HUGR type that is not in the drop list: unused arrays are never dropped")
    from . import c14_drops
    if not c14_drops.run(ctx):
        # fallback (not interpretable): shape of the match arms of requires_drop and of the guard of the drop insertion
        rd = idx.find_func("requires_drop", cc.name)
        arms = {}
        for m in walk_no_nested(rd.node):
            if isinstance(m, ast.match_case):
                arms[ast.unparse(m.pattern).split("(")[0]] = m
        facts = {"arms": sorted(arms)}
        ok = True
        for a in ("ht.ExtType", "ht.Opaque"):
            m = arms.get(a)
            rec = m is not None and any(call_name(c) == "requires_drop" for b in m.body for c in ast.walk(b) if isinstance(c, ast.Call)) \
                and any("AFFINE_EXTENSION_TYS" in ast.unparse(b) for b in m.body)
            facts[a] = rec
            ok = ok and rec
        m = arms.get("ht.Sum")
        rec = m is not None and any(call_name(c) == "requires_drop" for b in m.body for c in ast.walk(b) if isinstance(c, ast.Call))
        facts["ht.Sum"] = rec
        ok = ok and rec
        m = arms.get("ht.Variable")
        var_ok = m is not None and "Linear" in ast.unparse(m.body[0]) and "==" in ast.unparse(m.body[0])
        facts["ht.Variable"] = var_ok
        ctx.check(ok and var_ok, "R-C14.5", f"{rd.qualname}#recursion", rd.where, facts,
                  "a droppable-but-not-copyable value nested in an extension type / sum / type variable is not recognised as needing a drop")
        ins = idx.find_func("insert_drops", cc.name)
        drops = [c for c in calls_in(ins.node, nested=True) if call_name(c) == "drop_op"]
        ctx.floor("R-C14.5", "drop_op insertions", len(drops), 1)
        from ..guards import lexical_guards
        for i, d in enumerate(drops):
            gs = lexical_guards(ins.node, d) or []
            arg = ast.unparse(d.args[0]) if d.args else ""
            direct = any(isinstance(c, ast.Call) and call_name(c) == "requires_drop" and c.args and ast.unparse(c.args[0]) == arg and pol
                         for e, pol in gs for c in ast.walk(e))
            ctx.check(direct, "R-C14.5", f"{ins.qualname}#decides-by-requires_drop[{i}]", f"{ins.module.rel}:{d.lineno}",
                      {"drop_of": arg, "guards": [ast.unparse(e)[:100] for e, _ in gs]},
                      "whether a dangling port gets a drop is not decided by requires_drop on that port's own type (e.g. through a lookup "
                      "table): values that need a drop can be left dangling")
    comp = idx.method("CompilerContext", "compile", cc.name)
    g = CFG(comp.node)
    ctx.check(g.every_path_to_exit_passes(calls_any({"insert_drops"})), "R-C14.5", f"{comp.qualname}#calls-insert_drops", comp.where, {},
              "a compilation path returns without inserting drops for affine values")

    # ------------------------------------------------------------ R-C14.6 caches keyed by printed types
    hits = []
    n_funcs = 0
    for f in idx.iter_funcs(("guppylang_internals.compiler", "guppylang_internals.tys", "guppylang_internals.checker", "guppylang_internals.definition")):
        n_funcs += 1
        printed = {}
        for n in ast.walk(f.node):
            if isinstance(n, ast.Assign) and len(n.targets) == 1 and isinstance(n.targets[0], ast.Name) and isinstance(n.value, ast.Call) \
                    and dotted(n.value.func) in ("str", "repr") and n.value.args:
                printed[n.targets[0].id] = ast.unparse(n.value.args[0])
        if not printed:
            continue
        for n in ast.walk(f.node):
            if isinstance(n, ast.Subscript) and isinstance(n.slice, ast.Name) and n.slice.id in printed and isinstance(n.ctx, ast.Store):
                looked = any(isinstance(c, ast.Compare) and isinstance(c.ops[0], (ast.In, ast.NotIn)) and dotted(c.left) == n.slice.id for c in ast.walk(f.node))
                if looked and ("ty" in printed[n.slice.id].lower() or "type" in printed[n.slice.id].lower()):
                    hits.append(f"{f.qualname}:{n.lineno}: cache `{ast.unparse(n.value)}` keyed by str({printed[n.slice.id]})")
    ctx.check(not hits, "R-C14.6", "no-cache-keyed-by-printed-type", "guppylang_internals/**", {"functions_scanned": n_funcs, "hits": hits},
              "a decision about a type is cached under the type's printed form; two different types that print alike (type variables "
              "with different bounds) share the cached answer")

    # ------------------------------------------------------------ R-C14.7 struct: classification vs bound vs lowering
    from . import c14_struct
    c14_struct.run(ctx)

