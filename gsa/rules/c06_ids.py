"""R-C06.7  distinct places have distinct ids (the `id` properties of the place classes, interpreted).

The linearity checker's scope maps are keyed by `place.id`.  The `id` properties of `Variable`, `FieldAccess`, `TupleAccess`
and `SubscriptAccess` are interpreted from their syntax trees on a small forest of places -- two variables; fields and tuple
components two levels deep, with the same field name under different parents (`s.a.q`, `s.b.q`); subscripts of one array
by two index variables, and a field below a subscript -- with the `…​.Id(…)` constructors modelled as the value-compared
records they are (frozen dataclasses).

Decided: two places get the same id iff they are the same place (same root, same path); in particular sibling sub-structs
that share a field name do not collapse into one leaf.
"""

from __future__ import annotations

import itertools

from ..absint.minieval import Unsupported
from ..absint.pyeval import PyEval, Raised, Tok
from ..report import Ctx

CORE = "guppylang_internals.checker.core"


def run(ctx: Ctx) -> bool:
    idx = ctx.idx
    classes = {n: idx.find_class(n, CORE) for n in ("Variable", "FieldAccess", "TupleAccess", "SubscriptAccess")}
    key = f"{CORE}#place-ids-are-injective"
    where = classes["FieldAccess"].where

    def mk(cls, **attrs):
        return Tok(f"{cls}", __class__=cls, __classes__=classes[cls].mro(), **attrs)

    def var(n):
        return mk("Variable", name=n, ty=Tok("ty"), defined_at=None)

    def field(parent, n):
        return mk("FieldAccess", parent=parent, field=Tok(f"field_{n}", name=n, ty=Tok("ty")), exact_defined_at=None)

    def tup(parent, i):
        return mk("TupleAccess", parent=parent, elem_ty=Tok("ty"), index=i, exact_defined_at=None)

    def sub(parent, item):
        return mk("SubscriptAccess", parent=parent, item=item, ty=Tok("ty"), item_expr=Tok("expr"), getitem_call=None, setitem_call=None)

    def forest():
        s, t, xs, i, j = var("s"), var("t"), var("xs"), var("i"), var("j")
        sa, sb = field(s, "a"), field(s, "b")
        out = {
            "s": s, "t": t, "s.a": sa, "s.b": sb, "s.a.q": field(sa, "q"), "s.b.q": field(sb, "q"), "t.a": field(t, "a"),
            "t[0]": tup(t, 0), "t[1]": tup(t, 1), "t[0][1]": tup(tup(t, 0), 1), "t[1][0]": tup(tup(t, 1), 0), "s.a[0]": tup(sa, 0),
            "xs[i]": sub(xs, i), "xs[j]": sub(xs, j), "xs[i].q": field(sub(xs, i), "q"), "xs[j].q": field(sub(xs, j), "q"),
        }
        return out

    hooks = {f"{c}.Id": (lambda node, e, env, c=c: (f"{c}.Id", *[e.ev(a, env) for a in node.args], *[(k.arg, e.ev(k.value, env)) for k in node.keywords])) for c in classes}

    def id_of(place):
        ev = PyEval(idx, CORE, max_depth=12)
        for c in place.attrs["__classes__"]:
            m = c.methods.get("id")
            if m is not None:
                out = ev.run(m.node.body, {m.node.args.args[0].arg: place, **hooks})
                if out[0] == "raise":
                    raise Raised(str(out[1]), str(out[1]))
                return out[1] if out[0] == "return" else None
        raise Unsupported(f"{place.name} has no id property")

    try:
        # nested ids are computed through the parents' `id` properties: the interpreter follows them (properties of the token's class)
        for name in hooks:
            pass
        first, second = forest(), forest()
        ids1 = {n: id_of(p) for n, p in first.items()}
        ids2 = {n: id_of(p) for n, p in second.items()}
    except Unsupported as e:
        ctx.undecided("R-C06.7", key, where, str(e))
        return False
    except Raised as e:
        ctx.violation("R-C06.7", key, where, {"problem": f"computing a place id raises {e.cls or e}"}, "place ids cannot be computed")
        return True
    bad = []
    for a, b in itertools.combinations(sorted(ids1), 2):
        if ids1[a] == ids1[b]:
            bad.append({"places": [a, b], "shared_id": repr(ids1[a])[:120]})
    for n in ids1:
        if ids1[n] != ids2[n]:
            bad.append({"place": n, "problem": "the same place built twice gets two different ids", "ids": [repr(ids1[n])[:80], repr(ids2[n])[:80]]})
    opaque = [n for n, v in ids1.items() if "opaque" in repr(v)]
    if opaque:
        ctx.undecided("R-C06.7", key, where, f"ids not evaluable for {opaque[:3]}")
        return False
    ctx.check(not bad, "R-C06.7", key, where, {"places": len(ids1), "pairs_compared": len(ids1) * (len(ids1) - 1) // 2, "counterexamples": bad[:4]},
              "two different places share one id: the linearity checker tracks them as one leaf (using one marks the other as used, "
              "leaking one goes unnoticed)")
    return True
