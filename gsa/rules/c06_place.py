"""R-C06.2 (semantic form, per block)  the decisions of `visit_PlaceNode` and `visit_Expr` -- by interpretation.

`BBLinearityChecker.visit_PlaceNode` is interpreted as a whole from its syntax tree (helpers followed, `is_inout_var` included)
together with the real `Scope` methods, for a single-leaf variable `x` and every combination of

    x is a borrowed parameter (InputFlags.Inout among its flags) or not  x  the kind of use (COPY, BORROW, CONSUME, RETURN, MOVE)
    x  x was used before in this block or not  x  x's type is copyable or not

Decided:  rejected (GuppyError) iff  (borrowed and the use is not a (re)borrow)  or  (used before and not copyable);  otherwise
accepted AND the use (this node, this kind) is recorded for x.

`visit_Expr` is interpreted for an expression statement whose value has a droppable / non-droppable type:
rejected iff not droppable; the value expression is visited in both cases.
"""

from __future__ import annotations

import itertools

from ..absint.minieval import Unsupported
from ..absint.pyeval import Raised, Tok
from ..report import Ctx
from .c06_aggregate import LC, UseKindEval

KINDS = ("COPY", "BORROW", "CONSUME", "RETURN", "MOVE")


class FlagEval(UseKindEval):
    def attr(self, value, name, node, env):
        from ..index import dotted
        d = dotted(node)
        if d and d.split(".")[-2:-1] == ["InputFlags"]:
            return f"InputFlags.{name}"
        return super().attr(value, name, node, env)


def run(ctx: Ctx) -> bool:
    idx = ctx.idx
    chk = idx.find_class("BBLinearityChecker", LC)
    scope_cls = idx.find_class("Scope", LC)
    decided = True
    diag: list = []

    def mk_err(name):
        def h(node, e, env):
            diag.append(name)
            return Tok(name, __methods__={"add_sub_diagnostic": lambda r, a: None})
        return h

    hooks = {
        "leaf_places": lambda node, e, env: [e.ev(node.args[0], env)],
        "contains_subscript": lambda node, e, env: None,
        "has_explicit_copy": lambda node, e, env: False,
        "Use": lambda node, e, env: Tok("use", node=e.ev(node.args[0], env), kind=e.ev(node.args[1], env)),
        "NotOwnedError": mk_err("NotOwnedError"), "AlreadyUsedError": mk_err("AlreadyUsedError"),
        "MoveOutOfSubscriptError": mk_err("MoveOutOfSubscriptError"), "UnnamedExprNotUsedError": mk_err("UnnamedExprNotUsedError"),
    }

    # ---------------------------------------------------------------- visit_PlaceNode
    f = chk.find_method("visit_PlaceNode")
    key = f"{f.qualname}#not-owned-then-already-used-else-recorded"
    a = f.node.args
    ps = [x.arg for x in a.posonlyargs + a.args]
    bad = []
    n = 0
    try:
        for borrowed, kind, used, copyable in itertools.product((False, True), KINDS, (False, True), (False, True)):
            n += 1
            ty = Tok("ty", copyable=copyable, droppable=copyable, __ident__=1)
            x = Tok("x", __class__="Variable", id="x", name="x", ty=ty, defined_at=Tok("def_x"), flags={"InputFlags.Inout"} if borrowed else set(), __ident__=1)
            x.attrs["root"] = x
            earlier = Tok("earlier_use", node=Tok("earlier_node"), kind="UseKind.MOVE")
            scope = Tok("scope", __classes__=scope_cls.mro(), vars={"x": x}, parent_scope=None, used_local={"x": earlier} if used else {}, used_parent={}, __ident__=1)
            me = Tok("checker", scope=scope, __classes__=chk.mro(), func_inputs={"x": x}, func_name="f", __ident__=1)
            me.attrs["__methods__"] = {"_call_name": lambda r, a_: "g"}
            node = Tok("read_node", __class__="PlaceNode", place=x, __ident__=1)
            env = {ps[0]: me, ps[1]: node, ps[2]: f"UseKind.{kind}", ps[3]: None, **hooks}
            diag.clear()
            ev = FlagEval(idx, LC, max_depth=8)
            try:
                out = ev.run(f.node.body, env)
                res = ("raise", str(out[1])) if out[0] == "raise" else ("ok", None)
            except Raised as e:
                res = ("raise", e.cls or str(e))
            # (which diagnostic object is built is not evaluated -- it may come from a helper: `raise _already_used(...)`)
            if borrowed and kind != "BORROW":
                want = "rejected (not owned)"
            elif used and not copyable:
                want = "rejected (already used)"
            else:
                want = None
            got = f"rejected ({diag[-1] if diag else res[1]})" if res[0] == "raise" else None
            ok = (got is None) == (want is None) and (want is None or "GuppyError" in str(res[1]))
            if ok and want is None:
                rec = scope.attrs["used_local"].get("x")
                ok = isinstance(rec, Tok) and rec.attrs.get("node") is node and rec.attrs.get("kind") == f"UseKind.{kind}"
                if not ok:
                    got = f"accepted, but the recorded use is {rec.attrs if isinstance(rec, Tok) else rec}"
            if not ok:
                bad.append({"borrowed_parameter": borrowed, "use": kind, "used_before": used, "copyable": copyable, "outcome": got or "accepted",
                            "should_be": want or "accepted, use recorded"})
        ctx.check(not bad, "R-C06.2", key, f.where, {"rows": n, "counterexamples": bad[:4], "n_counterexamples": len(bad)},
                  "a borrowed argument can be consumed/moved (or re-borrowing it is rejected); a non-copyable value can be used twice in one block "
                  "(or a copyable one is rejected); or a use is not recorded, so a second use or a missing use goes unnoticed")
    except Unsupported as e:
        ctx.undecided("R-C06.2", key, f.where, str(e))
        decided = False

    # ---------------------------------------------------------------- visit_Expr
    f = chk.find_method("visit_Expr")
    key = f"{f.qualname}#discarded-value"
    ps = [x.arg for x in f.node.args.args]
    bad = []
    try:
        for droppable in (False, True):
            visited: list = []
            value = Tok("value_expr", __ident__=1)
            node = Tok("expr_stmt", __class__="Expr", value=value, __ident__=1)
            me = Tok("checker", __classes__=chk.mro(), __ident__=1)
            me.attrs["__methods__"] = {"visit": lambda r, a_, visited=visited: visited.append(a_[0])}
            env = {ps[0]: me, ps[1]: node, **hooks, "get_type": lambda nd, e, env, droppable=droppable: Tok("ty", droppable=droppable, copyable=droppable)}
            diag.clear()
            ev = FlagEval(idx, LC, max_depth=8)
            try:
                out = ev.run(f.node.body, env)
                res = ("raise", str(out[1])) if out[0] == "raise" else ("ok", None)
            except Raised as e:
                res = ("raise", e.cls or str(e))
            if (res[0] == "raise") != (not droppable) or visited != [value]:
                bad.append({"droppable": droppable, "outcome": res[1] or "accepted", "value_visited": visited == [value], "should_be": "accepted" if droppable else "rejected"})
        ctx.check(not bad, "R-C06.2", key, f.where, {"rows": 2, "counterexamples": bad},
                  "an expression statement may silently discard a non-droppable value (e.g. a qubit)")
    except Unsupported as e:
        ctx.undecided("R-C06.2", key, f.where, str(e))
        decided = False
    return decided
