"""C09 dataflow analyses equal the path-based solution in any visit order.

Chaotic iteration over a finite lattice reaches the same fixpoint in every fair order iff
the transfer functions are monotone, join is the lattice operation, the start value is the
right extremal value, and the worklist is complete.  Each is checked on the code:

R-C09.7  the worklist loops, end to end: `ForwardAnalysis.run` / `BackwardAnalysis.run` are interpreted from their syntax
         trees (helpers included) on nine small control-flow graphs (chains, diamonds, loops, never-taken edges into
         unreachable blocks) for every order in which the blocks can be handed in, include_unreachable off and on, with a
         may- (union) and a must- (intersection) reference analysis plugged into the framework's hooks; the returned map must
         equal the solution computed from the graph alone.  Where this decides, R-C09.1 / .5 / .6 are implied and not run.
R-C09.2  transfer: `apply_bb` of both analyses is interpreted on all used / assigned / incoming subsets of a three-variable
         universe:  liveness = used ∪ (live_after − assigned);  assignment = (definitely ∪ assigned, maybe ∪ assigned);
         inputs left untouched; sets iterated in both orders.  (Fallback if not interpretable: membership truth table of
         the single return expression.)
R-C09.3  join: definite = intersection of first components, maybe = union of second ones,
         empty join = the entry value; liveness join = union; `eq` is set equality.
R-C09.4  extremal values and set-up, interpreted: AssignmentAnalysis.__init__/initial (definite assignment starts from ALL
         variables), LivenessAnalysis.__init__/initial, and CFG.analyze on a four-block CFG with a dead block (statistics for every
         block, locals from all blocks, liveness seeded with the borrowed variables, both analyses over all blocks incl.
         unreachable ones, results stored) -- c09_analyze.py; text shapes only as fallback.
R-C09.1  (fallback for R-C09.7) worklist completeness: one abstract iteration of each `run` loop body is
         interpreted (edge lists as symbolic tokens) for include_unreachable in {F,T}; the
         set of edges *read* to recompute a block must be the inverse of the set of edges
         *re-queued* when its value changes (predecessors<->successors, dummy<->dummy).
R-C09.6  (fallback for R-C09.7) every popped block is recomputed: join and apply_bb are unconditional statements of the
         loop body, with no continue/break/return before them.
R-C09.5  (fallback for R-C09.7) change detection: the cached value is updated and dependants are re-queued iff
         the value changed; all blocks are queued initially.
"""

from __future__ import annotations

import ast

from ..absint import setalg
from ..absint.minieval import Opaque, Unsupported
from ..absint.pyeval import PyEval, Tok
from ..index import AnalysisError, FuncInfo, call_name, calls_in, dotted, walk_no_nested
from ..report import Ctx

LEVEL = "other"
EXPLANATION = (
    "Obligations of the chaotic-iteration theorem checked on cfg/analysis.py.  The worklist loops are interpreted from "
    "their syntax trees by the checker's own evaluator on nine small abstract graphs under every block order against "
    "reference may/must analyses; transfer functions, joins and equality are interpreted over all subsets of a "
    "three-variable universe; extremal values by shape.  No repository code is executed; the concrete analyses are "
    "covered through the lattice obligations, not by running them on programs."
)

AN = "guppylang_internals.cfg.analysis"
INVERSE = {"P": "S", "S": "P", "DP": "DS", "DS": "DP"}


def one_iteration(ctx: Ctx, run: FuncInfo, include_unreachable: bool, changed: bool):
    """Interpret the body of the worklist loop once. Returns (read edges, requeued edges, cache stores, joined cache)."""
    loop = next((n for n in walk_no_nested(run.node) if isinstance(n, ast.While)), None)
    if loop is None:
        raise Unsupported("no while loop")
    ev = PyEval(ctx.idx, AN)
    read: list[str] = []
    requeue: list[str] = []
    joined_from: list[str] = []
    bb = Tok("bb", predecessors=["P"], dummy_predecessors=["DP"], successors=["S"], dummy_successors=["DS"])

    def h_join(node, e, env):
        for a in node.args:
            g = a.value if isinstance(a, ast.Starred) else a
            if isinstance(g, (ast.GeneratorExp, ast.ListComp)) and len(g.generators) == 1:
                it = e.ev(g.generators[0].iter, env)
                if not isinstance(it, list):
                    raise Unsupported(f"join over {it!r}")
                read.extend(it)
                if isinstance(g.elt, ast.Subscript):
                    joined_from.append(dotted(g.elt.value))
            else:
                raise Unsupported("join argument shape")
        return Tok("joined")

    def h_update(node, e, env):
        v = e.ev(node.args[0], env)
        if not isinstance(v, list):
            raise Unsupported(f"queue.update({v!r})")
        requeue.extend(v)
        return None

    def h_add(node, e, env):
        raise Unsupported("queue.add")

    env = {
        "self.include_unreachable": lambda n, e, en: include_unreachable,
        "self.join": h_join,
        "self.apply_bb": lambda n, e, en: Tok("applied"),
        "self.eq": lambda n, e, en: not changed,
        "queue.pop": lambda n, e, en: bb,
        "queue.popleft": lambda n, e, en: bb,
        "queue.popitem": lambda n, e, en: (bb, None),
        "dict.fromkeys": lambda n, e, en: e.ev(n.args[0], en),
        "queue.update": h_update,
        "queue.extend": h_update,
        "queue.add": h_add,
        "len": lambda n, e, en: 1,
        "vals_before[bb]": Tok("old_before"),
        "vals_after[bb]": Tok("old_after"),
    }
    ev.run(loop.body, env)
    stores = {k: v for k, v in env.items() if k.startswith("vals_") and isinstance(v, Tok)}
    return read, requeue, stores, joined_from


def run(ctx: Ctx) -> None:
    idx = ctx.idx
    fwd = idx.find_class("ForwardAnalysis", AN)
    bwd = idx.find_class("BackwardAnalysis", AN)
    live = idx.find_class("LivenessAnalysis", AN)
    assn = idx.find_class("AssignmentAnalysis", AN)
    runs = [(c, c.methods.get("run")) for c in (fwd, bwd)]
    if any(r is None for _, r in runs):
        raise AnalysisError("an Analysis.run method vanished")
    # no concrete analysis overrides run
    for c in (live, assn):
        ctx.check("run" not in c.methods, "R-C09.1", f"{c.qualname}#uses-framework-run", c.where, {"overrides_run": "run" in c.methods},
                  "a concrete analysis brings its own worklist loop (not covered by the framework obligations)")

    # ------------------------------------------------------------ R-C09.7 the worklist loops, end to end
    from . import c09_fixpoint, c09_transfer
    e2e = c09_fixpoint.run(ctx)
    # R-C09.6 / .1 / .5 are obligations on the *shape* of the loop (one abstract iteration); they are the fallback for a loop
    # the interpreter cannot run end to end, and are implied by R-C09.7 where it decides.
    shape_runs = [] if e2e else runs

    # ------------------------------------------------------------ R-C09.6 every popped block is recomputed
    for c_, r_ in shape_runs:
        loops_ = [n for n in walk_no_nested(r_.node) if isinstance(n, ast.While)]
        key_ = f"{r_.qualname}#every-popped-block-is-recomputed"
        if len(loops_) != 1:
            ctx.undecided("R-C09.6", key_, r_.where, f"{len(loops_)} while loops")
            continue
        body_ = loops_[0].body
        def _top_index(name):
            for i, st in enumerate(body_):
                if isinstance(st, (ast.Assign, ast.AnnAssign, ast.Expr)) and any(isinstance(c, ast.Call) and isinstance(c.func, ast.Attribute) and c.func.attr == name for c in ast.walk(st)):
                    return i
            return None
        ij, ia = _top_index("join"), _top_index("apply_bb")
        early = []
        if ij is not None and ia is not None:
            for st in body_[: max(ij, ia)]:
                early += [f"{type(x).__name__}@{x.lineno}" for x in ast.walk(st) if isinstance(x, (ast.Continue, ast.Break, ast.Return))]
        ctx.check(ij is not None and ia is not None and not early, "R-C09.6", key_, f"{r_.module.rel}:{loops_[0].lineno}",
                  {"join_is_unconditional": ij is not None, "apply_bb_is_unconditional": ia is not None, "early_exits_before_them": early},
                  "some popped blocks are not recomputed (e.g. blocks without predecessors keep their initial value, which for the definite-assignment "
                  "analysis is 'everything assigned'): the entry block's state is wrong and use-before-definition there goes unnoticed")

    # ------------------------------------------------------------ R-C09.1 / R-C09.5
    for c, r in shape_runs:
        ctx.saw("functions", r.qualname)
        for inc in (False, True):
            key = f"{r.qualname}#requeue-covers-readers[include_unreachable={inc}]"
            try:
                read, requeue, stores, joined = one_iteration(ctx, r, inc, changed=True)
                read0, requeue0, stores0, _ = one_iteration(ctx, r, inc, changed=False)
            except Unsupported as e:
                ctx.undecided("R-C09.1", key, r.where, str(e))
                continue
            need = sorted({INVERSE[x] for x in read})
            missing = [x for x in need if x not in requeue]
            ctx.check(not missing and bool(read), "R-C09.1", key, r.where,
                      {"edges_read_to_recompute_a_block": sorted(set(read)), "edges_requeued_on_change": sorted(set(requeue)),
                       "must_requeue": need, "missing": missing, "legend": "P/S = predecessors/successors, DP/DS = dummy ones"},
                      "a block whose value is read through this edge kind is not re-queued when the source changes: with an unlucky "
                      "visit order it keeps a stale value, so the analysis result depends on the worklist order")
            # direction sanity: forward reads predecessors, backward reads successors
            want_dir = {"P"} if c is fwd else {"S"}
            ctx.check(want_dir <= set(read) and not ({"S", "DS"} if c is fwd else {"P", "DP"}) & set(read), "R-C09.1",
                      f"{r.qualname}#direction[include_unreachable={inc}]", r.where, {"reads": sorted(set(read))},
                      "the analysis propagates along the wrong edge direction")
            ctx.check((("DP" in read) or ("DS" in read)) == inc, "R-C09.1", f"{r.qualname}#dummy-edges-iff-unreachable-included[{inc}]", r.where,
                      {"reads": sorted(set(read)), "include_unreachable": inc},
                      "dummy (never-taken) edges are used when unreachable code is excluded, or ignored when it is included")
            # R-C09.5
            cache = "vals_after[bb]" if c is fwd else "vals_before[bb]"
            upd = stores.get(cache)
            ctx.check(upd is not None and upd.name == "applied" and not requeue0, "R-C09.5", f"{r.qualname}#change-detection[{inc}]", r.where,
                      {"cache_after_change": repr(upd), "requeued_when_unchanged": requeue0,
                       "cache_when_unchanged": repr(stores0.get(cache))},
                      "the cached block value is not refreshed before dependants are re-queued, or blocks are re-queued although nothing changed "
                      "(non-termination / stale reads)")
        # the returned map must hold the value computed in the *last* visit of each block: if it is not
        # the map that change detection compares, it has to be refreshed on every visit, changed or not
        ret = [dotted(x.value) for x in walk_no_nested(r.node) if isinstance(x, ast.Return) and x.value is not None]
        eq_maps = {dotted(a.value) for cl in calls_in(r.node) if call_name(cl) == "eq" for a in cl.args if isinstance(a, ast.Subscript)}
        if len(ret) == 1 and ret[0]:
            try:
                _, _, st_unchanged, _ = one_iteration(ctx, r, True, changed=False)
                fresh = st_unchanged.get(f"{ret[0]}[bb]")
                ok = (ret[0] in eq_maps) or (fresh is not None and fresh.name in ("joined", "applied"))
                ctx.check(ok, "R-C09.5", f"{r.qualname}#returned-map-is-current", r.where,
                          {"returns": ret[0], "change_detection_compares": sorted(eq_maps),
                           "entry_after_an_unchanged_visit": repr(fresh)},
                          "the returned block values can be stale: a block whose input changed but whose cached output did not keeps the "
                          "previous (or the optimistic initial) input value in the result")
            except Unsupported as e:
                ctx.undecided("R-C09.5", f"{r.qualname}#returned-map-is-current", r.where, str(e))
        # all blocks queued initially
        q = [n for n in walk_no_nested(r.node) if isinstance(n, ast.Assign) and any(isinstance(t, ast.Name) and t.id == "queue" for t in n.targets)]
        ok = len(q) == 1 and isinstance(q[0].value, ast.Call) and call_name(q[0].value) in ("set", "list", "deque", "fromkeys") and [dotted(a) for a in q[0].value.args] == ["bbs"]
        ctx.check(ok, "R-C09.5", f"{r.qualname}#all-blocks-queued-initially", r.where, {"queue_init": ast.unparse(q[0].value) if q else None},
                  "some block is never visited, so it keeps the initial (extremal) value")

    # ------------------------------------------------------------ R-C09.2 transfer functions
    la = live.methods.get("apply_bb")
    aa = assn.methods.get("apply_bb")
    if la is None or aa is None:
        raise AnalysisError("apply_bb vanished")
    transfer_decided = c09_transfer.run(ctx)
    for f, spec_kind in () if transfer_decided else ((la, "liveness"), (aa, "assignment")):
        ctx.saw("functions", f.qualname)
        params = [a.arg for a in f.node.args.args]
        rets = [r.value for r in walk_no_nested(f.node) if isinstance(r, ast.Return)]
        key = f"{f.qualname}#transfer"
        if len(rets) != 1 or rets[0] is None:
            ctx.undecided("R-C09.2", key, f.where, "not a single return")
            continue
        comps = list(rets[0].elts) if isinstance(rets[0], ast.Tuple) else [rets[0]]
        # names bound by unpacking the incoming value:  a, b = val_before
        unpack: list[str] = []
        for n in walk_no_nested(f.node):
            if isinstance(n, ast.Assign) and isinstance(n.targets[0], ast.Tuple) and dotted(n.value) == params[1]:
                unpack = [dotted(t) for t in n.targets[0].elts]

        def role(atom: str, comp_idx: int) -> str:
            if atom.endswith(".used"):
                return "used"
            if atom.endswith(".assigned"):
                return "assigned"
            if atom == params[1]:
                return "in"
            if atom in unpack:
                return "in" if unpack.index(atom) == comp_idx else f"other_component({atom})"
            return f"?{atom}"
        bad = []
        und = None
        for i, comp in enumerate(comps):
            try:
                ats = setalg.atoms(comp)
                roles = [role(a, i) for a in ats]
                if any(r.startswith(("?", "other")) for r in roles):
                    bad.append({"component": i, "unexpected_operand": [r for r in roles if r.startswith(("?", "other"))]})
                    continue
                ns, tbl = setalg.table(comp, ats)
            except setalg.Unsupported as e:
                und = str(e)
                break
            for vals, got in tbl.items():
                env = {"used": False, "assigned": False, "in": False}
                for a, v in zip(ns, vals):
                    env[role(a, i)] = env[role(a, i)] or v
                want = (env["used"] or (env["in"] and not env["assigned"])) if spec_kind == "liveness" else (env["in"] or env["assigned"])
                # atoms not present are False, which is a valid valuation as well
                if got != want:
                    bad.append({"component": i, **{r: v for r, v in zip(roles, vals)}, "in_result": got, "should_be": want})
            if spec_kind == "liveness" and "used" not in roles:
                bad.append({"component": i, "missing_operand": "used"})
            if "assigned" not in roles:
                bad.append({"component": i, "missing_operand": "assigned"})
            if "in" not in roles:
                bad.append({"component": i, "missing_operand": "incoming value"})
        if spec_kind == "assignment" and len(comps) != 2:
            bad.append({"components": len(comps), "want": 2})
        if und:
            ctx.undecided("R-C09.2", key, f.where, und)
        else:
            ctx.check(not bad, "R-C09.2", key, f.where, {"components": [ast.unparse(c)[:90] for c in comps], "counterexamples": bad[:4]},
                      "the block transfer function is not the gen/kill function of the analysis (live = used or (live_after and not "
                      "assigned); assigned = before or assigned here)")

    # ------------------------------------------------------------ R-C09.3 join / eq
    aj = assn.methods.get("join")
    if aj is None:
        raise AnalysisError("AssignmentAnalysis.join vanished")
    import itertools as _it
    key = f"{aj.qualname}#meet-and-join"
    subsets = [set(), {"a"}, {"b"}, {"a", "b"}]
    pairs = [(d, m) for d in subsets for m in subsets if d <= m]
    ev = PyEval(idx, AN)
    selfa = Tok("self", ass_before_entry={"e"}, maybe_ass_before_entry={"e", "m"}, all_vars={"a", "b", "e", "m"}, __ident__=1)
    ps = [x.arg for x in aj.node.args.args]
    va = aj.node.args.vararg.arg if aj.node.args.vararg else None
    bad, und, n_cases = [], None, 0
    if va is None:
        und = "join takes no *args"
    else:
        for n in (1, 2, 3):
            for ts in _it.product(pairs, repeat=n):
                if n == 3 and ts[0] != pairs[1]:
                    continue  # keep the 3-ary cases to a slice
                n_cases += 1
                operands = [(set(d), set(m)) for d, m in ts]
                try:
                    out = ev.run_function(aj, {ps[0]: selfa, va: operands})
                except Unsupported as e:
                    und = str(e)
                    break
                want = (set.intersection(*[d for d, _ in ts]), set.union(*[m for _, m in ts]))
                got = out[1] if out[0] == "return" else out
                if isinstance(got, Opaque):
                    und = f"join result not evaluable: {got!r}"
                    break
                if [(set(d), set(m)) for d, m in ts] != operands:
                    bad.append({"incoming": [[sorted(d), sorted(m)] for d, m in ts], "problem": "join modifies its operands (the stored values of other blocks)"})
                    continue
                if not (isinstance(got, (tuple, list)) and len(got) == 2 and set(got[0]) == want[0] and set(got[1]) == want[1]):
                    bad.append({"incoming": [[sorted(d), sorted(m)] for d, m in ts], "join": repr(got), "want": [sorted(want[0]), sorted(want[1])]})
            if und:
                break
    if und:
        ctx.undecided("R-C09.3", key, aj.where, und)
    else:
        ctx.check(not bad, "R-C09.3", key, aj.where, {"cases": n_cases, "counterexamples": bad[:3]},
                  "definite assignment must intersect and maybe-assignment must unite over incoming paths (and each must combine its own component)")
    try:
        out = ev.run_function(aj, {ps[0]: selfa, va: []}) if va else ("?", None)
        got = out[1] if out[0] == "return" else None
        ok = isinstance(got, (tuple, list)) and len(got) == 2 and set(got[0]) == {"e"} and set(got[1]) == {"e", "m"}
        ctx.check(ok, "R-C09.3", f"{aj.qualname}#empty-join-is-entry-value", aj.where, {"empty_join": repr(got)},
                  "a block without predecessors (the entry) must start from the variables assigned before entry: definitely-assigned = the given definite set, maybe-assigned = the given maybe set")
    except Unsupported as e:
        ctx.undecided("R-C09.3", f"{aj.qualname}#empty-join-is-entry-value", aj.where, str(e))
    lj = live.methods.get("join")
    if lj is None:
        raise AnalysisError("LivenessAnalysis.join vanished")
    ps = [x.arg for x in lj.node.args.args]
    va = lj.node.args.vararg.arg if lj.node.args.vararg else None
    doms = [{}, {"a": "bb1"}, {"b": "bb2"}, {"a": "bb3", "b": "bb3"}]
    bad, und, n_cases = [], None, 0
    if va is None:
        und = "join takes no *args"
    else:
        for n in (0, 1, 2, 3):
            for ts in _it.product(doms, repeat=n):
                n_cases += 1
                operands = [dict(t) for t in ts]
                try:
                    out = ev.run_function(lj, {ps[0]: Tok("self", __ident__=1), va: operands})
                except Unsupported as e:
                    und = str(e)
                    break
                got = out[1] if out[0] == "return" else None
                if isinstance(got, Opaque):
                    und = f"join result not evaluable: {got!r}"
                    break
                if operands != [dict(t) for t in ts]:
                    # the operands are the values stored for other blocks: changing them in place changes those blocks'
                    # results without re-queuing their dependants, and makes the outcome depend on the visit order
                    bad.append({"incoming": [dict(t) for t in ts], "after_join": operands, "problem": "join modifies its operands (the stored values of other blocks)"})
                    continue
                want = set().union(*[set(t) for t in ts]) if ts else set()
                # keys = union; each value is a block in which some input says the variable is used
                if not (isinstance(got, dict) and set(got) == want and all(any(t.get(k) == v for t in ts) for k, v in got.items())):
                    bad.append({"incoming": [dict(t) for t in ts], "join": repr(got), "want_keys": sorted(want)})
            if und:
                break
    if und:
        ctx.undecided("R-C09.3", f"{lj.qualname}#union", lj.where, und)
    else:
        ctx.check(not bad, "R-C09.3", f"{lj.qualname}#union", lj.where, {"cases": n_cases, "counterexamples": bad[:3]},
                  "liveness must unite over successors")
    le = live.methods.get("eq")
    if le is None:
        ctx.ok("R-C09.3", f"{live.qualname}.eq#set-equality", live.where, {"inherited": "Analysis.eq (==)"})
    else:
        ps = [a.arg for a in le.node.args.args]
        ev = PyEval(idx, AN)
        bad = []
        und = None
        cases = [({"a": 1}, {"a": 2}, True), ({"a": 1}, {"a": 1, "b": 1}, False), ({"a": 1, "b": 1}, {"a": 1}, False), ({}, {}, True), ({"a": 1}, {"b": 1}, False)]
        for d1, d2, want in cases:
            try:
                out = ev.run_function(le, {ps[1]: d1, ps[2]: d2})
            except Unsupported as e:
                und = str(e)
                break
            if out[0] != "return" or out[1] is not want:
                bad.append({"live1": sorted(d1), "live2": sorted(d2), "eq": out[1] if out[0] == "return" else out[0], "want": want})
        if und:
            ctx.undecided("R-C09.3", f"{le.qualname}#set-equality", le.where, und)
        else:
            ctx.check(not bad, "R-C09.3", f"{le.qualname}#set-equality", le.where, {"cases": len(cases), "counterexamples": bad},
                      "change detection of the liveness analysis is not equality of the live-variable sets (fixpoint reached too early or never)")

    # the assignment analysis' change detection (own `eq` or the inherited one) must compare BOTH components:
    # the maybe-assigned half is part of the result (`maybe_ass_before`), a block whose maybe-set grows must be re-queued
    ae = assn.find_method("eq")
    if ae is None:
        ctx.undecided("R-C09.3", f"{assn.qualname}.eq#pair-equality", assn.where, "no eq method found in the MRO")
    else:
        ps = [a.arg for a in ae.node.args.posonlyargs + ae.node.args.args]
        ev = PyEval(idx, AN)
        sub = [set(), {"a"}, {"a", "b"}]
        vals = [(d, m) for d in sub for m in sub if d <= m]
        bad, und = [], None
        for v1 in vals:
            for v2 in vals:
                try:
                    out = ev.run_function(ae, {ps[0]: Tok("self", __ident__=1), ps[1]: (set(v1[0]), set(v1[1])), ps[2]: (set(v2[0]), set(v2[1]))})
                except Unsupported as e:
                    und = str(e)
                    break
                want = v1 == v2
                if out[0] != "return" or out[1] is not want:
                    bad.append({"value1": [sorted(v1[0]), sorted(v1[1])], "value2": [sorted(v2[0]), sorted(v2[1])], "eq": out[1] if out[0] == "return" else out[0], "want": want})
            if und:
                break
        if und:
            ctx.undecided("R-C09.3", f"{ae.qualname}#pair-equality(assignment analysis)", ae.where, und)
        else:
            ctx.check(not bad, "R-C09.3", f"{ae.qualname}#pair-equality(assignment analysis)", ae.where, {"cases": len(vals) ** 2, "counterexamples": bad[:3]},
                      "change detection of the assignment analysis ignores part of the value: a block whose maybe-assigned (or definitely-assigned) set "
                      "changed is not re-queued, so the result is stale and depends on the visit order")

    # ------------------------------------------------------------ R-C09.4 extremal values
    from . import c09_analyze
    if not c09_analyze.run(ctx):
        # fallback (not interpretable): shape of the initial values and of the constructor calls in CFG.analyze
        ai = assn.methods.get("initial")
        rets = [r.value for r in walk_no_nested(ai.node) if isinstance(r, ast.Return)] if ai else []
        ok = len(rets) == 1 and isinstance(rets[0], ast.Tuple) and [ast.unparse(e) for e in rets[0].elts] == ["self.all_vars", "self.maybe_ass_before_entry"]
        ctx.check(ok, "R-C09.4", f"{assn.qualname}.initial#greatest-fixpoint-start", ai.where if ai else assn.where, {"returns": [ast.unparse(r) for r in rets if r is not None]},
                  "definite assignment must start from *all* variables (greatest fixpoint), maybe-assignment from the entry set")
        init = assn.methods.get("__init__")
        av = [n for n in walk_no_nested(init.node) if isinstance(n, ast.Assign) and any(ast.unparse(t) == "self.all_vars" for t in n.targets)] if init else []
        if len(av) != 1:
            ctx.undecided("R-C09.4", f"{assn.qualname}#all_vars", assn.where, "all_vars assignment not found")
        else:
            txt = ast.unparse(av[0].value)
            ok = "set.union" in txt and ".assigned" in txt and "stats.values()" in txt and "ass_before_entry" in txt and "intersection" not in txt
            ctx.check(ok, "R-C09.4", f"{assn.qualname}#all_vars-covers-every-assigned-variable", f"{assn.module.rel}:{av[0].lineno}", {"all_vars": txt[:140]},
                      "the top element of the definite-assignment lattice misses variables")
        li = live.methods.get("initial")
        rets = [r.value for r in walk_no_nested(li.node) if isinstance(r, ast.Return)] if li else []
        ctx.check(len(rets) == 1 and ast.unparse(rets[0]) == "self._initial", "R-C09.4", f"{live.qualname}.initial", li.where if li else live.where,
                  {"returns": [ast.unparse(r) for r in rets if r is not None]}, "liveness must start from the configured (borrowed-variables) set")
        an = idx.method("CFG", "analyze", "guppylang_internals.cfg.cfg")
        ctx.saw("functions", an.qualname)
        lcalls = [c for c in calls_in(an.node) if call_name(c) == "LivenessAnalysis"]
        acalls = [c for c in calls_in(an.node) if call_name(c) == "AssignmentAnalysis"]
        inout_def = [n for n in walk_no_nested(an.node) if isinstance(n, ast.Assign) and isinstance(n.value, ast.DictComp) and dotted(n.value.generators[0].iter) == "inout_vars"]
        ok = len(lcalls) == 1 and len(acalls) == 1 and bool(inout_def)
        if ok:
            init_kw = [k for k in lcalls[0].keywords if k.arg == "initial"]
            ok = bool(init_kw) and dotted(init_kw[0].value) == dotted(inout_def[0].targets[0]) and "exit_bb" in ast.unparse(inout_def[0].value)
        ctx.check(ok, "R-C09.4", f"{an.qualname}#liveness-starts-with-borrowed-vars-only", an.where,
                  {"liveness_initial": [ast.unparse(k.value) for c in lcalls for k in c.keywords if k.arg == "initial"]},
                  "liveness is seeded with something other than the borrowed variables at the exit")
        for c in lcalls + acalls:
            inc = [k for k in c.keywords if k.arg == "include_unreachable"]
            ctx.check(bool(inc) and isinstance(inc[0].value, ast.Constant) and inc[0].value.value is True, "R-C09.4",
                      f"{an.qualname}#{call_name(c)}-includes-unreachable", an.where, {"include_unreachable": ast.unparse(inc[0].value) if inc else None},
                      "unreachable code would not be analysed (its variables are checked nevertheless)")
        rb = [c for c in calls_in(an.node) if call_name(c) in ("run", "run_unpacked") and [dotted(a) for a in c.args] == ["self.bbs"]]
        ctx.check(len(rb) == 2, "R-C09.4", f"{an.qualname}#runs-over-all-blocks", an.where, {"runs": [ast.unparse(c)[-40:] for c in rb]},
                  "an analysis is not run over all blocks of the CFG")
