"""R-C05.2 (semantic form)  the order-edge tracker chains side-effecting nodes in insertion order -- `track_hugr_side_effects`, interpreted.

The context manager is interpreted as a whole from its syntax tree (its nested functions included): `Hugr` is a token class whose
`add_node` attribute the function patches and restores, the HUGR under construction is a model tree (nodes, parents, children in
insertion order, recorded order links), `may_have_side_effect` is answered from the operation token (its own rules are separate
instances).  The body of the `with` statement is modelled at the `yield`: it builds, THROUGH THE PATCHED `Hugr.add_node`, every
sequence of up to three items in a function body, each item one of

    pure op | side-effecting op | conditional whose case holds a side effect | conditional with a pure case |
    nested dataflow graph holding a side effect | conditional whose case holds a nested graph holding a side effect |
    tail loop holding a side effect | control-flow graph whose block holds one | tail loop holding a conditional holding one

Decided, for every sequence: in every dataflow parent (function body, case, nested graph) the recorded order links are exactly the
chain  Input -> e1 -> e2 -> ... -> en -> Output  over its children that have a side effect or (transitively) contain one, in
insertion order -- nothing for pure nodes, nothing among the cases of a Conditional or the blocks of a CFG, no self-loops; after the
`with` body -- normal exit and exception -- `Hugr.add_node` is the original function again.
"""

from __future__ import annotations

import itertools

from ..absint.minieval import Unsupported
from ..absint.pyeval import PyEval, Raised, Tok
from ..report import Ctx

CORE = "guppylang_internals.compiler.core"
ITEMS = ("pure", "effect", "cond(effect)", "cond(pure)", "dfg(effect)", "cond(dfg(effect))", "loop(effect)", "cfg(effect)", "loop(cond(effect))")


class Model:
    def __init__(self):
        self.nodes: dict[str, dict] = {}
        self.links: list[tuple[str, str]] = []
        self.n = 0
        self.hugr = Tok("hugr", __getitem__=self.data, __ident__=1)
        self.hugr.attrs["__methods__"] = {"children": lambda r, a: list(self.nodes[self.data(a[0]).name[5:]]["children"]),
                                         "add_order_link": lambda r, a: self.links.append((a[0].name, a[1].name))}

    def data(self, node):
        if not isinstance(node, Tok) or node.name not in self.nodes:
            raise Raised(f"hugr[{node!r}]", "KeyError")
        d = self.nodes[node.name]
        return Tok(f"data:{node.name}", op=d["op"], parent=d["parent"], __ident__=1)

    def raw_add(self, hugr, op, parent=None, num_outs=None, metadata=None):
        """The original Hugr.add_node."""
        self.n += 1
        node = Tok(f"n{self.n}:{op.name}", __ident__=1)
        self.nodes[node.name] = {"op": op, "parent": parent, "children": [], "tok": node}
        if parent is not None:
            self.nodes[parent.name]["children"].append(node)
        return node


def op(kind: str, effect: bool = False) -> Tok:
    return Tok(kind.lower() + ("!" if effect else ""), __class__=kind, side_effect=effect, __ident__=1)


def run(ctx: Ctx) -> bool:
    idx = ctx.idx
    tr = idx.find_func("track_hugr_side_effects", CORE)
    key = f"{tr.qualname}#links-in-insertion-order-and-restores"
    bad: list = []
    n = 0
    seqs = [s for k in (0, 1, 2, 3) for s in itertools.product(ITEMS, repeat=k)]
    try:
        for seq, fail in itertools.product(seqs, (False, True)):
            if fail and len(seq) != 2:
                continue
            n += 1
            m = Model()
            original = m.raw_add
            original.__func__.__gsa_lambda__ = True  # called as a plain local function by the interpreted code
            hugr_cls = Tok("Hugr", add_node=original, __ident__=1)
            expected: dict[str, list[str]] = {}

            def body(ev, env, m=m, hugr_cls=hugr_cls, seq=seq, fail=fail, expected=expected):
                add = hugr_cls.attrs["add_node"]
                if getattr(add, "__func__", None) is Model.raw_add:
                    raise Raised("Hugr.add_node is not patched inside the with body", "NotPatched")

                def container(kind, parent, io=True):
                    c = add(m.hugr, op(kind), parent, None, None)
                    if io:
                        add(m.hugr, op("Input"), c, None, None)
                        add(m.hugr, op("Output"), c, None, None)
                    return c

                def build(item, parent) -> bool:
                    """Adds the item below `parent`; returns whether it has (or contains) a side effect."""
                    if item in ("pure", "effect"):
                        nd = add(m.hugr, op("ExtOp", item == "effect"), parent, None, None)
                        if item == "effect":
                            expected.setdefault(parent.name, []).append(nd.name)
                        return item == "effect"
                    outer, inner = item.split("(", 1)
                    inner = inner[:-1]
                    if outer == "cond":
                        c = add(m.hugr, op("Conditional"), parent, None, None)
                        case = container("Case", c)
                        eff = build(inner, case)
                    elif outer == "cfg":
                        c = add(m.hugr, op("CFG"), parent, None, None)
                        blk = container("DataflowBlock", c)
                        eff = build(inner, blk)
                    elif outer == "loop":
                        c = container("TailLoop", parent)
                        eff = build(inner, c)
                    else:
                        c = container("DFG", parent)
                        eff = build(inner, c)
                    if eff:
                        expected.setdefault(parent.name, []).append(c.name)
                    return eff

                module = m.raw_add(m.hugr, op("Module"), None)
                f = container("FuncDefn", module)
                for i, item in enumerate(seq):
                    if fail and i == 1:
                        raise Raised("the with body raises", "BodyError")
                    build(item, f)

            env = {"Hugr": hugr_cls, "__on_yield__": body, "may_have_side_effect": lambda node, e, env: e.ev(node.args[0], env).attrs["side_effect"]}
            ev = PyEval(idx, CORE, max_depth=10)
            case = {"function_body": list(seq), "with_body_raises": fail}
            try:
                out = ev.run(tr.node.body, env)
                raised = str(out[1]) if out[0] == "raise" else None
            except Raised as e:
                raised = e.cls or str(e)
            if raised == "NotPatched":
                bad.append({**case, "problem": "Hugr.add_node is not replaced while the body runs"})
                continue
            if (raised is not None) != fail or (fail and raised != "BodyError"):
                bad.append({**case, "problem": f"raises {raised}" if raised else "the exception of the body is swallowed"})
                continue
            if hugr_cls.attrs["add_node"] is not original:
                bad.append({**case, "problem": "Hugr.add_node is not restored after the with statement"})
                continue
            if fail:
                continue
            want = set()
            for parent, chain in expected.items():
                kids = m.nodes[parent]["children"]
                full = [kids[0].name, *chain, kids[1].name]
                want |= set(zip(full, full[1:]))
            got = set(m.links)
            if got != want or len(m.links) != len(got):
                bad.append({**case, "missing_links": sorted(want - got)[:4], "extra_links": sorted(got - want)[:4], "duplicate_links": len(m.links) - len(got)})
    except Unsupported as e:
        ctx.undecided("R-C05.2", key, tr.where, str(e))
        return False
    ctx.check(not bad, "R-C05.2", key, tr.where, {"cases": n, "items": list(ITEMS), "counterexamples": bad[:3], "n_counterexamples": len(bad)},
              "side-effecting nodes are not chained in insertion order (or a container holding one is not ordered in its parent), or the patched "
              "Hugr.add_node leaks out of the compilation")
    return True


def run_classifier(ctx: Ctx) -> bool:
    """R-C05.2 (semantic form)  which operations count as side effects -- `may_have_side_effect`, interpreted.

    The function is interpreted (helpers followed) on operation tokens, with the module's list of side-effecting extension
    operations given as a model list: direct and indirect calls -> True whatever they call; an extension operation / a custom
    operation -> True iff its qualified name (`extension.op`, or the bare name without an extension) is in the list; every other
    operation (tags, tuples, constants, loops, conditionals) -> False.
    """
    idx = ctx.idx
    f = idx.find_func("may_have_side_effect", CORE)
    key = f"{f.qualname}#calls-and-listed-operations"
    p0 = f.node.args.args[0].arg
    listed = ["tket.result.result_int", "prelude.panic", "tket.quantum.QAlloc", "bare_op"]

    def ext(qname):
        return Tok(f"ExtOp({qname})", __class__="ExtOp", __ident__=1, __methods__={"op_def": lambda r, a: Tok("op_def", __methods__={"qualified_name": lambda r2, a2: qname})})

    def custom(extension, name):
        return Tok(f"Custom({extension},{name})", __class__="Custom", op_name=name, extension=extension, __match_args__=("op_name", "extension"), __ident__=1)

    cases = [
        (Tok("Call", __class__="Call", __ident__=1), True), (Tok("CallIndirect", __class__="CallIndirect", __ident__=1), True),
        (ext("tket.result.result_int"), True), (ext("prelude.panic"), True), (ext("tket.quantum.QAlloc"), True), (ext("arithmetic.int.iadd"), False), (ext("tket.quantum.H"), False),
        (custom("prelude", "panic"), True), (custom("tket.result", "result_int"), True), (custom("arithmetic.int", "iadd"), False), (custom("", "bare_op"), True),
        (custom(None, "bare_op"), True), (custom("", "other_op"), False), (custom("prelude", "bare_op"), False),
        (Tok("Tag", __class__="Tag", __ident__=1), False), (Tok("MakeTuple", __class__="MakeTuple", __ident__=1), False), (Tok("Const", __class__="Const", __ident__=1), False),
        (Tok("TailLoop", __class__="TailLoop", __ident__=1), False), (Tok("Conditional", __class__="Conditional", __ident__=1), False), (Tok("Input", __class__="Input", __ident__=1), False),
    ]
    bad = []
    try:
        for op_tok, want in cases:
            out = PyEval(idx, CORE, max_depth=6).run(f.node.body, {p0: op_tok, "__globals__": {"EXTENSION_OPS_WITH_SIDE_EFFECTS": list(listed)}})
            got = out[1] if out[0] == "return" else out
            if got is not want:
                bad.append({"operation": op_tok.name, "may_have_side_effect": got if isinstance(got, bool) else repr(got), "should_be": want})
    except (Unsupported, Raised) as e:
        ctx.undecided("R-C05.2", key, f.where, str(e))
        return False
    ctx.check(not bad, "R-C05.2", key, f.where, {"cases": len(cases), "listed_operations_in_the_model": listed, "counterexamples": bad[:4]},
              "function calls (or a listed operation) are not kept in program order, or every operation is ordered")
    return True
