"""R-C08.6  a block "uses" a variable only if it reads it before assigning it in that block.

The dataflow analyses work on per-block summaries (`VariableStats.used` / `.assigned`) computed by
`VariableVisitor` (cfg/bb.py).  `used` must contain exactly the names read *before* any assignment
in the same block: a name assigned earlier in the block and read later (directly, inside a
comprehension, a nested function or a modifier block) is NOT a use of the block -- otherwise it
becomes live at block entry and correct programs are rejected as "not defined" / "maybe not
defined" / "different types on different paths"; and a name read before its assignment must not be
dropped -- otherwise use-before-definition is accepted.

Rule (def-use): every statement of VariableVisitor that adds entries to `self.stats.used` selects
them with a `not in` test against `self.stats.assigned` (directly or through a local computed from
it in the same function), and `_handle_assign_target` records assignments in `self.stats.assigned`
only after the right-hand side was visited (visit_Assign / AugAssign / AnnAssign visit the value
first).
"""

from __future__ import annotations

import ast

from ..guards import lexical_guards
from ..index import walk_no_nested
from ..report import Ctx

MOD = "guppylang_internals.cfg.bb"


def _is_used(e: ast.AST) -> bool:
    return ast.unparse(e) == "self.stats.used"


def run(ctx: Ctx) -> None:
    idx = ctx.idx
    vv = idx.find_class("VariableVisitor", MOD)
    ctx.saw("classes", vv.qualname)
    n_sites = 0
    for name, f in sorted(vv.methods.items()):
        # locals derived from self.stats.assigned
        derived: set[str] = set()
        for n in walk_no_nested(f.node):
            if isinstance(n, ast.Assign) and len(n.targets) == 1 and isinstance(n.targets[0], ast.Name) and "self.stats.assigned" in ast.unparse(n.value):
                derived.add(n.targets[0].id)

        def filters_on_assigned(tests: list[ast.expr]) -> bool:
            for t in tests:
                for c in ast.walk(t):
                    if isinstance(c, ast.Compare) and len(c.ops) == 1 and isinstance(c.ops[0], ast.NotIn):
                        rhs = ast.unparse(c.comparators[0])
                        if rhs.startswith("self.stats.assigned") or rhs in derived:
                            return True
            return False

        for n in walk_no_nested(f.node):
            tests: list[ast.expr] | None = None
            what = None
            if isinstance(n, ast.Assign) and any(isinstance(t, ast.Subscript) and _is_used(t.value) for t in n.targets):
                gs = lexical_guards(f.node, n) or []
                tests = [e if pol else ast.UnaryOp(op=ast.Not(), operand=e) for e, pol in gs]
                # `x not in A and …` under positive polarity only
                tests = [e for e, pol in gs if pol]
                what = ast.unparse(n)[:60]
            elif isinstance(n, ast.AugAssign) and _is_used(n.target) and isinstance(n.op, ast.BitOr):
                comps = [c for c in ast.walk(n.value) if isinstance(c, (ast.DictComp, ast.GeneratorExp, ast.ListComp, ast.SetComp))]
                tests = [i for c in comps for g in c.generators for i in g.ifs]
                what = ast.unparse(n)[:60]
            elif isinstance(n, ast.Call) and isinstance(n.func, ast.Attribute) and n.func.attr == "update" and _is_used(n.func.value):
                comps = [c for a in n.args for c in ast.walk(a) if isinstance(c, (ast.DictComp, ast.GeneratorExp, ast.ListComp, ast.SetComp))]
                tests = [i for c in comps for g in c.generators for i in g.ifs]
                what = ast.unparse(n)[:60]
            if tests is None:
                continue
            n_sites += 1
            ctx.check(filters_on_assigned(tests), "R-C08.6", f"{f.qualname}#adds-only-names-not-yet-assigned-in-the-block[{n_sites}]", f"{f.module.rel}:{n.lineno}",
                      {"statement": what, "selecting_tests": [ast.unparse(t)[:80] for t in tests], "locals_derived_from_assigned": sorted(derived)},
                      "a name is recorded as 'used by this block' without asking whether the block itself assigned it earlier (or by asking another "
                      "table): variables assigned and then read in the same block become live at block entry")
    ctx.floor("R-C08.6", "statements that add to VariableStats.used", n_sites, 4)
    # value before target
    for m in ("visit_Assign", "visit_AugAssign", "visit_AnnAssign"):
        f = vv.methods.get(m)
        if f is None:
            continue
        order = []
        for n in walk_no_nested(f.node):
            if isinstance(n, ast.Call) and isinstance(n.func, ast.Attribute):
                if n.func.attr == "visit" and n.args and ast.unparse(n.args[0]).endswith(".value"):
                    order.append(("value", n.lineno, n.col_offset))
                elif n.func.attr == "_handle_assign_target":
                    order.append(("target", n.lineno, n.col_offset))
        order.sort(key=lambda x: (x[1], x[2]))
        kinds = [k for k, _, _ in order]
        ok = "target" in kinds and ("value" not in kinds or kinds.index("value") < kinds.index("target"))
        ctx.check(ok, "R-C08.6", f"{f.qualname}#value-visited-before-target-recorded", f.where, {"order": kinds},
                  "`x = x + 1` in a block counts x as assigned before its own right-hand side is read, hiding a use-before-definition")
