"""R-C06.6 (semantic form)  "used twice" / "not used" are decided leaf by leaf -- by interpretation.

A struct variable `s` with a linear field `s.a` (neither copyable nor droppable) and a classical field `s.b` is present in the
scope only through its two leaves.  `BBLinearityChecker._check_assign_targets` and `.visit_PlaceNode` are interpreted from
their syntax trees (helpers followed) together with the real `Scope` methods (`used`, `use`, `assign`, lookup), with the
aggregate place `s` as the assignment target / as the place that is read:

  assignment   s is reassigned while  s.a is unused -> rejected (PlaceNotUsedError);  s.a was used -> accepted and both leaves
               are (re)assigned with their earlier uses forgotten;  only the droppable leaf is unused -> accepted
  read         s is read while  s.a was used before -> rejected (AlreadyUsedError);  nothing was used -> accepted and a use is
               recorded for BOTH leaves;  only the copyable leaf was used before -> accepted

A test made with the id of the whole place (which is in no scope map) passes silently and shows here as "accepted".
"""

from __future__ import annotations

from ..absint.minieval import Unsupported
from ..absint.pyeval import PyEval, Raised, Tok
from ..index import dotted
from ..report import Ctx

LC = "guppylang_internals.checker.linearity_checker"


class UseKindEval(PyEval):
    def attr(self, value, name, node, env):
        d = dotted(node)
        if d and d.split(".")[-2:-1] == ["UseKind"]:
            return f"UseKind.{name}"
        return super().attr(value, name, node, env)


def run(ctx: Ctx) -> bool:
    idx = ctx.idx
    chk = idx.find_class("BBLinearityChecker", LC)
    scope_cls = idx.find_class("Scope", LC)
    decided = True

    def world(used: set[str]):
        lin = Tok("qubit_ty", copyable=False, droppable=False, linear=True, __ident__=1)
        cls_ = Tok("int_ty", copyable=True, droppable=True, linear=False, __ident__=1)
        s_ty = Tok("struct_ty", copyable=False, droppable=False, __class__="StructType", __ident__=1)
        s = Tok("s", __class__="Variable", id="s", ty=s_ty, defined_at=Tok("def_s"), __ident__=1)
        s.attrs["root"] = s
        leaf_a = Tok("s.a", __class__="FieldAccess", id="s.a", ty=lin, defined_at=Tok("def_s"), parent=s, root=s, __ident__=1)
        leaf_b = Tok("s.b", __class__="FieldAccess", id="s.b", ty=cls_, defined_at=Tok("def_s"), parent=s, root=s, __ident__=1)
        s.attrs["__leaves__"] = [leaf_a, leaf_b]
        scope = Tok("scope", __classes__=scope_cls.mro(), vars={"s.a": leaf_a, "s.b": leaf_b}, parent_scope=None,
                    used_local={x: Tok(f"use_of_{x}", node=Tok("earlier_node"), kind="UseKind.MOVE") for x in used}, used_parent={}, __ident__=1)
        return s, scope

    diag: list = []

    def mk_err(name):
        def h(node, e, env):
            diag.append(name)
            return Tok(name, __methods__={"add_sub_diagnostic": lambda r, a: None})
        return h

    hooks = {
        "leaf_places": lambda node, e, env: list(e.ev(node.args[0], env).attrs.get("__leaves__", [e.ev(node.args[0], env)])),
        "contains_subscript": lambda node, e, env: None,
        "is_inout_var": lambda node, e, env: False,
        "has_explicit_copy": lambda node, e, env: False,
        "find_nodes": lambda node, e, env: [e.ev(node.args[1], env)],
        "Use": lambda node, e, env: Tok("use", node=e.ev(node.args[0], env), kind=e.ev(node.args[1], env)),
        "PlaceNotUsedError": mk_err("PlaceNotUsedError"), "AlreadyUsedError": mk_err("AlreadyUsedError"),
    }

    def run_method(meth, scope, *args):
        f = chk.find_method(meth)
        ps = [a.arg for a in f.node.args.posonlyargs + f.node.args.args]
        self_tok = Tok("checker", scope=scope, __classes__=chk.mro(), func_inputs={}, func_name="f", __ident__=1)
        env = {ps[0]: self_tok, **hooks}
        for p, v in zip(ps[1:], args):
            env[p] = v
        diag.clear()
        ev = UseKindEval(idx, LC, max_depth=8)
        try:
            out = ev.run(f.node.body, env)
            return ("raise", str(out[1])) if out[0] == "raise" else ("ok", None)
        except Raised as e:
            return ("raise", e.cls or str(e))

    # ---------------------------------------------------------------- assignment to the aggregate
    f_as = chk.find_method("_check_assign_targets")
    key = f"{f_as.qualname}#PlaceNotUsedError-decided-per-leaf"
    bad = []
    try:
        for used, want_reject in ((set(), True), ({"s.a"}, False), ({"s.a", "s.b"}, False), ({"s.b"}, True)):
            s, scope = world(used)
            tgt = Tok("target_node", __class__="PlaceNode", place=s, __ident__=1)
            res = run_method("_check_assign_targets", scope, [tgt])
            rejected = res[0] == "raise"
            ok = rejected == want_reject  # (which diagnostic object is built is not evaluated: `raise GuppyError(<helper>(...))`)
            if ok and not rejected:
                ok = not scope.attrs["used_local"] and set(scope.attrs["vars"]) == {"s.a", "s.b"}
            if not ok:
                bad.append({"leaves_used_before_the_assignment": sorted(used), "outcome": f"rejected ({', '.join(diag) or res[1]})" if rejected else "accepted",
                            "should_be": "rejected (the linear leaf s.a is overwritten unused)" if want_reject else "accepted, earlier uses forgotten",
                            "uses_left": sorted(scope.attrs["used_local"])})
        ctx.check(not bad, "R-C06.6", key, f_as.where, {"cases": 4, "counterexamples": bad},
                  "a linearity decision is taken on the id of a whole place instead of on each of its leaves: aggregates (structs, tuples) "
                  "are present in the scope only through their leaves, so the test never fires for them")
    except Unsupported as e:
        ctx.undecided("R-C06.6", key, f_as.where, str(e))
        decided = False

    # ---------------------------------------------------------------- assignment to a field BELOW a subscript:  arr[i].a = v
    key2 = f"{f_as.qualname}#field-below-a-subscript-is-not-overwritten-unused"
    bad2 = []
    try:
        for droppable in (False, True):
            fty = Tok("field_ty", copyable=False, droppable=droppable, linear=not droppable, __ident__=1)
            arr = Tok("arr", __class__="Variable", id="arr", ty=Tok("array_ty", copyable=False, droppable=False), defined_at=Tok("def_arr"), __ident__=1)
            arr.attrs["root"] = arr
            item = Tok("%idx", __class__="Variable", id="%idx", ty=Tok("int_ty", copyable=True, droppable=True), defined_at=Tok("def_idx"), __ident__=1)
            value_var = Tok("%val", __class__="Variable", id="%val", ty=Tok("struct_ty", copyable=False, droppable=False), defined_at=Tok("def_val"), __ident__=1)
            setitem = Tok("setitem_call", call=Tok("setitem_call_node", __class__="GlobalCall", __ident__=1), value_var=value_var, __ident__=1)
            sub = Tok("arr[...]", __class__="SubscriptAccess", id="arr[%idx]", parent=arr, item=item, item_expr=Tok("index_expr", __class__="Constant"), ty=Tok("struct_ty"),
                      setitem_call=setitem, getitem_call=None, root=arr, defined_at=Tok("def_arr"), __ident__=1)
            place = Tok("arr[...].a", __class__="FieldAccess", id="arr[%idx].a", ty=fty, parent=sub, root=arr, defined_at=Tok("def_arr"), __ident__=1)
            scope = Tok("scope", __classes__=scope_cls.mro(), vars={"arr": arr}, parent_scope=None, used_local={}, used_parent={}, __ident__=1)
            tgt = Tok("target_node", __class__="PlaceNode", place=place, __ident__=1)
            f2 = chk.find_method("_check_assign_targets")
            ps2 = [a.arg for a in f2.node.posonlyargs + f2.node.args.args] if hasattr(f2.node, "posonlyargs") else [a.arg for a in f2.node.args.posonlyargs + f2.node.args.args]
            self_tok = Tok("checker", scope=scope, __classes__=chk.mro(), func_inputs={}, func_name="f", __ident__=1)
            self_tok.attrs["__methods__"] = {"visit": lambda r, a: None}
            env = {ps2[0]: self_tok, ps2[1]: [tgt], **hooks, "contains_subscript": lambda node, e, env, sub=sub: sub}
            diag.clear()
            try:
                out = UseKindEval(idx, LC, max_depth=8).run(f2.node.body, env)
                rejected = out[0] == "raise"
            except Raised:
                rejected = True
            if rejected == droppable:
                bad2.append({"assignment": "arr[i].a = v", "old_field_value_droppable": droppable, "outcome": "rejected" if rejected else "accepted",
                             "should_be": "accepted" if droppable else "rejected: the old value of the field can never have been consumed (moving out of a subscript is forbidden)"})
        ctx.check(not bad2, "R-C06.6", key2, f_as.where, {"cases": 2, "counterexamples": bad2},
                  "`arr[i].a = qubit()` (array of structs with a qubit field) is accepted: the qubit that was in the field is overwritten and "
                  "silently discarded -- for a place that contains a subscript only the `__setitem__` call is looked at, not the leaves the "
                  "assignment replaces")
    except Unsupported as e:
        ctx.undecided("R-C06.6", key2, f_as.where, str(e))

    # ---------------------------------------------------------------- read of the aggregate
    f_pn = chk.find_method("visit_PlaceNode")
    key = f"{f_pn.qualname}#AlreadyUsedError-decided-per-leaf"
    bad = []
    try:
        for used, want_reject in ((set(), False), ({"s.a"}, True), ({"s.b"}, False), ({"s.a", "s.b"}, True)):
            s, scope = world(used)
            node = Tok("read_node", __class__="PlaceNode", place=s, __ident__=1)
            res = run_method("visit_PlaceNode", scope, node, "UseKind.MOVE", None)
            rejected = res[0] == "raise"
            ok = rejected == want_reject
            if ok and not rejected:
                ok = set(scope.attrs["used_local"]) == {"s.a", "s.b"}
            if not ok:
                bad.append({"leaves_used_before_the_read": sorted(used), "outcome": f"rejected ({', '.join(diag) or res[1]})" if rejected else "accepted",
                            "should_be": "rejected (the linear leaf s.a is used twice)" if want_reject else "accepted, both leaves recorded as used",
                            "uses_recorded": sorted(scope.attrs["used_local"])})
        ctx.check(not bad, "R-C06.6", key, f_pn.where, {"cases": 4, "counterexamples": bad},
                  "a linearity decision is taken on the id of a whole place instead of on each of its leaves: aggregates (structs, tuples) "
                  "are present in the scope only through their leaves, so the test never fires for them")
    except Unsupported as e:
        ctx.undecided("R-C06.6", key, f_pn.where, str(e))
        decided = False
    return decided
