"""R-C08.4 (semantic form)  dead code hangs off the jumping block, and pruning keeps the CFG consistent -- by interpretation.

`CFGBuilder.visit_stmts` is interpreted from its syntax tree for every statement sequence of length <= 4 over
{plain statement, statement that ends in a new block, statement that jumps (return / break / continue)}; the per-statement
visitor, `new_bb` and `dummy_link` are recorders.
Decided: every statement is built into the block its predecessor handed on; after a jump the next statement starts a FRESH block
that is dummy-linked from the block in which the jumping statement was started (not from an earlier one), and nothing else is
dummy-linked; the function returns what the last statement returned.

`CFGBuilder.build` is interpreted with the real `link` / `update_reachable` of the CFG classes (fallback: reachability modelled by
its specification) on a family of model CFGs that `visit_stmts` (a hook) leaves behind -- dead blocks that jump back into live
code, dead chains, live blocks with never-taken (dummy) edges into them, a fall-through end that is live / dead / absent.
Decided, for every graph: `reachable` is graph reachability from the entry; afterwards no dead block has a live successor and no
live block a dummy predecessor; successor/predecessor lists and dummy lists stay mutually consistent; every other edge is kept;
"return expected" is raised iff the fall-through end is live and the function must return a value.
"""

from __future__ import annotations

import itertools

from ..absint.minieval import Unsupported
from ..absint.pyeval import PyEval, Raised, Tok
from ..report import Ctx

CB = "guppylang_internals.cfg.builder"
KINDS = ("plain", "splits", "jumps")


def _bb(name: str) -> Tok:
    return Tok(name, successors=[], predecessors=[], dummy_successors=[], dummy_predecessors=[], reachable=False, statements=[], __ident__=1)


def run_visit_stmts(ctx: Ctx) -> bool:
    idx = ctx.idx
    vs = idx.method("CFGBuilder", "visit_stmts", CB)
    key = f"{vs.qualname}#dead-code-hangs-off-the-jumping-block"
    ps = [a.arg for a in vs.node.args.args]
    bad = []
    n = 0
    try:
        for k in range(0, 5):
            for seq in itertools.product(KINDS, repeat=k):
                n += 1
                fresh: list = []
                links: list = []
                visits: list = []
                counter = itertools.count()

                def new_bb(r, a, fresh=fresh, counter=counter):
                    b = _bb(f"fresh{next(counter)}")
                    fresh.append(b)
                    return b

                def visit(r, a, visits=visits, counter=counter):
                    stmt, cur = a[0], a[1]
                    visits.append((stmt.name, cur.name if isinstance(cur, Tok) else cur))
                    kind = stmt.attrs["kind"]
                    return cur if kind == "plain" else (_bb(f"after_{stmt.name}") if kind == "splits" else None)

                cfg = Tok("cfg", __ident__=1)
                cfg.attrs["__methods__"] = {"new_bb": new_bb, "dummy_link": lambda r, a, links=links: links.append((a[0].name, a[1].name))}
                me = Tok("builder", cfg=cfg, __classes__=vs.cls.mro(), __ident__=1)
                me.attrs["__methods__"] = {"visit": visit}
                stmts = [Tok(f"s{i}", kind=kd, __ident__=1) for i, kd in enumerate(seq)]
                start = _bb("start")
                env = {ps[0]: me, ps[1]: stmts, ps[2]: start, ps[3]: Tok("jumps"), "is_functional_annotation": lambda nd, e, env: False}
                ev = PyEval(idx, CB, max_depth=6)
                try:
                    out = ev.run(vs.node.body, env)
                    if out[0] == "raise":
                        raise Raised(str(out[1]), str(out[1]))
                    ret = out[1] if out[0] == "return" else None
                except Raised as e:
                    bad.append({"statements": list(seq), "problem": f"raises {e.cls or e}"})
                    continue
                # specification
                want_visits, want_links = [], []
                cur, prev, nf = "start", "start", 0
                for i, kd in enumerate(seq):
                    if cur is None:
                        cur = f"fresh{nf}"
                        nf += 1
                        want_links.append((prev, cur))
                    want_visits.append((f"s{i}", cur))
                    prev = cur
                    cur = cur if kd == "plain" else (f"after_s{i}" if kd == "splits" else None)
                got_ret = ret.name if isinstance(ret, Tok) else ret
                if visits != want_visits or links != want_links or got_ret != cur:
                    bad.append({"statements": list(seq), "built_in": visits, "should_be_built_in": want_visits, "dummy_links": links, "should_be": want_links,
                                "returns": got_ret, "should_return": cur})
    except Unsupported as e:
        ctx.undecided("R-C08.4", key, vs.where, str(e))
        return False
    ctx.check(not bad, "R-C08.4", key, vs.where, {"cases": n, "counterexamples": bad[:3], "n_counterexamples": len(bad)},
              "dead code after return/break/continue is attached to an earlier block: its variable uses are demanded too early and a "
              "correct program is rejected as 'not defined'")
    return True


# model CFGs left behind by visit_stmts: (edges, dummy edges, fall-through end or None); block 0 = entry, 1 = exit
GRAPHS = {
    "straight, falls through": ([(0, 2)], [], 2),
    "returns": ([(0, 1)], [], None),
    "dead code after return jumps to the exit": ([(0, 1), (2, 1)], [(0, 2)], None),
    "dead code after return falls through": ([(0, 1)], [(0, 2)], 2),
    "dead chain jumping back into a live loop": ([(0, 2), (2, 3), (3, 2), (3, 1), (4, 5), (5, 2), (5, 6), (6, 5)], [(3, 4)], None),
    "never-taken branch into a block that is live anyway": ([(0, 2), (2, 3), (3, 1)], [(0, 3), (2, 3)], None),
    "never-taken branch into a dead block, which continues into live code": ([(0, 3), (2, 3), (3, 1)], [(0, 2)], None),
    "dead block with two live successors and a dead one": ([(0, 2), (0, 3), (2, 1), (3, 1), (4, 2), (4, 3), (4, 5), (5, 1)], [(2, 4)], None),
    "live fall-through end next to dead code": ([(0, 2), (3, 2)], [(0, 3)], 2),
}


def run_build(ctx: Ctx) -> bool:
    idx = ctx.idx
    bld = idx.method("CFGBuilder", "build", CB)
    key = f"{bld.qualname}#pruning-is-symmetric"
    ps = [a.arg for a in bld.node.args.args]
    cfg_cls = idx.find_class("CFG", "guppylang_internals.cfg.cfg")
    bad = []
    n = 0

    def reach(nblocks, edges):
        seen, todo = set(), [0]
        while todo:
            b = todo.pop()
            if b not in seen:
                seen.add(b)
                todo.extend(t for s, t in edges if s == b)
        return seen

    for model_reach in (False, True):
        bad.clear()
        n = 0
        try:
            for (desc, (edges, dummies, end)), returns_none, order in itertools.product(GRAPHS.items(), (True, False), ("asc", "desc")):
                if model_reach and order == "desc":
                    continue
                n += 1
                nb = 1 + max(x for e in edges + dummies for x in e)
                bbs = [_bb(f"bb{i}") for i in range(nb)]
                for i, b in enumerate(bbs):
                    b.attrs["idx"] = i

                def visit_stmts(r, a, bbs=bbs, edges=edges, dummies=dummies, end=end):
                    for s, t in edges:
                        bbs[s].attrs["successors"].append(bbs[t])
                        bbs[t].attrs["predecessors"].append(bbs[s])
                    for s, t in dummies:
                        bbs[s].attrs["dummy_successors"].append(bbs[t])
                        bbs[t].attrs["dummy_predecessors"].append(bbs[s])
                    return bbs[end] if end is not None else None

                cfg = Tok("cfg", bbs=bbs, entry_bb=bbs[0], exit_bb=bbs[1], __classes__=cfg_cls.mro(), __ident__=1)
                if model_reach:
                    def upd(r, a, bbs=bbs):
                        es = [(i, t.attrs["idx"]) for i, b in enumerate(bbs) for t in b.attrs["successors"]]
                        for i in reach(len(bbs), es):
                            bbs[i].attrs["reachable"] = True
                    cfg.attrs["__methods__"] = {"update_reachable": upd}
                me = Tok("builder", __classes__=bld.cls.mro(), __ident__=1)
                me.attrs["__methods__"] = {"visit_stmts": visit_stmts}
                env = {ps[0]: me, ps[1]: [Tok("last_stmt")], ps[2]: returns_none, ps[3]: Tok("globals"), "CFG": lambda nd, e, env, cfg=cfg: cfg,
                       "Jumps": lambda nd, e, env: Tok("jumps"), "ExpectedError": lambda nd, e, env: Tok("ExpectedError")}
                if len(ps) > 4:
                    env[ps[4]] = Tok("flags")
                ev = PyEval(idx, CB, max_depth=6)
                ev.set_order = order  # (update_reachable pops from a set: both orders are explored)
                try:
                    out = ev.run(bld.node.body, env)
                    raised = str(out[1]) if out[0] == "raise" else None
                except Raised as e:
                    raised = e.cls or str(e)
                all_edges = list(edges) + ([(end, 1)] if end is not None else [])
                live = reach(nb, all_edges)
                want_raise = end is not None and end in live and not returns_none
                case = {"graph": desc, "function_returns_none": returns_none}
                if (raised is not None) != want_raise or (want_raise and "GuppyError" not in str(raised)):
                    bad.append({**case, "outcome": raised or "returns", "should": "raise (return statement expected)" if want_raise else "return the CFG"})
                    continue
                if want_raise:
                    continue
                problems = []
                got_live = {i for i, b in enumerate(bbs) if b.attrs["reachable"] is True}
                if got_live != live:
                    problems.append(f"reachable blocks {sorted(got_live)}, should be {sorted(live)}")
                succ = sorted((i, t.attrs["idx"]) for i, b in enumerate(bbs) for t in b.attrs["successors"])
                pred = sorted((s.attrs["idx"], i) for i, b in enumerate(bbs) for s in b.attrs["predecessors"])
                dsucc = sorted((i, t.attrs["idx"]) for i, b in enumerate(bbs) for t in b.attrs["dummy_successors"])
                dpred = sorted((s.attrs["idx"], i) for i, b in enumerate(bbs) for s in b.attrs["dummy_predecessors"])
                want_succ = sorted(e for e in all_edges if not (e[0] not in live and e[1] in live))
                want_dummy = sorted(e for e in dummies if e[1] not in live)
                if succ != want_succ:
                    problems.append(f"successor edges {succ}, should be {want_succ} (dead -> live pruned, everything else kept)")
                if pred != succ:
                    problems.append(f"predecessor lists {pred} do not mirror the successor lists {succ}")
                if dsucc != want_dummy:
                    problems.append(f"dummy edges {dsucc}, should be {want_dummy} (none into live blocks, the others kept)")
                if dpred != dsucc:
                    problems.append(f"dummy predecessor lists {dpred} do not mirror the dummy successor lists {dsucc}")
                if problems:
                    bad.append({**case, "problems": problems[:3]})
        except Unsupported as e:
            if not model_reach:
                continue  # the real update_reachable cannot be interpreted (set.pop on an unordered set): model it by its specification
            ctx.undecided("R-C08.4", key, bld.where, str(e))
            return False
        break
    ctx.check(not bad, "R-C08.4", key, bld.where, {"cases": n, "graphs": list(GRAPHS), "reachability": "modelled by its specification" if model_reach else "update_reachable interpreted",
                                                   "counterexamples": bad[:3], "n_counterexamples": len(bad)},
              "pruning jumps from unreachable into reachable code leaves successor/predecessor lists inconsistent")
    return True


def run(ctx: Ctx) -> tuple[bool, bool]:
    return run_visit_stmts(ctx), run_build(ctx)
