"""R-C15.1 (semantic form, decorator)  `@guppy.overload(v1, v2, ...)` registers the variants in the order they were given.

`_Guppy.overload` is interpreted from its syntax tree, the decorator it returns is applied to a function token, and the
`OverloadedFunctionDef` it constructs is a recorder.  Argument lists: every permutation of two and of three variant
definitions (ids chosen so that no sorting -- by id, by name, reversed -- reproduces all of them), and the same variant given
twice.
Decided: exactly one definition is constructed and it receives exactly the ids of the arguments, in argument order, duplicates
kept.  (Registration of the definition is C11's subject; what the decorator does with fewer than two arguments or with arguments
that are no function definitions is not part of the property.)
"""

from __future__ import annotations

import itertools

from ..absint.minieval import Unsupported
from ..absint.pyeval import PyEval, Raised, Tok
from ..report import Ctx


def run(ctx: Ctx) -> bool:
    idx = ctx.idx
    dec = idx.method("_Guppy", "overload", "guppylang.decorator")
    key = f"{dec.qualname}#variants-in-argument-order"
    a = dec.node.args
    if a.vararg is None or len(a.args) != 1:
        ctx.undecided("R-C15.1", key, dec.where, "overload is not `def overload(self, *funcs)`")
        return False

    def variant(i: str) -> Tok:
        wrapped = Tok(f"raw_{i}", __class__="RawFunctionDef", name=f"fn_{i}", description="function", __ident__=1)
        return Tok(f"def_{i}", __class__="GuppyFunctionDefinition", __bases__=("GuppyDefinition",), id=f"id_{i}", wrapped=wrapped, __ident__=1)

    names = ("m", "a", "z")
    lists = [list(p) for k in (2, 3) for p in itertools.permutations(names, k)] + [["m", "m"], ["z", "a", "z"]]
    bad = []
    n = 0
    try:
        for ids in lists:
            n += 1
            made: list = []
            registered: list = []

            def h_def(nd, e, env, made=made):
                vals = [e.ev(x, env) for x in nd.args]
                kws = {k.arg: e.ev(k.value, env) for k in nd.keywords if k.arg}
                made.append((vals, kws))
                return Tok("overloaded_def", __ident__=1)

            store = Tok("DEF_STORE", __methods__={"register_def": lambda r, a_, registered=registered: registered.append(a_[0])}, __ident__=1)
            funcs = tuple(variant(i) for i in ids)
            env = {
                a.args[0].arg: Tok("guppy", __classes__=dec.cls.mro(), __ident__=1), a.vararg.arg: funcs,
                "OverloadedFunctionDef": h_def, "DEF_STORE": store, "get_calling_frame": lambda nd, e, env: Tok("frame"),
                "DefId.fresh": lambda nd, e, env: Tok("fresh_id"), "FunctionType": lambda nd, e, env: Tok("dummy_sig"), "NoneType": lambda nd, e, env: Tok("none"),
                "GuppyFunctionDefinition": lambda nd, e, env: Tok("result", wraps=e.ev(nd.args[0], env), __ident__=1),
            }

            ev = PyEval(idx, "guppylang.decorator", max_depth=6)  # (AnyRawFunctionDef, a module-level tuple of classes, is folded by the evaluator)
            case = {"arguments": ids}
            try:
                out = ev.run(dec.node.body, env)
                if out[0] == "raise":
                    raise Raised(str(out[1]), str(out[1]))
                inner = out[1] if out[0] == "return" else None
                if not callable(inner):
                    raise Unsupported(f"overload returns {inner!r}")
                res = inner(Tok("user_function", __name__="combined", __ident__=1))
                raised = None
            except Raised as e:
                raised = e.cls or str(e)
                res = None
            if raised is not None:
                bad.append({**case, "problem": f"raises {raised}"})
                continue
            want = [f"id_{i}" for i in ids]
            got = [v for vals, kws in made for v in list(vals) + list(kws.values()) if isinstance(v, list)]
            problems = []
            if len(made) != 1 or got != [want]:
                problems.append(f"the definition is built with the variants {got}, should be {want}")
            if problems:
                bad.append({**case, "problems": problems})
    except Unsupported as e:
        ctx.undecided("R-C15.1", key, dec.where, str(e))
        return False
    ctx.check(not bad, "R-C15.1", key, dec.where, {"cases": n, "counterexamples": bad[:3], "n_counterexamples": len(bad)},
              "the order of variants in the definition is not the order given to @guppy.overload")
    return True
