"""R-C24.4 (per-block pass) / R-C24.8 (hidden positions)  what the unitary pass does with assignments, places and nested modifiers.

`BBUnitaryChecker` is interpreted as an `ast.NodeVisitor` (protocol supplied by the interpreter, helpers followed, flag arithmetic
on the folded enum) on token trees in which a recorder node `probe` -- standing for an arbitrary expression that is evaluated in
the enclosing context and may contain calls -- sits at a position that is NOT an AST child of the statement:

  assignment      `x = probe`, `x: T = probe`, `x += probe`, annotated assignment without a value
  place           x,  xs[probe],  xs[probe].a,  xs[probe][i],  xs[i][probe]   read as an expression
  target          xs[probe] = v,  xs[probe], y = v, w   (the index expression of an assignment target is evaluated as well)
  exempt call     barrier(probe),  state_result(tag, probe)
  modifier        with control(c0, probe): ...   /   with power(probe): ...    nested in the checked block

Specification, for every context flag set F:  an assignment or a subscripted place is rejected (GuppyError) iff Dagger is in F;
whenever the statement is not rejected and F is not empty the probe has been visited (so that the call visitors see the calls inside
it; under the empty flag set no call can be rejected, so nothing is demanded).
"""

from __future__ import annotations

import itertools

from ..absint.astmodel import N, VisitorEval, is_ast
from ..absint.flagabs import FlagDomain, FlagV
from ..absint.minieval import Unsupported
from ..absint.pyeval import Raised, Tok
from ..report import Ctx

UC = "guppylang_internals.checker.unitary_checker"


def _var(name="xs"):
    return Tok(f"var_{name}", __class__="Variable", __bases__=("Place",), name=name, __ident__=1)


def _sub(parent, item_expr, n):
    return Tok(f"sub{n}", __class__="SubscriptAccess", __bases__=("Place",), parent=parent, item_expr=item_expr, item=_var(f"%idx{n}"), getitem_call=None, setitem_call=None, __ident__=1)


def _field(parent):
    return Tok("field", __class__="FieldAccess", __bases__=("Place",), parent=parent, __ident__=1)


def _place_nodes(node) -> list:
    out = []
    if is_ast(node):
        if node.attrs["__class__"] == "PlaceNode":
            out.append(node)
        for f in node.attrs["_fields"]:
            v = node.attrs.get(f)
            for x in (v if isinstance(v, list) else [v]):
                out.extend(_place_nodes(x))
    return out


def _rightmost_subscript(place):
    while isinstance(place, Tok) and place.attrs.get("__class__") != "Variable":
        if place.attrs.get("__class__") == "SubscriptAccess":
            return place
        place = place.attrs.get("parent")
    return None


def run(ctx: Ctx, dom: FlagDomain) -> bool:
    idx = ctx.idx
    checker = idx.find_class("BBUnitaryChecker", UC)
    D = dom.members["Dagger"]
    visited: list = []

    def h_probe_visit(r, a):  # not used: probes are AST tokens of class `Probe`, recorded by the hook below
        return None

    hooks = {
        "get_type": lambda node, e, env: Tok("int_ty", has_qubit=False),
        "contain_qubit_ty": lambda node, e, env: False,
        "contains_subscript": lambda node, e, env: _rightmost_subscript(e.ev(node.args[0], env)),
        "find_nodes": lambda node, e, env: _place_nodes(e.ev(node.args[1], env)),
        "InvalidUnderDagger": lambda node, e, env: Tok("InvalidUnderDagger"),
        "UnsupportedError": lambda node, e, env: Tok("UnsupportedError"),
    }

    class Ev(VisitorEval):
        def visit_node(self, recv, n, env, generic=False):
            if is_ast(n) and n.attrs["__class__"] == "Probe":
                visited.append(n)
                return None
            return super().visit_node(recv, n, env, generic)

    def check(flags: FlagV, node: Tok):
        del visited[:]
        ev = Ev(idx, UC, flags=dom)
        self_tok = Tok("checker", flags=flags, __classes__=checker.mro(), __visitor__=True, __ident__=1)
        try:
            ev.visit_node(self_tok, node, dict(hooks))
        except Raised as e:
            return e.cls or str(e)
        return None

    def probe():
        return N("Probe", _order=())

    def pn(place):
        return N("PlaceNode", place=place, _order=())

    const = lambda: N("Constant", value=0, _order=())  # noqa: E731

    def cases():
        p = probe()
        yield "x = probe", "assignment", N("Assign", targets=[pn(_var("x"))], value=p, _order=("targets", "value")), p
        p = probe()
        yield "x: T = probe", "assignment", N("AnnAssign", target=pn(_var("x")), annotation=N("Name", id="T"), value=p, _order=("target", "annotation", "value")), p
        yield "x: T", "assignment", N("AnnAssign", target=pn(_var("x")), annotation=N("Name", id="T"), value=None, _order=("target", "annotation", "value")), None
        p = probe()
        yield "x += probe", "assignment", N("AugAssign", target=pn(_var("x")), op=N("Add", _order=()), value=p, _order=("target", "op", "value")), p
        yield "x (a variable read as an expression)", "plain place", N("Expr", value=pn(_var("x"))), None
        p = probe()
        yield "xs[probe]", "subscript", N("Expr", value=pn(_sub(_var(), p, 1))), p
        p = probe()
        yield "xs[probe].a", "subscript", N("Expr", value=pn(_field(_sub(_var(), p, 1)))), p
        p = probe()
        yield "xs[probe][0]", "subscript", N("Expr", value=pn(_sub(_sub(_var(), p, 1), const(), 2))), p
        p = probe()
        yield "xs[0][probe]", "subscript", N("Expr", value=pn(_sub(_sub(_var(), const(), 1), p, 2))), p
        p = probe()
        yield "xs[probe] = 0", "assignment", N("Assign", targets=[pn(_sub(_var(), p, 1))], value=const(), _order=("targets", "value")), p
        p = probe()
        yield "xs[probe], y = 0, 1", "assignment", N("Assign", targets=[N("Tuple", elts=[pn(_sub(_var(), p, 1)), pn(_var("y"))], _order=("elts",))],
                                                      value=N("Tuple", elts=[const(), const()], _order=("elts",)), _order=("targets", "value")), p
        p = probe()
        yield "barrier(probe)", "exempt call", N("Expr", value=N("BarrierExpr", args=[p], func_ty=Tok("barrier_ty"), _order=("args", "func_ty"))), p
        p = probe()
        yield "state_result(tag, probe)", "exempt call", N("Expr", value=N("StateResultExpr", tag_value=Tok("tag"), tag_expr=N("Constant", value="t", _order=()), args=[p], func_ty=Tok("sr_ty"),
                                                                              has_array_input=False, _order=("tag_value", "tag_expr", "args", "func_ty", "has_array_input"))), p
        for which in ("control", "power"):
            p = probe()
            # (the CFG builder creates `Control(call, call.args)`: the list of control arguments IS the argument list of the raw call, and
            #  the type checker replaces its elements in place; `Power(call, call.args[0])` keeps the checked argument only in `.iter`)
            shared = [pn(_var("c0")), p] if which == "control" else [p]  # (the probe is the SECOND control argument)
            raw = N("Call", func=N("Name", id=which), args=shared if which == "control" else [N("Name", id="unchecked_argument")], keywords=[], _order=("func", "args", "keywords"))
            ctrl = [Tok("Control", __class__="Control", ctrl=shared, __ident__=1)] if which == "control" else []
            powr = [Tok("Power", __class__="Power", iter=p, __ident__=1)] if which == "power" else []
            blk = N("CheckedModifiedBlock", items=[N("withitem", context_expr=raw, optional_vars=None, _order=("context_expr", "optional_vars"))], body=[],
                    control=ctrl, power=powr, dagger=[], _order=("items", "body"))
            yield f"with {which}(probe): ...", "modifier", blk, p

    bad_rej, bad_vis = [], []
    n = 0
    try:
        for F in dom.all_values():
            for text, kind, stmt, p in cases():
                n += 1
                got = check(F, stmt)
                want_reject = bool(F.bits & D) and kind in ("assignment", "subscript")
                if (got is not None) != want_reject or (want_reject and "GuppyError" not in str(got)):
                    bad_rej.append({"statement": text, "context_flags": F.bits, "outcome": got or "accepted", "should_be": "rejected (not allowed under dagger)" if want_reject else "accepted"})
                elif got is None and F.bits and p is not None and not any(v is p for v in visited):
                    bad_vis.append({"statement": text, "context_flags": F.bits, "probe_visited": False})
    except Unsupported as e:
        ctx.undecided("R-C24.4", f"{checker.qualname}#assignments-and-subscripts-rejected-iff-dagger", checker.where, str(e))
        return False
    ctx.check(not bad_rej, "R-C24.4", f"{checker.qualname}#assignments-and-subscripts-rejected-iff-dagger", checker.where,
              {"cases": n, "flag_bits": dom.members, "counterexamples": bad_rej[:4], "n_counterexamples": len(bad_rej)},
              "the per-block pass does not reject exactly the assignments / subscripted places of dagger contexts")
    groups = (("assigned-values-are-visited", ("x = probe", "x: T = probe", "x += probe"), "the assigned value of an assignment"),
              ("index-expressions-of-subscripts-are-visited", ("xs[probe]", "xs[probe].a", "xs[probe][0]", "xs[0][probe]", "xs[probe] = 0", "xs[probe], y = 0, 1"),
               "the index expression of a subscripted place or assignment target (stored in the place, not among the children of the node)"),
              ("arguments-of-nested-modifiers-are-visited", ("with control(probe): ...", "with power(probe): ..."),
               "the argument of a nested control/power modifier (evaluated in the enclosing context)"),
              ("arguments-of-exempt-builtins-are-visited", ("barrier(probe)", "state_result(tag, probe)"),
               "an argument expression of `barrier` / `state_result` (the builtins are exempt from the flag test, their arguments are not)"))
    for suffix, texts, what in groups:
        mine = [b for b in bad_vis if b["statement"] in texts]
        ctx.check(not mine, "R-C24.8", f"{checker.qualname}#{suffix}", checker.where,
                  {"cases": len(texts) * (len(dom.all_values()) - 1), "counterexamples": mine[:6], "n_counterexamples": len(mine)},
                  f"{what} is never visited by the unitary pass: a non-unitary call inside it escapes the flag check")
    return True
