"""R-C05.2 (derived table)  every operation the standard library binds that allocates or releases a qubit is in the side-effect list.

Read from the std sources, not frozen here: a function bound with `@hugr_op(quantum_op("X"[, ext=E]))` whose Guppy signature
  * returns a qubit (or option of a qubit) without taking one        -> X ALLOCATES,
  * takes `qubit @ owned` and returns no qubit                        -> X RELEASES (discard, destructive measurement)
changes the number of free qubits, so the compiler has to order it relative to the other such operations: the pair
(extension, X) must be among the elements of `EXTENSION_OPS_WITH_SIDE_EFFECTS`.  The list's elements are read as
(extension variable, operation name) pairs from the spellings `EXT.get_op("X").qualified_name()` and
`f"{EXT.name}.{op}" for op in (...)`; if the list contains an element of another shape and a needed pair is not found, the
instance is UNDECIDED, not violated.
"""

from __future__ import annotations

import ast

from ..index import call_name, dotted
from ..report import Ctx

CORE = "guppylang_internals.compiler.core"


def _list_pairs(lst: ast.expr):
    pairs, unknown = set(), []
    for el in getattr(lst, "elts", []):
        inner = el.value if isinstance(el, ast.Starred) else el
        # EXT.get_op("X").qualified_name()
        if isinstance(inner, ast.Call) and isinstance(inner.func, ast.Attribute) and inner.func.attr == "qualified_name" and isinstance(inner.func.value, ast.Call) \
                and isinstance(inner.func.value.func, ast.Attribute) and inner.func.value.func.attr == "get_op" and inner.func.value.args and isinstance(inner.func.value.args[0], ast.Constant):
            pairs.add((dotted(inner.func.value.func.value), inner.func.value.args[0].value))
            continue
        # (f"{EXT.name}.{op}" for op in ("A", "B"))
        if isinstance(inner, (ast.GeneratorExp, ast.ListComp)) and len(inner.generators) == 1 and isinstance(inner.elt, ast.JoinedStr) \
                and isinstance(inner.generators[0].iter, (ast.Tuple, ast.List)) and all(isinstance(c, ast.Constant) for c in inner.generators[0].iter.elts):
            exts = [dotted(v.value.value) for v in inner.elt.values if isinstance(v, ast.FormattedValue) and isinstance(v.value, ast.Attribute) and v.value.attr == "name"]
            if len(exts) == 1:
                pairs.update((exts[0], c.value) for c in inner.generators[0].iter.elts)
                continue
        # (op_def.qualified_name() for op_def in EXT.operations.values()): the whole extension
        if isinstance(inner, (ast.GeneratorExp, ast.ListComp)) and len(inner.generators) == 1 and ".operations" in ast.unparse(inner.generators[0].iter):
            pairs.add((dotted(inner.generators[0].iter.func.value.value) if isinstance(inner.generators[0].iter, ast.Call) else ast.unparse(inner.generators[0].iter), "*"))
            continue
        unknown.append(ast.unparse(el)[:60])
    return pairs, unknown


def _has_qubit(ann: ast.expr | None) -> bool:
    return ann is not None and "qubit" in {n.id for n in ast.walk(ann) if isinstance(n, ast.Name)} | {n.value for n in ast.walk(ann) if isinstance(n, ast.Constant) and isinstance(n.value, str)}


def run(ctx: Ctx) -> None:
    idx = ctx.idx
    lst = idx.module_constant(CORE, "EXTENSION_OPS_WITH_SIDE_EFFECTS")
    if lst is None:
        return
    have, unknown = _list_pairs(lst)
    # default extension of quantum_op
    qop = idx.opt_func("quantum_op", None)
    default_ext = "QUANTUM_EXTENSION"
    if qop is not None:
        a = qop.node.args
        names = [x.arg for x in a.args + a.kwonlyargs]
        defaults = dict(zip([x.arg for x in a.args][len(a.args) - len(a.defaults):], a.defaults)) | {k.arg: d for k, d in zip(a.kwonlyargs, a.kw_defaults) if d is not None}
        if "ext" in names and "ext" in defaults:
            default_ext = dotted(defaults["ext"]) or default_ext
    needed: dict = {}
    for m in idx.modules.values():
        if not m.name.startswith("guppylang.std"):
            continue
        for fn in ast.walk(m.tree):
            if not isinstance(fn, (ast.FunctionDef,)):
                continue
            for dec in fn.decorator_list:
                inner = dec.args[0] if isinstance(dec, ast.Call) and call_name(dec) == "hugr_op" and dec.args else None
                if not (isinstance(inner, ast.Call) and call_name(inner) == "quantum_op" and inner.args and isinstance(inner.args[0], ast.Constant)):
                    continue
                ext = next((dotted(k.value) for k in inner.keywords if k.arg == "ext"), default_ext)
                params = fn.args.posonlyargs + fn.args.args
                takes_owned = any(_has_qubit(p.annotation) and "owned" in ast.unparse(p.annotation) for p in params if p.annotation is not None)
                takes_any = any(_has_qubit(p.annotation) for p in params)
                gives = _has_qubit(fn.returns)
                kind = "allocates" if gives and not takes_any else ("releases" if takes_owned and not gives else None)
                if kind:
                    needed[(ext.split(".")[-1], inner.args[0].value)] = f"{kind} a qubit ({m.name}.{fn.name})"
    ctx.floor("R-C05.2", "std bindings that allocate or release a qubit", len(needed), 4)
    have_n = {(e.split(".")[-1], n) for e, n in have}
    missing = {k: v for k, v in needed.items() if k not in have_n and (k[0], "*") not in have_n}
    key = f"{CORE}.EXTENSION_OPS_WITH_SIDE_EFFECTS#every-bound-allocation-and-release"
    if missing and unknown:
        ctx.undecided("R-C05.2", key, idx.module(CORE).rel, f"elements of another shape in the list: {unknown[:3]}")
        return
    ctx.check(not missing, "R-C05.2", key, idx.module(CORE).rel,
              {"needed": {f"{e}.{n}": why for (e, n), why in sorted(needed.items())}, "missing": {f"{e}.{n}": why for (e, n), why in sorted(missing.items())}},
              "an operation that changes the number of free qubits gets no order edges: nothing keeps a following allocation behind a release / "
              "destructive measurement (more qubits live than the source ever holds), or two allocations in source order")
