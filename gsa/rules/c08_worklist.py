"""R-C08.5 (work list)  `check_cfg` type-checks every block it can reach over real AND never-taken edges -- interpreted.

"Ignoring branch condition values as Python does for scoping": statically dead code (`if False:`, code after `return`) hangs off
its block by a *dummy* successor edge and is still checked for undefined variables and path-dependent types.  `check_cfg` is
interpreted as a whole from its syntax tree on small model CFGs (the per-block checker, the row comparison and the later passes are
recorders; the work list is a real list) in which a dead block hangs off the entry block, off a block checked later, or off another
dead block.  Decided: every block reachable from the entry over successor or dummy-successor edges is handed to `check_bb` exactly
once, with the output row of the edge it was reached by, and every further edge into an already checked block is compared with
`check_rows_match`.
"""

from __future__ import annotations

from ..absint.minieval import Unsupported
from ..absint.pyeval import Deque as _Queue, PyEval, Raised, Tok
from ..report import Ctx

CC = "guppylang_internals.checker.cfg_checker"


def _models():
    def bb(name, reachable=True, is_exit=False):
        return Tok(name, idx=name, reachable=reachable, is_exit=is_exit, successors=[], dummy_successors=[], __ident__=1)

    # 1: dead code off a block that is checked later (`if b: pass` in front of `if False: ...`)
    e, a, d, j, x = bb("entry"), bb("a"), bb("dead", False), bb("join"), bb("exit", is_exit=True)
    e.attrs["successors"] = [a]
    a.attrs["successors"], a.attrs["dummy_successors"] = [j], [d]
    d.attrs["successors"] = [j]
    j.attrs["successors"] = [x]
    yield "dead block hangs off a block checked after the entry block", [e, a, d, j, x]
    # 2: dead code off the entry block
    e, d, j, x = bb("entry"), bb("dead", False), bb("join"), bb("exit", is_exit=True)
    e.attrs["successors"], e.attrs["dummy_successors"] = [j], [d]
    d.attrs["successors"] = [j]
    j.attrs["successors"] = [x]
    yield "dead block hangs off the entry block", [e, d, j, x]
    # 3: dead code after dead code (`return` twice)
    e, d1, d2, x = bb("entry"), bb("dead1", False), bb("dead2", False), bb("exit", is_exit=True)
    e.attrs["successors"], e.attrs["dummy_successors"] = [x], [d1]
    d1.attrs["successors"], d1.attrs["dummy_successors"] = [x], [d2]
    d2.attrs["successors"] = [x]
    yield "dead block hangs off another dead block", [e, d1, d2, x]
    # 4: two live branches and a dead one in the second
    e, a, b2, d, x = bb("entry"), bb("then"), bb("else"), bb("dead", False), bb("exit", is_exit=True)
    e.attrs["successors"] = [b2, a]
    a.attrs["successors"] = [x]
    b2.attrs["successors"], b2.attrs["dummy_successors"] = [x], [d]
    d.attrs["successors"] = [x]
    yield "dead block hangs off one arm of a branch", [e, a, b2, d, x]


def run(ctx: Ctx) -> bool:
    idx = ctx.idx
    f = idx.find_func("check_cfg", CC)
    key = f"{f.qualname}#every-block-over-real-and-dummy-edges-is-checked"
    ps = [a.arg for a in f.node.args.args]
    bad = []
    n = 0
    try:
        for title, blocks in _models():
            n += 1
            checked: list = []
            matched: list = []
            entry, exit_ = blocks[0], blocks[-1]

            def h_check_bb(node, e, env, checked=checked):
                vals = [e.ev(a, env) for a in node.args]
                b, row = vals[0], vals[2]
                checked.append((b.name, getattr(row, "name", row) if not isinstance(row, list) else "inputs"))
                sig = Tok(f"sig({b.name})", input_row=row, output_rows=[Tok(f"row({b.name}->{s.name})", __ident__=1) for s in b.attrs["successors"]],
                          dummy_output_rows=[Tok(f"row({b.name}~>{s.name})", __ident__=1) for s in b.attrs["dummy_successors"]], __ident__=1)
                return Tok(f"checked({b.name})", sig=sig, successors=[None] * len(b.attrs["successors"]), predecessors=[], reachable=b.attrs["reachable"], __ident__=1)

            def h_rows_match(node, e, env, matched=matched):
                vals = [e.ev(a, env) for a in node.args]
                matched.append((getattr(vals[0], "name", "?"), vals[2].name))

            cfg = Tok("cfg", bbs=blocks, entry_bb=entry, exit_bb=exit_, unitary_flags=Tok("flags"), live_before={b: {} for b in blocks}, ass_before={b: set() for b in blocks},
                      maybe_ass_before={b: set() for b in blocks}, __methods__={"analyze": lambda r, a: None}, __ident__=1)
            env = {ps[0]: cfg, ps[1]: [], ps[2]: Tok("return_ty"), ps[3]: {}, ps[4]: "f", ps[5]: Tok("globals"),
                   "check_bb": h_check_bb, "check_rows_match": h_rows_match,
                   "CheckedCFG": lambda node, e, env: Tok("checked_cfg", __ident__=1),
                   "CheckedBB": lambda node, e, env: Tok("checked(exit, not visited)", sig=Tok("sig"), successors=[], predecessors=[], __ident__=1),
                   "Signature": lambda node, e, env: Tok("signature"),
                   "collections.deque": lambda node, e, env: _Queue(e.ev(node.args[0], env)) if node.args else _Queue(),
                   "reverse_enumerate": lambda node, e, env: list(reversed(list(enumerate(e.ev(node.args[0], env))))),
                   "check_cfg_linearity": lambda node, e, env: Tok("linearity_checked_cfg"), "check_cfg_unitary": lambda node, e, env: None}
            ev = PyEval(idx, CC, max_depth=4)
            try:
                out = ev.run(f.node.body, env)
                raised = str(out[1]) if out[0] == "raise" else None
            except Raised as e:
                raised = e.cls or str(e)
            # expectation: blocks reachable over both kinds of edges
            reach, todo = [], [entry]
            while todo:
                b = todo.pop()
                if b.name not in reach:
                    reach.append(b.name)
                    todo += b.attrs["successors"] + b.attrs["dummy_successors"]
            n_edges = sum(len(b.attrs["successors"]) + len(b.attrs["dummy_successors"]) for b in blocks if b.name in reach)
            names = [c[0] for c in checked]
            problems = []
            if raised:
                problems.append(f"raises {raised}")
            if sorted(names) != sorted(reach):
                problems.append(f"blocks handed to check_bb: {names}; reachable over real and dummy edges: {sorted(reach)}")
            for b_name, row in checked:
                if b_name != entry.name and not (str(row).startswith("row(") and str(row).endswith(f">{b_name})")):
                    problems.append(f"block {b_name} is checked with {row}, not with the output row of an edge into it")
            if not problems and len(matched) != n_edges - (len(reach) - 1):
                problems.append(f"{len(matched)} edges into already checked blocks compared, expected {n_edges - (len(reach) - 1)}")
            if problems:
                bad.append({"cfg": title, "problems": problems})
    except Unsupported as e:
        ctx.undecided("R-C08.5", key, f.where, str(e))
        return False
    ctx.check(not bad, "R-C08.5", key, f.where, {"model_cfgs": n, "counterexamples": bad[:4]},
              "statically dead code (`if False:`, code after `return`) is type-checked only when it hangs off the entry block: elsewhere a "
              "variable with path-dependent types -- or any type error -- inside it goes unnoticed")
    return True
