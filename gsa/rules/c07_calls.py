"""R-C07.1 (semantic form)  every call compiler hands the callee's extra outputs to the write-back, after the call.

`ExprCompiler.visit_LocalCall`, `.visit_GlobalCall`, `.visit_TensorCall` (with `_compile_tensor_with_leftovers`) and
`.visit_BarrierExpr` are interpreted from their syntax trees (helpers followed) on calls whose function types have 0..2 inputs
over {owned, borrowed} and 0 or 1 regular results; the HUGR builder, the compiled definition, argument compilation
(`self.visit`) and the write-back itself (`_update_inout_ports`, whose own behaviour is R-C07.2) are recorders with an event
log.

Decided, per call (per tensor element): the write-back is invoked exactly once, after the call operation was added, with the
call's own argument nodes, the call's outputs *after* the regular results (in order) and the call's function type; the value
returned packs exactly the regular results.
"""

from __future__ import annotations

import itertools

from ..absint.astmodel import N
from ..absint.minieval import Unsupported
from ..absint.pyeval import PyEval, PyIter, Raised, Tok
from ..index import dotted
from ..report import Ctx

EC = "guppylang_internals.compiler.expr_compiler"


class FlagNameEval(PyEval):
    def attr(self, value, name, node, env):
        d = dotted(node)
        if d and d.split(".")[-2:-1] == ["InputFlags"]:
            return f"InputFlags.{name}"
        return super().attr(value, name, node, env)


def _fn_ty(kinds, r, tag):
    inputs = [Tok(f"{tag}.inp{i}", flags={"InputFlags.Inout"} if k == "borrowed" else set(), ty=Tok(f"{tag}.in_ty{i}"), __ident__=1) for i, k in enumerate(kinds)]
    t = Tok(f"{tag}.fn_ty", __class__="FunctionType", inputs=inputs, output=Tok(f"{tag}.out_ty", __row__=r, __ident__=1), __ident__=1)
    t.attrs["__methods__"] = {"to_hugr": lambda rcv, a: Tok("hugr_fn_ty"), "instantiate": lambda rcv, a: rcv}
    return t


def run(ctx: Ctx) -> bool:
    idx = ctx.idx
    comp = idx.find_class("ExprCompiler", EC)
    decided = True
    shapes = [(kinds, r) for n in range(0, 3) for kinds in itertools.product(("owned", "borrowed"), repeat=n) for r in (0, 1)]

    def world():
        log: list = []
        counter = [0]

        def outputs(k, what):
            counter[0] += 1
            c = counter[0]
            log.append(("call", what, c))
            return [Tok(f"call{c}.out{j}", __ident__=1) for j in range(k)]

        def m_update(rcv, a):
            ports = a[1].items if isinstance(a[1], PyIter) else a[1]
            log.append(("write-back", list(a[0]), list(ports) if isinstance(ports, (list, tuple)) else ports, a[2]))
            return None

        self_tok = Tok("compiler", __classes__=comp.mro(), __ident__=1)
        self_tok.attrs["__methods__"] = {
            "visit": lambda rcv, a: Tok(f"wire({a[0].name})", __ident__=1),
            "_update_inout_ports": m_update,
            "_pack_returns": lambda rcv, a: ("packed", list(a[0])),
        }
        return self_tok, log, outputs

    hooks = {
        "get_type": lambda node, e, env: e.ev(node.args[0], env).attrs["__type__"],
        "type_to_row": lambda node, e, env: [Tok("row_elem")] * e.ev(node.args[0], env).attrs["__row__"],
    }

    def judge(log, expected_calls, result, want_regular):
        """expected_calls: [(argument nodes, function type, number of regular results, number of borrowed)]"""
        problems = []
        calls = [x for x in log if x[0] == "call"]
        wbs = [x for x in log if x[0] == "write-back"]
        if len(calls) != len(expected_calls) or len(wbs) != len(expected_calls):
            problems.append(f"{len(calls)} call operations and {len(wbs)} write-backs for {len(expected_calls)} calls")
            return problems
        order = [x[0] for x in log]
        if order != ["call", "write-back"] * len(expected_calls):
            problems.append(f"order of events {order}")
        for (_, _, c), wb, (args, fty, r, k) in zip(calls, wbs, expected_calls):
            want_ports = [f"call{c}.out{j}" for j in range(r, r + k)]
            if [a.name for a in wb[1]] != [a.name for a in args]:
                problems.append("write-back gets other argument nodes than the call's own")
            got_ports = [p.name for p in wb[2]] if isinstance(wb[2], list) and all(isinstance(p, Tok) for p in wb[2]) else repr(wb[2])
            if got_ports != want_ports:
                problems.append(f"write-back gets ports {got_ports}, the callee's extra outputs are {want_ports}")
            if wb[3] is not fty:
                problems.append("write-back gets another function type than the call's")
        if want_regular is not None:
            got = [p.name for p in result[1]] if isinstance(result, tuple) and result and result[0] == "packed" else repr(result)
            if got != want_regular:
                problems.append(f"returns {got}, the regular results are {want_regular}")
        return problems

    def interpret(meth, self_tok, node):
        f = comp.find_method(meth)
        ps = [a.arg for a in f.node.args.args]
        ev = FlagNameEval(idx, EC, max_depth=10)
        out = ev.run(f.node.body, {ps[0]: self_tok, ps[1]: node, **hooks})
        if out[0] == "raise":
            raise Raised(str(out[1]), str(out[1]))
        return out[1] if out[0] == "return" else None

    for kind in ("LocalCall", "GlobalCall", "TensorCall", "BarrierExpr"):
        meth = f"visit_{kind}"
        f = comp.find_method(meth)
        if f is None:
            ctx.undecided("R-C07.1", f"{comp.qualname}.{meth}#write-back-after-call", comp.where, "visitor not found")
            decided = False
            continue
        key = f"{f.qualname}#write-back-after-call"
        bad = []
        n = 0
        try:
            cases = shapes if kind != "TensorCall" else [(a, b) for a in shapes[::2] for b in shapes[1::3]]
            for case in cases:
                n += 1
                self_tok, log, outputs = world()
                if kind == "TensorCall":
                    (k1, r1), (k2, r2) = case
                    t1, t2 = _fn_ty(k1, r1, "f"), _fn_ty(k2, r2, "g")
                    args = [N("Name", id=f"a{i}") for i in range(len(k1) + len(k2))]
                    tup = Tok("tuple_ty", __class__="TupleType", element_types=[t1, t2], __ident__=1)
                    node = N("TensorCall", func=N("Name", id="fs", __type__=tup), args=args, tensor_ty=Tok("tensor_ty", output=Tok("tensor_out", __row__=r1 + r2)), _order=("func", "args"))
                    self_tok.attrs["__methods__"]["_unpack_tuple"] = lambda rcv, a: [Tok(f"fn_wire{i}", __ident__=1) for i in range(len(a[1]))]
                    self_tok.attrs["builder"] = Tok("builder", __methods__={"add_op": lambda rcv, a: None}, __ident__=1)
                    exp = [(args[:len(k1)], t1, r1, k1.count("borrowed")), (args[len(k1):], t2, r2, k2.count("borrowed"))]
                    tys = {id(t1): (r1, k1), id(t2): (r2, k2)}
                    pending = [t1, t2]
                    self_tok.attrs["builder"].attrs["__methods__"]["add_op"] = lambda rcv, a, pending=pending, tys=tys: outputs(
                        tys[id(pending[0])][0] + tys[id(pending.pop(0))][1].count("borrowed"), "CallIndirect")
                    res = interpret(meth, self_tok, node)
                    c_ids = [x[2] for x in log if x[0] == "call"]
                    want_regular = [f"call{c}.out{j}" for c, (_, _, r, _) in zip(c_ids, exp) for j in range(r)] if len(c_ids) == 2 else None
                    problems = judge(log, exp, res, want_regular)
                else:
                    kinds, r = case
                    fty = _fn_ty(kinds, r, "f")
                    args = [N("Name", id=f"a{i}", __type__=Tok(f"arg_ty{i}", __methods__={"to_hugr": lambda rcv, a: Tok("hugr_ty")})) for i in range(len(kinds))]
                    k = kinds.count("borrowed")
                    self_tok.attrs["builder"] = Tok("builder", __methods__={"add_op": lambda rcv, a, r=r, k=k: outputs(r + k, "add_op")}, __ident__=1)
                    if kind == "LocalCall":
                        node = N("LocalCall", func=N("Name", id="fn", __type__=fty), args=args, _order=("func", "args"))
                    elif kind == "GlobalCall":
                        def compile_call(rcv, a, r=r, k=k):
                            outs = outputs(r + k, "compile_call")
                            return Tok("call_return_wires", regular_returns=outs[:r], inout_returns=outs[r:])
                        cdef = Tok("compiled_def", __class__="CompiledCallableDef", ty=fty, has_signature=True, __methods__={"compile_call": compile_call}, __ident__=1)
                        self_tok.attrs["ctx"] = Tok("ctx", __methods__={"build_compiled_def": lambda rcv, a, cdef=cdef: (cdef, [])}, __ident__=1)
                        self_tok.attrs["dfg"] = Tok("dfg", __ident__=1)
                        node = N("GlobalCall", def_id=Tok("def_id"), type_args=[], args=args, __type__=Tok("ret_ty"), _order=("args",))
                    else:
                        if r:
                            continue  # a barrier has no regular results
                        # a barrier hands every argument back: all inputs count as borrowed
                        fty = _fn_ty(("borrowed",) * len(kinds), 0, "barrier")
                        k = len(kinds)
                        self_tok.attrs["builder"] = Tok("builder", __methods__={"add_op": lambda rcv, a, k=k: outputs(k, "add_op")}, __ident__=1)
                        self_tok.attrs["ctx"] = Tok("ctx", __ident__=1)
                        node = N("BarrierExpr", args=args, func_ty=fty, _order=("args",))
                    res = interpret(meth, self_tok, node)
                    c_ids = [x[2] for x in log if x[0] == "call"]
                    want_regular = [f"call{c_ids[0]}.out{j}" for j in range(r)] if len(c_ids) == 1 and kind != "BarrierExpr" else ([] if kind == "BarrierExpr" else None)
                    problems = judge(log, [(args, fty, 0 if kind == "BarrierExpr" else r, k)], res, want_regular)
                if problems:
                    bad.append({"call": kind, "shape": repr(case)[:120], "problems": problems[:3]})
        except Unsupported as e:
            ctx.undecided("R-C07.1", key, f.where, str(e))
            decided = False
            continue
        except Raised as e:
            bad.append({"call": kind, "problem": f"raises {e.cls or e}"})
        ctx.check(not bad, "R-C07.1", key, f.where, {"cases": n, "counterexamples": bad[:3], "n_counterexamples": len(bad)},
                  "after this kind of call the caller keeps using the pre-call wires of its borrowed arguments: the callee's in-place updates are lost")
    return decided
