"""R-C06.2 (semantic form, nested definitions)  `def q(): ...` binds a name like an assignment -- `visit_CheckedNestedFunctionDef`, interpreted.

`BBLinearityChecker.visit_CheckedNestedFunctionDef` is interpreted as a whole from its syntax tree with the real `Scope` methods on a
nested definition without captures whose name `q` is, in the current block,
  unbound / bound to a droppable value / bound to an unused non-droppable value / bound to a non-droppable value that was already
  consumed / the function's own borrowed argument.
Specification: rejected (GuppyError) iff the name holds an unused non-droppable value or is a borrowed argument -- the value would be
silently discarded (or the function value handed back to the caller in its place); otherwise accepted, and afterwards the name is
bound to the function value and counts as unused.
"""

from __future__ import annotations

from ..absint.minieval import Unsupported
from ..absint.pyeval import Raised, Tok
from ..report import Ctx
from .c06_aggregate import LC
from .c06_place import FlagEval

CASES = ("unbound", "droppable value", "unused non-droppable value", "consumed non-droppable value", "borrowed argument")


def run(ctx: Ctx) -> bool:
    idx = ctx.idx
    chk = idx.find_class("BBLinearityChecker", LC)
    scope_cls = idx.find_class("Scope", LC)
    f = chk.find_method("visit_CheckedNestedFunctionDef")
    key = f"{chk.qualname}.visit_CheckedNestedFunctionDef#binding-the-name-never-discards-a-live-value"
    if f is None:
        ctx.undecided("R-C06.2", key, chk.where, "no visitor for nested function definitions")
        return False
    ps = [a.arg for a in f.node.args.args]
    bad = []
    try:
        for case in CASES:
            droppable = case in ("droppable value",)
            ty = Tok("old_ty", copyable=False, droppable=droppable, __ident__=1)
            borrowed = case == "borrowed argument"
            old = Tok("old_q", __class__="Variable", id="q", name="q", ty=ty, defined_at=Tok("def_q"), flags={"InputFlags.Inout"} if borrowed else set(), __ident__=1)
            earlier = Tok("earlier_use", node=Tok("earlier_node"), kind="UseKind.CONSUME", __truth__=True)
            own = {} if case == "unbound" else {"q": old}
            scope = Tok("scope", __classes__=scope_cls.mro(), vars=dict(own), parent_scope=None, used_local={"q": earlier} if case == "consumed non-droppable value" else {}, used_parent={}, __ident__=1)
            fty = Tok("function_ty", copyable=True, droppable=True, __ident__=1)
            node = Tok("nested_def", __class__="CheckedNestedFunctionDef", name="q", ty=fty, captured={}, __ident__=1)
            me = Tok("checker", scope=scope, __classes__=chk.mro(), func_inputs={"q": old} if borrowed else {}, func_name="caller", __ident__=1)

            def mk_err(name):
                return lambda nd, e, env: Tok(name, __methods__={"add_sub_diagnostic": lambda r, a: None})

            def h_variable(nd, e, env):
                vals = [e.ev(a, env) for a in nd.args]
                return Tok("function_var", __class__="Variable", id=vals[0], name=vals[0], ty=vals[1], defined_at=vals[2] if len(vals) > 2 else None, flags=set(), __ident__=1)

            def h_place_node(nd, e, env):
                kws = {k.arg: e.ev(k.value, env) for k in nd.keywords if k.arg}
                pl = kws.get("place", e.ev(nd.args[0], env) if nd.args else None)
                return Tok("name_target", __class__="PlaceNode", place=pl, __ident__=1)

            env = {ps[0]: me, ps[1]: node, "Variable": h_variable, "leaf_places": lambda nd, e, env: [e.ev(nd.args[0], env)],
                   "PlaceNode": h_place_node, "with_loc": lambda nd, e, env: e.ev(nd.args[1], env), "contains_subscript": lambda nd, e, env: None,
                   # find_nodes(pred, target): the place nodes inside the target -- the target itself
                   "find_nodes": lambda nd, e, env: [e.ev(nd.args[1], env)],
                   **{nm: mk_err(nm) for nm in ("NonCopyableCaptureError", "PlaceNotUsedError", "BorrowShadowedError")}}
            ev = FlagEval(idx, LC, max_depth=10)
            try:
                out = ev.run(f.node.body, env)
                raised = str(out[1]) if out[0] == "raise" else None
            except Raised as e:
                raised = e.cls or str(e)
            want_reject = case in ("unused non-droppable value", "borrowed argument")
            if (raised is not None) != want_reject or (want_reject and "GuppyError" not in str(raised)):
                bad.append({"name_holds": case, "outcome": f"rejected ({raised})" if raised else "accepted",
                            "should_be": "rejected (the value would be discarded silently)" if want_reject else "accepted"})
                continue
            if not want_reject:
                now = scope.attrs["vars"].get("q")
                if not (isinstance(now, Tok) and now.attrs.get("ty") is fty) or scope.attrs["used_local"].get("q") is not None:
                    bad.append({"name_holds": case, "bound_afterwards": repr(now), "recorded_use": repr(scope.attrs["used_local"].get("q")),
                                "should_be": "the name is bound to the function value and counts as unused"})
    except Unsupported as e:
        ctx.undecided("R-C06.2", key, f.where, str(e))
        return False
    ctx.check(not bad, "R-C06.2", key, f.where, {"cases": len(CASES), "counterexamples": bad},
              "`def q(): ...` over a live qubit `q` of the same block is accepted: the qubit is silently discarded (over a borrowed argument "
              "the function value is handed back to the caller in the qubit's place)")
    return True
