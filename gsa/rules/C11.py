"""C11 compiling a definition does not depend on session history -- "no hidden session
writes" clause.

R-C11.1  every write to state that outlives one check/compile call is enumerated and must be
         in the reviewed table (one reason each):
         (a) user namespaces (frame locals/globals, __globals__, __dict__),
         (b) `global` rebinding inside functions,
         (c) the DEF_STORE / ENGINE singletons,
         (d) module- and class-level mutable objects (counters, registries),
         (e) memoising decorators (functools.cache / lru_cache).
R-C11.2  every compile re-checks from scratch: `compile` calls `check` first, `check` calls
         `reset` first, a fresh CompilerContext and hugr Module are built per call.
R-C11.3  compile-phase mutation of checked objects is guarded against happening twice.
R-C11.4  context managers that set process-wide state restore it in a `finally`
         (reviewed exceptions listed with their reason).
R-C11.5  registrations into DEF_STORE are not conditional on what the store (or an engine cache)
         already holds (c11_store_guards.py, below).
R-C11.6  generated names (`%tmp<i>` from a session-wide counter) keep their creation order wherever names are ordered:
         `sort_vars` interpreted on pairs of temporaries below and across a power of ten (c11_tmporder.py).
Not decided: that two runs produce equal HUGRs (needs running the compiler).
"""

from __future__ import annotations

import ast

from ..flow import CFG, calls_any, in_finally, node_calls
from ..index import AnalysisError, FuncInfo, call_name, calls_in, dotted, walk_no_nested
from ..report import Ctx
from .C23 import ns_writes

LEVEL = "other"
EXPLANATION = (
    "MOD-style enumeration: every syntactic write to session-persistent or user-owned state in both packages "
    "(namespace dictionaries, global rebinding, the two singletons, module/class-level mutable objects, memo "
    "decorators) is listed and compared with a reviewed allow-table keyed by the writing function; a new writer or a "
    "vanished reviewed one changes the verdict. Plus must-call ordering (reset before check, check before compile) and "
    "guardedness of the compile-phase mutations of checked objects."
)

PKGS = ("guppylang_internals", "guppylang")

# ---- reviewed writers ------------------------------------------------------------------
NS_ALLOWED = {
    "guppylang_internals.tracing.builtins_mock.mock_builtins": "paired save/restore in finally (decided by C23 R-C23.1)",
}
GLOBAL_ALLOWED = {
    "guppylang_internals.experimental.enable_experimental_features.__init__": "gate flag, paired restore (C33 R-C33.3)",
    "guppylang_internals.experimental.enable_experimental_features.__exit__": "gate flag restore (C33)",
    "guppylang_internals.experimental.disable_experimental_features.__init__": "gate flag, paired restore (C33)",
    "guppylang_internals.experimental.disable_experimental_features.__exit__": "gate flag restore (C33)",
}
# writers of DEF_STORE / ENGINE outside their own classes: function -> reason
SINGLETON_ALLOWED = {
    "decoration": "registration when a decorator runs (definition time), keyed by a fresh DefId; never during check/compile of another definition",
    "guppylang_internals.engine.CompilationEngine.get_checked": "re-registers the generated methods of a checked struct: overwrite keyed by struct id + method name with a freshly generated equivalent",
    "guppylang_internals.checker.func_checker.check_nested_func_def": "recursive nested function: registered under a fresh DefId that is not reachable by name from other definitions; ENGINE.parsed is cleared by reset()",
    "guppylang_internals.definition.struct.ParsedStructDef.check": "?",
}
COUNTERS_REASON = "pure counter that only numbers generated names/ids; the property is stated up to that numbering"
CACHE_ALLOWED = {
    "guppylang_internals.checker.core.Globals.builtin_defs": "zero-argument: value is a function of the imported std library only",
    "guppylang_internals.tys.qubit.qubit_ty": "zero-argument: the qubit type of the std library",
}
RESTORE_EXCEPTIONS = {
    "guppylang_internals.error.exception_hook": "deliberate: when the body raises, the custom excepthook must still be installed when the uncaught error reaches sys.excepthook (that is how the pretty banner is printed); it affects how later uncaught exceptions print, not what check/compile produce",
}


def decoration_time(f: FuncInfo) -> bool:
    m = f.module.name
    return m in ("guppylang.decorator", "guppylang_internals.decorator", "guppylang.std.quantum", "guppylang.std.builtins") or m.startswith("guppylang.std") \
        or f.qualname.startswith("guppylang_internals.engine.DefinitionStore.") or m == "guppylang_internals.std._internal.util"


def run(ctx: Ctx) -> None:
    idx = ctx.idx
    from . import c11_tmporder
    c11_tmporder.run(ctx)
    funcs = list(idx.iter_funcs(PKGS))
    ctx.floor("R-C11.1", "functions scanned", len(funcs), 1200)

    # ------------------------------------------------------------ (a) user namespaces
    seen_allowed = set()
    for f in funcs:
        ws = ns_writes(f.node)
        if not ws:
            continue
        if f.qualname in NS_ALLOWED or f.module.name == "guppylang_internals.tracing.builtins_mock":
            seen_allowed.add(f.qualname)
            ctx.ok("R-C11.1", f"{f.qualname}#namespace-write", f.where, {"allowed": NS_ALLOWED.get(f.qualname, "helper of mock_builtins: the save/restore pair is decided as a whole by R-C23.1")})
            continue
        for n, attr in ws:
            ctx.violation("R-C11.1", f"{f.qualname}#writes-{attr}", f"{f.module.rel}:{n.lineno}", {"statement": ast.unparse(n)[:90], "through": attr},
                          "checking/compiling writes into a namespace the user owns (module globals / frame locals): a later check of another "
                          "definition resolves names differently than it would in a fresh session")
    if set(NS_ALLOWED) - seen_allowed:
        # a reviewed writer that no longer writes (or writes through a helper of its own module) is not a problem
        ctx.note(f"R-C11.1: reviewed namespace writers that no longer write directly: {sorted(set(NS_ALLOWED) - seen_allowed)}")

    # ------------------------------------------------------------ (b) global rebinding
    for f in funcs:
        gl = [n for n in walk_no_nested(f.node) if isinstance(n, ast.Global)]
        if not gl:
            continue
        names = {x for g in gl for x in g.names}
        stores = [n for n in walk_no_nested(f.node) if isinstance(n, ast.Name) and n.id in names and isinstance(n.ctx, ast.Store)]
        if not stores:
            continue
        reviewed = GLOBAL_ALLOWED.get(f.qualname)
        if reviewed is None and names == {"EXPERIMENTAL_FEATURES_ENABLED"}:
            # the gate flag: any writer that is part of the enable/disable switch protocol (C33 R-C33.3 interprets that protocol
            # with all of its helpers: set on construction, previous value restored on exit)
            from . import c33_semantic
            _w, _allowed = c33_semantic.flag_writers(idx)
            if f.qualname in _allowed:
                reviewed = "gate flag, written only as part of the paired switch protocol (C33 R-C33.3)"
        ctx.check(reviewed is not None, "R-C11.1", f"{f.qualname}#rebinds-global({','.join(sorted(names))})", f.where,
                  {"globals": sorted(names), "reviewed": reviewed},
                  "a module global is rebound at run time outside the reviewed places: it persists for the rest of the session")

    # ------------------------------------------------------------ (c) singletons
    n_sing = 0
    for f in funcs:
        if f.cls is not None and f.cls.name == "DefinitionStore":
            continue  # the store's own methods; their *callers* are what is enumerated
        hits = []
        for n in walk_no_nested(f.node):
            if isinstance(n, ast.Call) and isinstance(n.func, ast.Attribute):
                d = dotted(n.func)
                if d.startswith(("DEF_STORE.register_", "DEF_STORE.sources.add_file", "ENGINE.register_extension")):
                    hits.append((n, d))
                if d.startswith(("DEF_STORE.", "ENGINE.")) and n.func.attr in ("append", "update", "pop", "setdefault", "clear", "add") and d.count(".") >= 2:
                    hits.append((n, d))
            tg = n.targets if isinstance(n, ast.Assign) else ([n.target] if isinstance(n, (ast.AugAssign, ast.AnnAssign)) else [])
            for t in tg:
                base = t.value if isinstance(t, ast.Subscript) else t
                if isinstance(base, ast.Attribute) and dotted(base).startswith(("DEF_STORE.", "ENGINE.")):
                    hits.append((n, ast.unparse(t)))
        for n, what in hits:
            n_sing += 1
            reason = SINGLETON_ALLOWED["decoration"] if decoration_time(f) else SINGLETON_ALLOWED.get(f.qualname)
            ctx.check(bool(reason) and reason != "?", "R-C11.1", f"{f.qualname}#writes-{what.split('(')[0]}", f"{f.module.rel}:{n.lineno}",
                      {"write": ast.unparse(n)[:90], "reviewed": reason},
                      "the session-wide definition store / engine is modified while checking or compiling: the outcome for another definition can "
                      "depend on what was processed before")
    ctx.floor("R-C11.1", "singleton write sites", n_sing, 15)

    # ------------------------------------------------------------ (d) module / class level mutable objects
    n_state = 0
    # one pass over all functions: candidate mutation sites keyed by the last name component of the mutated object
    sites: dict[str, list] = {}
    for f in funcs:
        for n in walk_no_nested(f.node):
            if isinstance(n, ast.Call) and call_name(n) == "next" and n.args and dotted(n.args[0]):
                sites.setdefault(dotted(n.args[0]).split(".")[-1], []).append((f, n, "next()", dotted(n.args[0])))
            elif isinstance(n, ast.Call) and isinstance(n.func, ast.Attribute) and n.func.attr in ("append", "extend", "update", "add", "pop", "clear", "setdefault", "insert", "remove") \
                    and dotted(n.func.value):
                sites.setdefault(dotted(n.func.value).split(".")[-1], []).append((f, n, f".{n.func.attr}()", dotted(n.func.value)))
            elif isinstance(n, ast.Assign):
                for t in n.targets:
                    if isinstance(t, ast.Subscript) and dotted(t.value):
                        sites.setdefault(dotted(t.value).split(".")[-1], []).append((f, n, "item store", dotted(t.value)))
    for m in idx.modules.values():
        if not m.name.startswith(PKGS):
            continue
        cands = {}
        for st in m.tree.body:
            tgt = st.targets[0] if isinstance(st, ast.Assign) and len(st.targets) == 1 else (st.target if isinstance(st, ast.AnnAssign) else None)
            v = getattr(st, "value", None)
            if isinstance(tgt, ast.Name) and v is not None and _mutable_ctor(v):
                cands[tgt.id] = v
        for c in [c for c in idx.classes.values() if c.module is m]:
            for st in c.node.body:
                if isinstance(st, ast.AnnAssign) and isinstance(st.target, ast.Name) and st.value is not None and "ClassVar" in ast.unparse(st.annotation) and _mutable_ctor(st.value):
                    cands[f"{c.name}.{st.target.id}"] = st.value
        if not cands:
            continue
        for name, v in cands.items():
            short = name.split(".")[-1]
            muts = []
            for f, n, how, full in sites.get(short, []):
                # the object itself (bare module-level name / Class.attr / cls.attr), not an instance attribute or a local
                via_self = False
                if full == f"self.{short}" and "." in name and f.cls is not None:
                    # `self.X[...] = v` / `self.X.append(v)` inside a method: X is the CLASS-level object unless some method gives
                    # instances their own `self.X = ...`
                    owner = next((c_ for c_ in f.cls.mro() if c_.name == name.split(".")[0] and c_.module is m), None)
                    if owner is not None:
                        rebinds = any(isinstance(a_, ast.Assign) and any(isinstance(t_, ast.Attribute) and dotted(t_) == f"self.{short}" for t_ in a_.targets)
                                      or isinstance(a_, ast.AnnAssign) and isinstance(a_.target, ast.Attribute) and dotted(a_.target) == f"self.{short}"
                                      for k_ in f.cls.mro() for mth in k_.methods.values() for a_ in ast.walk(mth.node))
                        via_self = not rebinds
                if how == "next()" or full in (short, name, f"cls.{short}") or via_self:
                    if full == short and "." in name:
                        continue  # bare name cannot refer to a class attribute
                    if full == short and f.module is not m and m.name + "." + short != idx.resolve_name(f.module, short):
                        continue  # same short name, other module's object
                    muts.append((f, n, how))
            if not muts:
                continue
            is_counter = isinstance(v, ast.Call) and dotted(v.func) in ("itertools.count", "count") or isinstance(v, ast.GeneratorExp)
            n_state += 1
            for f, n, how in muts:
                ok = is_counter and how == "next()"
                ctx.check(ok, "R-C11.1", f"{m.name}.{name}#mutated-by-{f.qualname.split('.')[-1]}", f"{f.module.rel}:{n.lineno}",
                          {"object": f"{m.name}.{name} = {ast.unparse(v)[:50]}", "how": how, "reviewed": COUNTERS_REASON if ok else None},
                          "module/class-level mutable state is changed while compiling; unless it only numbers fresh names, later compilations see it")
    ctx.floor("R-C11.1", "module/class-level mutable objects that are mutated", n_state, 3)

    # ------------------------------------------------------------ (e) memo decorators
    for f in funcs:
        decos = f.decorator_names()
        if any(d.split(".")[-1] in ("cache", "lru_cache") for d in decos):
            nparams = len([a for a in f.node.args.args if a.arg not in ("self", "cls")])
            ctx.check(f.qualname in CACHE_ALLOWED and nparams == 0, "R-C11.1", f"{f.qualname}#memoised", f.where,
                      {"decorators": decos, "parameters": nparams, "reviewed": CACHE_ALLOWED.get(f.qualname)},
                      "a memoised function keeps results across compilations; unless its value is fixed by the installed library alone, later "
                      "compilations depend on earlier ones")

    # ------------------------------------------------------------ R-C11.2
    eng = idx.find_class("CompilationEngine", "guppylang_internals.engine")
    comp, chk, rst = eng.methods.get("compile"), eng.methods.get("check"), eng.methods.get("reset")
    if not (comp and chk and rst):
        raise AnalysisError("CompilationEngine.compile/check/reset vanished")
    def self_calls(fn_node, meth):
        # `self.meth(…)`, also through a local alias of self (`engine = self; engine.meth()`)
        aliases = {"self"} | {n.targets[0].id for n in walk_no_nested(fn_node) if isinstance(n, ast.Assign) and len(n.targets) == 1
                              and isinstance(n.targets[0], ast.Name) and isinstance(n.value, ast.Name) and n.value.id == "self"}
        return lambda m: any(isinstance(c.func, ast.Attribute) and c.func.attr == meth and isinstance(c.func.value, ast.Name) and c.func.value.id in aliases
                             for c in node_calls(m))

    g = CFG(comp.node)
    ctxs = [n for n in g.nodes if n.kind in ("stmt", "test") and any(call_name(c) in ("CompilerContext",) for c in node_calls(n))]
    ok = bool(ctxs) and all(g.dominated_by(n, self_calls(comp.node, "check")) for n in ctxs)
    fresh_mod = any(call_name(c) == "Module" for c in calls_in(comp.node))
    ctx.check(ok and fresh_mod, "R-C11.2", f"{comp.qualname}#checks-first-and-builds-fresh-context", comp.where, {"check_dominates_context": ok, "fresh_module": fresh_mod},
              "a compile can reuse checked objects or a HUGR module from an earlier compile")
    g = CFG(chk.node)
    work = [n for n in g.nodes if n.kind in ("stmt", "test") and any(call_name(c) in ("parse", "get_checked", "popitem") for c in node_calls(n))]
    ok = bool(work) and all(g.dominated_by(n, self_calls(chk.node, "reset")) for n in work)
    ctx.check(ok, "R-C11.2", f"{chk.qualname}#resets-first", chk.where, {"reset_dominates_work": ok},
              "a check starts from the caches (parsed/checked definitions, worklists) left by the previous call")
    fields = {t.attr for n in walk_no_nested(rst.node) if isinstance(n, ast.Assign) for t in n.targets if isinstance(t, ast.Attribute)}
    cached = {n for n, _ in eng.own_fields()} - {"additional_extensions"}
    ctx.check(cached <= fields, "R-C11.2", f"{rst.qualname}#clears-every-cache", rst.where, {"engine_fields": sorted(cached), "cleared": sorted(fields)},
              "a per-session cache of the engine survives reset()")

    # ------------------------------------------------------------ R-C11.3
    from . import c11_once
    once = c11_once.run(ctx)
    if not once:
        # fallback (the guard could not be interpreted): the call is lexically guarded by a test that mentions is_return_var
        cc = idx.find_func("compile_cfg", "guppylang_internals.compiler.cfg_compiler")
        from ..guards import lexical_guards
        irv = [c for c in calls_in(cc.node) if call_name(c) == "insert_return_vars"]
        ctx.floor("R-C11.3", "insert_return_vars call sites", len(irv), 1)
        for c in irv:
            gs = lexical_guards(cc.node, c) or []
            ok = any("is_return_var" in ast.unparse(e) for e, _ in gs)
            ctx.check(ok, "R-C11.3", f"{cc.qualname}#return-vars-inserted-once(guard shape)", f"{cc.module.rel}:{c.lineno}", {"guards": [ast.unparse(e)[:80] for e, _ in gs]},
                      "lowering the same checked function twice inserts the dummy return variables twice")
    # other in-place mutations of checked objects in the compiler package
    muts = []
    for f in idx.iter_funcs(("guppylang_internals.compiler",)):
        for n in walk_no_nested(f.node):
            if isinstance(n, ast.Call) and isinstance(n.func, ast.Attribute) and n.func.attr in ("append", "extend", "insert") \
                    and any(s in dotted(n.func.value) for s in (".cfg.", ".sig.", "input_tys", ".bbs")):
                muts.append(f"{f.qualname}:{n.lineno}: {ast.unparse(n)[:60]}")
    reviewed = [m for m in muts if "compile_local_func_def" in m and "input_tys.append" in m]
    ctx.check(set(muts) == set(reviewed), "R-C11.3", "compiler-phase-mutations-of-checked-objects", "guppylang_internals/compiler/**",
              {"mutations": muts, "reviewed": {"compile_local_func_def input_tys.append": "input_tys is not read during compilation and every compile re-checks (R-C11.2), so the appended type is never observed"}},
              "the compiler phase mutates a checked object in place; if it is lowered again (or read later) the result differs")

    # ------------------------------------------------------------ R-C11.4
    n_cm = 0
    for f in funcs:
        if "contextmanager" not in f.decorator_names():
            continue
        ys = [n for n in walk_no_nested(f.node) if isinstance(n, ast.Yield)]
        if not ys:
            continue
        ambient = []
        for n in walk_no_nested(f.node):
            if isinstance(n, ast.Assign) and any(dotted(t) in ("sys.excepthook",) for t in n.targets):
                ambient.append(n)
            if isinstance(n, ast.Call) and isinstance(n.func, ast.Attribute) and n.func.attr in ("set", "reset", "set_custom_exc") and (dotted(n.func.value).startswith("_") or "shell" in dotted(n.func.value)):
                ambient.append(n)
            if isinstance(n, ast.Assign) and any(isinstance(t, ast.Attribute) and dotted(t.value).split(".")[-1] in ("Hugr", "hugr") for t in n.targets):
                ambient.append(n)
        if not ambient:
            continue
        n_cm += 1
        after = [n for n in ambient if n.lineno > max(y.lineno for y in ys)]
        unsafe = [n for n in after if not in_finally(f.node, n)]
        key = f"{f.qualname}#restores-in-finally"
        if unsafe and f.qualname in RESTORE_EXCEPTIONS:
            ctx.ok("R-C11.4", key, f.where, {"restores_outside_finally": len(unsafe), "reviewed_exception": RESTORE_EXCEPTIONS[f.qualname]})
            ctx.note(f"{f.qualname}: restore after a bare yield (not in finally) -- {RESTORE_EXCEPTIONS[f.qualname][:110]}")
        else:
            ctx.check(not unsafe, "R-C11.4", key, f.where, {"restores": len(after), "outside_finally": [ast.unparse(n)[:60] for n in unsafe]},
                      "process-wide state set for the duration of a block is not restored when the block raises: a failed compile changes what "
                      "later compiles see")
    ctx.floor("R-C11.4", "context managers touching ambient state", n_cm, 3)

    # ------------------------------------------------------------ R-C11.5 store registrations independent of store content
    from . import c11_store_guards
    c11_store_guards.run(ctx)


def _mutable_ctor(v: ast.expr) -> bool:
    if isinstance(v, (ast.List, ast.Dict, ast.Set, ast.GeneratorExp, ast.ListComp, ast.DictComp)):
        return True
    if isinstance(v, ast.Call):
        return dotted(v.func).split(".")[-1] in ("dict", "list", "set", "defaultdict", "count", "deque", "OrderedDict")
    return False
