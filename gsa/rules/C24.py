"""C24 unitary contexts reject non-unitary quantum operations.

R-SIB     every per-block pass that traverses `bb.statements` also looks at
          `bb.branch_pred` (here: the unitary pass).
R-C24.1   a loop that visits children must not leave early except by raising.
R-C24.2   the visitors for global / local / tensor calls are interpreted end to end (helpers followed, flag arithmetic on the
          folded enum) on all 8x8 context/callee flag pairs x argument lists: rejected iff some argument holds a qubit and the
          context flags are not a subset of the callee's (c24_calls.py; the table of `_check_call` alone only as fallback);
          every call-node kind has a visitor; only barrier/state_result are exempt.
R-C24.3   nested `with` blocks combine the enclosing context's flags: `visit_With` interpreted on all 8 x 8 (enclosing, own) flag
          pairs with one and two items -- the body is built under exactly enclosing | own (c24_with.py).
R-C24.4   dagger restrictions: `check_invalid_under_dagger` interpreted on 24 bodies x 8 flag sets (loops, the three assignment
          kinds, nested in `if` / nested functions): rejected iff Dagger is set and such a statement is found (c24_dagger.py);
          the per-block pass (`_check_assign`, `visit_PlaceNode` interpreted on all flag sets) rejects assignments and subscripted
          places iff Dagger is set and otherwise visits the assigned value.
R-C24.5   compiled functions record their flags (must-call add_unitarity_metadata).
R-C24.6   the qubit finder never prunes the descent into a type.
R-C24.8   a non-acceptable call nested in the arguments (any position, next to qubit or classical arguments) or in the callee
          expression of an acceptable call is found and rejected -- interpreted on 288 nestings (c24_calls.py; the shape rules
          of c24_traversal.py only as fallback); the qubit finder looks into struct fields.
R-C24.7   flag plumbing: decorator kwargs -> definition -> CFG -> unitary pass; who may give a function type flags: only the
          definition kinds whose body is checked under them (RawFunctionDef) or that have no Guppy body (declarations, custom
          operations) -- reviewed table.
"""

from __future__ import annotations

import itertools

import ast

from ..absint.flagabs import FlagDomain, FlagEval, FlagV
from ..absint.minieval import Opaque, Unsupported
from ..flow import CFG, calls_any, must_raise
from ..index import AnalysisError, call_name, calls_in, dotted, walk_no_nested
from ..report import Ctx
from .shared import block_passes, union_members

LEVEL = "other"
EXPLANATION = (
    "Traversal-completeness (sibling passes over a block, no early exit from child-visiting loops, visitor per call "
    "kind, non-pruning type visitor), an exhaustive flag-set evaluation of the acceptance test in _check_call and of "
    "the dagger guards (all subsets of {Control,Dagger,Power}), and must-call/plumbing rules for the flags from the "
    "decorator to the unitary pass and the HUGR metadata."
)

UC = "guppylang_internals.checker.unitary_checker"


def run(ctx: Ctx) -> None:
    idx = ctx.idx
    uf = idx.find_class("UnitaryFlags", "guppylang_internals.tys.ty")
    try:
        dom = FlagDomain.from_class(uf.node)
    except Unsupported as e:
        raise AnalysisError(f"UnitaryFlags not foldable: {e}")
    want = {"NoFlags", "Control", "Dagger", "Power", "Unitary"}
    if not want <= set(dom.members) or dom.members["Unitary"] != dom.mask or dom.members["NoFlags"] != 0:
        raise AnalysisError(f"UnitaryFlags members changed: {dom.members}")
    D = dom.members["Dagger"]
    checker = idx.find_class("BBUnitaryChecker", UC)
    ctx.saw("classes", checker.qualname)

    # ------------------------------------------------------------ R-SIB
    passes = [p for p in block_passes(idx)]
    ctx.floor("R-SIB", "per-block passes", len(passes), 5)
    mine = [p for p in passes if p.func.cls is checker]
    ctx.floor("R-SIB", "unitary per-block pass", len(mine), 1)
    for p in mine:
        ctx.check(p.reads_branch_pred, "R-SIB", f"{p.func.qualname}#branch_pred", f"{p.func.module.rel}:{p.line}",
                  {"traverses": f"{p.base}.statements ({p.how})", "reads_branch_pred": p.reads_branch_pred,
                   "sibling_passes": sorted(q.func.qualname for q in passes if q.reads_branch_pred)},
                  "calls in `if`/`while` conditions are never checked against the unitary context")

    # ------------------------------------------------------------ R-C24.2 / R-C24.8, end to end (the shape rules below are its fallback)
    from . import c24_calls
    sem = c24_calls.run(ctx, dom)
    MODELLED = {"GlobalCall", "LocalCall", "TensorCall"}
    ev = FlagEval(dom)

    # ------------------------------------------------------------ R-C24.1
    n_loops = 0
    for name, f in sorted(checker.methods.items()):
        for loop in walk_no_nested(f.node):
            if not isinstance(loop, (ast.For, ast.While)):
                continue
            visits = [c for st in loop.body for c in calls_in(st) if call_name(c) in ("visit", "generic_visit") or call_name(c).startswith(("_check", "visit_"))]
            if not visits:
                continue
            n_loops += 1
            exits = [n for st in loop.body for n in walk_no_nested(st) if isinstance(n, (ast.Return, ast.Break))]
            ctx.check(not exits, "R-C24.1", f"{f.qualname}#loop-visits-every-child", f"{f.module.rel}:{loop.lineno}",
                      {"loop": ast.unparse(loop.iter)[:40] if isinstance(loop, ast.For) else "while", "early_exits": [f"{type(e).__name__}@{e.lineno}" for e in exits]},
                      "the traversal stops at the first qubit argument; calls nested in later arguments are never checked")
    ctx.floor("R-C24.1", "child-visiting loops in BBUnitaryChecker", n_loops, 0 if sem else 2)  # with the end-to-end rule decided, loops may be comprehensions

    # ------------------------------------------------------------ R-C24.2
    if not sem:
        cc = checker.methods.get("_check_call")
        if cc is None:
            raise AnalysisError("BBUnitaryChecker._check_call vanished")
        ctx.saw("functions", cc.qualname)
        params = [a.arg for a in cc.node.args.args]
        ev = FlagEval(dom)
        bad = []
        undecided = None
        n_cases = 0
        # the "are all arguments classical?" helper is found by what it does (a non-visitor method that asks contain_qubit_ty), not by name
        _cands = [m for nm, m in checker.methods.items() if not nm.startswith("visit") and nm != cc.node.name
                  and any(call_name(c) == "contain_qubit_ty" for c in calls_in(m.node))]
        CLASSIFIER = _cands[0].node.name if _cands else "_check_classical_args"
        classic_calls = [c for c in calls_in(cc.node) if call_name(c) == CLASSIFIER]
        if len(classic_calls) != 1 or len(params) < 3:
            ctx.undecided("R-C24.2", f"{cc.qualname}#acceptance-table", cc.where, f"no single {CLASSIFIER} call / unexpected signature")
        else:
            ckey = ast.unparse(classic_calls[0])
            typaram = params[2]
            for F in dom.all_values():
                for G in dom.all_values():
                    for classic in (False, True):
                        env = {"self.flags": F, f"{typaram}.unitary_flags": G, ckey: classic}
                        n_cases += 1
                        try:
                            out = ev.run(cc.node.body, env)
                        except Unsupported as e:
                            undecided = str(e)
                            break
                        raised = out[0] == "raise"
                        want_raise = (not classic) and (F.bits & G.bits != F.bits)
                        if raised != want_raise:
                            bad.append({"context_flags": F.bits, "callee_flags": G.bits, "all_args_classical": classic, "raises": raised, "should_raise": want_raise})
            if undecided:
                ctx.undecided("R-C24.2", f"{cc.qualname}#acceptance-table", cc.where, undecided)
            else:
                ctx.check(not bad, "R-C24.2", f"{cc.qualname}#acceptance-table", cc.where,
                          {"cases": n_cases, "flag_bits": dom.members, "counterexamples": bad[:4], "n_counterexamples": len(bad)},
                          "a qubit call is accepted although the callee lacks a flag the context requires (or rejected although it has them all)")
        # the classical-argument helper reports "classic" only if no argument contains a qubit
        ca = checker.methods.get(CLASSIFIER)
        if ca is None:
            raise AnalysisError("the argument classifier of the unitary checker (a helper calling contain_qubit_ty) vanished")
        # evaluated on every argument list of length 0..3 with every qubit/classical assignment:
        # result == "no argument holds a qubit", and every argument is visited
        import itertools as _it
        aparam = ca.node.args.args[1].arg if len(ca.node.args.args) > 1 else None
        bad = []
        und = None
        n_cases = 0
        for n in range(0, 4):
            for qs in _it.product((False, True), repeat=n):
                toks = [f"arg{i}" for i in range(n)]
                visited: list[str] = []

                def h_visit(node, e, en, visited=visited):
                    v = e.ev(node.args[0], en) if node.args else None
                    visited.append(v)
                    return None
                env = {aparam: toks, "self.visit": h_visit,
                       "get_type": lambda node, e, en: ("type", e.ev(node.args[0], en)),
                       "contain_qubit_ty": lambda node, e, en, qs=qs, toks=toks: qs[toks.index(e.ev(node.args[0], en)[1])]}
                n_cases += 1
                try:
                    out = ev.run(ca.node.body, env)
                except (Unsupported, Exception) as e:  # noqa: BLE001
                    und = f"{type(e).__name__}: {e}"
                    break
                want_classic = not any(qs)
                if out[0] != "return" or out[1] is not want_classic or sorted(visited) != toks:
                    bad.append({"args_hold_qubit": list(qs), "returns": out[1] if out[0] == "return" else out[0], "want": want_classic,
                                "visited": visited})
            if und:
                break
        if und:
            ctx.undecided("R-C24.2", f"{ca.qualname}#classification", ca.where, und)
        else:
            ctx.check(not bad, "R-C24.2", f"{ca.qualname}#classification", ca.where, {"cases": n_cases, "counterexamples": bad[:4]},
                      "a call is classified as classical although an argument holds a qubit, or some argument expression is never visited "
                      "(calls nested in it escape the check)")
    # visitor per call kind; exemptions are exactly barrier / state_result
    members = union_members(idx, "guppylang_internals.nodes", "AnyCall")
    ctx.floor("R-C24.2", "AnyCall members", len(members), 5)
    EXEMPT = {"BarrierExpr", "StateResultExpr"}
    for m in members:
        v = checker.methods.get(f"visit_{m}")
        key = f"{checker.qualname}.visit_{m}"
        if v is None:
            ctx.violation("R-C24.2", key, checker.where, {"visitor": None},
                          f"`{m}` calls are not checked against the unitary context (NodeVisitor.generic_visit would just recurse)")
            continue
        g = CFG(v.node)
        reaches = g.every_path_to_exit_passes(calls_any({"_check_call"}))
        if m in EXEMPT:
            ctx.ok("R-C24.2", key, v.where, {"exempt": True, "reason": "barrier and state_result are allowed in every context (property text)"})
        elif sem and m in MODELLED:
            ctx.ok("R-C24.2", key, v.where, {"decided_by": "call-acceptance-table (interpreted end to end)"})
        else:
            ctx.check(reaches, "R-C24.2", key, v.where, {"all_paths_reach__check_call": reaches},
                      f"`{m}` calls can pass the unitary pass without the flag test")
    extra_exempt = [n for n, f in checker.methods.items() if n.startswith("visit_") and n[6:] not in EXEMPT
                    and all(isinstance(s, (ast.Pass, ast.Expr)) and not isinstance(getattr(s, "value", None), ast.Call) for s in f.node.body)]
    ctx.check(not extra_exempt, "R-C24.2", f"{checker.qualname}#no-other-exemptions", checker.where, {"empty_visitors": extra_exempt},
              "a visitor other than barrier/state_result swallows its node without checking (children are not visited)")

    # ------------------------------------------------------------ R-C24.3 nested with-blocks
    from . import c24_with
    if not c24_with.run(ctx, dom):
        # fallback (visit_With not interpretable): the flags stored / passed to the inner build mention the enclosing CFG's flags
        vw = idx.method("CFGBuilder", "visit_With")
        ctx.saw("functions", vw.qualname)
        stores = [n for n in walk_no_nested(vw.node) if isinstance(n, ast.Assign) and any(
            isinstance(t, ast.Attribute) and t.attr == "unitary_flags" for t in n.targets)]
        builds = [c for c in calls_in(vw.node) if call_name(c) == "build" and "CFGBuilder" in ast.unparse(c.func)]
        outer_mentioned = False
        local_defs: dict[str, list[ast.expr]] = {}
        for n in walk_no_nested(vw.node):
            if isinstance(n, ast.Assign):
                for t in n.targets:
                    if isinstance(t, ast.Name):
                        local_defs.setdefault(t.id, []).append(n.value)
            if isinstance(n, ast.AugAssign) and isinstance(n.target, ast.Name):
                local_defs.setdefault(n.target.id, []).append(n.value)

        def expand(e: ast.expr, depth: int = 0) -> str:
            """Expression text with local names replaced by their defining expressions (2 levels)."""
            s = ast.unparse(e)
            if depth < 2:
                for x in ast.walk(e):
                    if isinstance(x, ast.Name) and x.id in local_defs:
                        s += " <- " + " | ".join(expand(d, depth + 1) for d in local_defs[x.id])
            return s

        facts = {"flag_stores": [expand(s.value) for s in stores], "inner_builds": [expand(b)[:160] for b in builds]}
        # the enclosing context's flags: `self.cfg.unitary_flags` (the CFG under construction)
        OUTER = ("self.cfg.unitary_flags", "self.unitary_flags")
        for s in stores:
            if any(o in expand(s.value) for o in OUTER):
                outer_mentioned = True
        for b in builds:
            if any(any(o in expand(a) for o in OUTER) for a in list(b.args) + [k.value for k in b.keywords]):
                outer_mentioned = True
        if not stores and not builds:
            raise AnalysisError("visit_With: neither a unitary_flags store nor an inner CFG build found")
        ctx.check(outer_mentioned, "R-C24.3", f"{vw.qualname}#unitary_flags", vw.where, facts,
                  "the body of a nested `with` block is checked against its own modifiers only; flags required by the enclosing "
                  "context (outer `with` or function flags) are lost")

    # ------------------------------------------------------------ R-C24.4 dagger restrictions
    cid = idx.find_func("check_invalid_under_dagger", UC)
    ctx.saw("functions", cid.qualname)
    from . import c24_dagger
    kinds_fn = _under_dagger_kinds(cid.node)
    if not c24_dagger.run(ctx, dom):
        # fallback (not interpretable): leading `if Dagger not in flags: return`, and the node kinds named in the function
        cparams = [a.arg for a in cid.node.args.args]
        # (a) early return iff Dagger not in flags
        first_if = next((s for s in cid.node.body if isinstance(s, ast.If)), None)
        bad = []
        und = None
        if first_if is None or not any(isinstance(x, ast.Return) for x in first_if.body):
            und = "no leading `if ...: return` guard"
        else:
            for F in dom.all_values():
                try:
                    t = ev.truth(ev.ev(first_if.test, {cparams[1]: F}))
                except Unsupported as e:
                    und = str(e)
                    break
                if t != (F.bits & D == 0):
                    bad.append({"flags": F.bits, "skips_check": t})
        if und:
            ctx.undecided("R-C24.4", f"{cid.qualname}#guard", cid.where, und)
        else:
            ctx.check(not bad, "R-C24.4", f"{cid.qualname}#skips-only-without-dagger", cid.where, {"counterexamples": bad},
                      "the dagger restrictions are skipped for some flag set that contains Dagger")
        kinds_fn = _under_dagger_kinds(cid.node)
        assign_kinds = set()
        # the node kinds may be spelled inline (`isinstance(n, ast.Assign | …)`), in a module-level constant, or in a helper
        # predicate: follow module-level names referenced from the function (two levels)
        scope_nodes: list[ast.AST] = [cid.node]
        seen_names: set[str] = set()
        for _ in range(2):
            for sn in list(scope_nodes):
                for nm in ast.walk(sn):
                    if isinstance(nm, ast.Name) and nm.id not in seen_names:
                        seen_names.add(nm.id)
                        for st_ in cid.module.tree.body:
                            if isinstance(st_, ast.FunctionDef) and st_.name == nm.id:
                                scope_nodes.append(st_)
                            tg_ = st_.targets[0] if isinstance(st_, ast.Assign) and len(st_.targets) == 1 else (st_.target if isinstance(st_, ast.AnnAssign) else None)
                            if isinstance(tg_, ast.Name) and tg_.id == nm.id and getattr(st_, "value", None) is not None:
                                scope_nodes.append(st_.value)
        for sn in scope_nodes:
            for n in ast.walk(sn):
                if isinstance(n, ast.Attribute) and isinstance(n.value, ast.Name) and n.value.id == "ast" and n.attr in ("Assign", "AnnAssign", "AugAssign"):
                    assign_kinds.add(n.attr)
        uses_loop = any(call_name(c) == "loop_in_ast" for c in calls_in(cid.node))
        ctx.check(kinds_fn >= {"Loop", "Assignment"} and assign_kinds >= {"Assign", "AnnAssign", "AugAssign"} and uses_loop, "R-C24.4",
                  f"{cid.qualname}#rejects-loops-and-assignments", cid.where,
                  {"diagnostic_kinds": sorted(kinds_fn), "assignment_node_kinds": sorted(assign_kinds), "uses_loop_in_ast": uses_loop},
                  "a daggered function may contain a loop or one of the assignment statement kinds")
    cmb = idx.find_func("check_modified_block", "guppylang_internals.checker.modifier_checker")
    dag_if = [n for n in walk_no_nested(cmb.node) if isinstance(n, ast.If) and "is_dagger" in ast.unparse(n.test)
              and not (isinstance(n.test, ast.UnaryOp) and isinstance(n.test.op, ast.Not))]
    kinds_blk: set[str] = set()
    for n in dag_if:
        for b in n.body:
            kinds_blk |= _under_dagger_kinds(b)
    ctx.check(kinds_blk >= {"Loop", "Assignment"}, "R-C24.4", f"{cmb.qualname}#rejects-loops-and-assignments", cmb.where,
              {"under_is_dagger": sorted(kinds_blk), "sibling": sorted(kinds_fn)},
              "a `with dagger:` block may contain a loop or an assignment (sibling check_invalid_under_dagger rejects both)")
    # (b) the per-block pass: the three assignment visitors reach _check_assign, which raises iff Dagger in flags
    for k in ("Assign", "AnnAssign", "AugAssign"):
        v = checker.methods.get(f"visit_{k}")
        okv = v is not None and CFG(v.node).every_path_to_exit_passes(calls_any({"_check_assign"}))
        ctx.check(bool(okv), "R-C24.4", f"{checker.qualname}.visit_{k}", v.where if v else checker.where, {"reaches__check_assign": bool(okv)},
                  f"`{k}` statements inside a dagger context are not rejected by the per-block pass")
    from . import c24_derived
    c24_derived.run(ctx, dom)  # bound-method values and function tensors carry the flags their call needs
    from . import c24_block
    if not c24_block.run(ctx, dom):
        _per_block_fallback(ctx, idx, checker, dom, D)

    # ------------------------------------------------------------ R-C24.5 metadata
    for fn_name, hint in (("monomorphize", "guppylang_internals.definition.function"), ("compile_modified_block", "guppylang_internals.compiler.modifier_compiler")):
        fs = [f for f in idx.iter_funcs((hint,)) if f.name == fn_name]
        if not fs:
            raise AnalysisError(f"{fn_name} vanished from {hint}")
        for f in fs:
            g = CFG(f.node)
            allp = g.every_path_to_exit_passes(calls_any({"add_unitarity_metadata"}))
            args_ok = all(len(c.args) >= 2 and ast.unparse(c.args[1]).endswith("unitary_flags")
                          for c in calls_in(f.node) if call_name(c) == "add_unitarity_metadata")
            ctx.check(allp and args_ok, "R-C24.5", f"{f.qualname}#records-flags", f.where, {"on_all_paths": allp, "passes_the_type_flags": args_ok},
                      "a compiled function definition does not record its unitary flags in the HUGR metadata")
    meta = idx.find_func("add_unitarity_metadata", "guppylang_internals.definition.function")
    writes = [n for n in walk_no_nested(meta.node) if isinstance(n, ast.Assign) and "metadata" in ast.unparse(n.targets[0])]
    ctx.check(bool(writes) and all(ast.unparse(w.value).startswith(meta.node.args.args[1].arg) for w in writes), "R-C24.5",
              f"{meta.qualname}#writes-flags", meta.where, {"writes": [ast.unparse(w) for w in writes]},
              "the metadata entry does not hold the flags that were passed in")

    # ------------------------------------------------------------ R-C24.6 qubit finder never prunes
    qf = idx.find_class("QubitFinder", "guppylang_internals.tys.qubit")
    n_over = 0
    for f in idx.iter_funcs(("guppylang_internals.tys.qubit",)):
        if f.cls is not qf or f.node.args.args[:1] == [] or len(f.node.args.args) != 2:
            continue
        n_over += 1
        descends = any(isinstance(c.func, ast.Attribute) and c.func.attr == "visit" and c.args and dotted(c.args[0]) == "self" for c in calls_in(f.node))
        prunes = [r for r in walk_no_nested(f.node) if isinstance(r, ast.Return) and not (isinstance(r.value, ast.Constant) and r.value.value is False)]
        ctx.check(descends or not prunes, "R-C24.6", f"{f.qualname}#never-prunes", f.where,
                  {"returns_non_False": [ast.unparse(r) for r in prunes], "visits_children_itself": descends},
                  "the qubit search stops descending at this type: qubits inside (arrays, options, ...) are treated as classical arguments")
    ctx.floor("R-C24.6", "QubitFinder visit overloads", n_over, 3)

    # ------------------------------------------------------------ R-C24.7 plumbing
    from . import c24_kwargs
    c24_kwargs.run(ctx, dom)
    # definition -> parse -> check -> CFG -> pass
    links = [
        ("check_global_func_def", "guppylang_internals.checker.func_checker", "build"),
        ("check_global_func_def", "guppylang_internals.checker.func_checker", "check_invalid_under_dagger"),
        ("check_cfg", "guppylang_internals.checker.cfg_checker", "check_cfg_unitary"),
    ]
    for fn_name, hint, callee in links:
        f = idx.find_func(fn_name, hint)
        g = CFG(f.node)
        cs = [c for c in calls_in(f.node) if call_name(c) == callee]
        passes_flags = bool(cs) and all(any(ast.unparse(a).endswith("unitary_flags") for a in list(c.args) + [k.value for k in c.keywords]) for c in cs)
        allp = g.every_path_to_exit_passes(calls_any({callee}))
        ctx.check(passes_flags and allp, "R-C24.7", f"{f.qualname}->{callee}", f.where, {"calls": len(cs), "passes_unitary_flags": passes_flags, "on_all_normal_paths": allp},
                  f"the declared flags do not reach `{callee}` on every path: the context is checked with the wrong (default: no) flags")
    bld = idx.method("CFGBuilder", "build")
    st = [n for n in walk_no_nested(bld.node) if isinstance(n, ast.Assign) and any(isinstance(t, ast.Attribute) and t.attr == "unitary_flags" for t in n.targets)]
    pnames = {a.arg for a in bld.node.args.args}
    ctx.check(bool(st) and all(dotted(s.value) in pnames for s in st), "R-C24.7", f"{bld.qualname}#stores-flags-on-cfg", bld.where,
              {"stores": [ast.unparse(s) for s in st]}, "the CFG does not carry the flags passed to the builder")
    ccu = idx.find_func("check_cfg_unitary", UC)
    loop = next((l for l in walk_no_nested(ccu.node) if isinstance(l, ast.For)), None)
    cparams2 = [a.arg for a in ccu.node.args.args]
    ok = (loop is not None and ast.unparse(loop.iter) == f"{cparams2[0]}.bbs"
          and any(call_name(c) == "check" and len(c.args) >= 2 and dotted(c.args[1]) == cparams2[1] for st2 in loop.body for c in calls_in(st2))
          and not any(isinstance(n, (ast.Break, ast.Return, ast.Continue)) for st2 in loop.body for n in walk_no_nested(st2)))
    ctx.check(ok, "R-C24.7", f"{ccu.qualname}#all-blocks", ccu.where, {"loop_over": ast.unparse(loop.iter) if loop else None},
              "not every block of the CFG is checked, or not with the CFG's flags")

    # who may give a function type flags: only definitions whose body is checked against them, or that have no Guppy body
    FLAG_GIVERS = {
        "RawFunctionDef": "body checked by ParsedFunctionDef.check -> check_global_func_def -> check_invalid_under_dagger / CFG flags -> check_cfg_unitary (links above)",
        "RawFunctionDecl": "a declaration: no body, the flags are the author's promise about the implementation",
        "RawCustomFunctionDef": "an operation implemented by a HUGR op / custom compiler: no Guppy body, flags declared by the library",
    }
    n_givers = 0
    for f in idx.iter_funcs(("guppylang_internals.definition", "guppylang_internals.decorator", "guppylang.decorator")):
        if f.cls is None:
            continue
        for c in calls_in(f.node):
            gives = (call_name(c) == "check_signature" and (any(k.arg == "unitary_flags" for k in c.keywords) or len(c.args) >= 4)) \
                or (isinstance(c.func, ast.Attribute) and c.func.attr == "with_unitary_flags")
            if not gives:
                continue
            n_givers += 1
            ctx.check(f.cls.name in FLAG_GIVERS, "R-C24.7", f"{f.qualname}#gives-flags-to-its-function-type", f"{f.module.rel}:{c.lineno}",
                      {"class": f.cls.name, "call": ast.unparse(c)[:90], "reviewed": FLAG_GIVERS.get(f.cls.name)},
                      f"`{f.cls.name}` puts declared unitary flags on its function type, but its body never passes the unitary checks (it is not one "
                      f"of the definition kinds whose body is checked, and it is not body-less): a function declared dagger/control/power may do "
                      f"anything inside and is still accepted in a flagged context")
    ctx.floor("R-C24.7", "definitions that give their function type flags", n_givers, 3)
    # decorator -> definition: the flag set parsed from the decorator's keywords is handed to the definition it creates
    n_parsed = 0
    for f in idx.iter_funcs(("guppylang.decorator",)):
        for fn_node in (f.node,):  # (nested functions are functions of the index in their own right)
            for st in walk_no_nested(fn_node):
                if not (isinstance(st, ast.Assign) and isinstance(st.value, ast.Call) and call_name(st.value) == "_parse_kwargs" and len(st.targets) == 1 and isinstance(st.targets[0], ast.Name)):
                    continue
                n_parsed += 1
                nm = st.targets[0].id
                handed_on = any(isinstance(c_, ast.Call) and any(isinstance(a_, ast.Name) and a_.id == nm for a_ in list(c_.args) + [k_.value for k_ in c_.keywords])
                                for c_ in ast.walk(fn_node))
                ctx.check(handed_on, "R-C24.7", f"{f.qualname}#parsed-flags-reach-the-definition", f"{f.module.rel}:{st.lineno}",
                          {"statement": ast.unparse(st)[:80], "handed_to_a_constructor": handed_on},
                          "the flags declared in the decorator (`dagger=True`, ...) are parsed and then dropped: the function is neither checked "
                          "under them nor rejected for declaring them")
    ctx.floor("R-C24.7", "decorators that parse unitary keywords", n_parsed, 3)

    # ------------------------------------------------------------ R-C24.8 argument traversal is unconditional
    from . import c24_traversal
    c24_traversal.run(ctx, calls_decided=sem)


def _union_names(e: ast.expr) -> list[str]:
    if isinstance(e, ast.BinOp) and isinstance(e.op, ast.BitOr):
        return _union_names(e.left) + _union_names(e.right)
    if isinstance(e, ast.Tuple):
        return [d for x in e.elts for d in _union_names(x)]
    d = dotted(e)
    return [d] if d else []


def _under_dagger_kinds(node: ast.AST) -> set[str]:
    """String kinds of InvalidUnderDagger(...) diagnostics that are raised inside node."""
    kinds: set[str] = set()
    raised_names = set()
    for n in ast.walk(node):
        if isinstance(n, ast.Call) and dotted(n.func).split(".")[-1] == "InvalidUnderDagger" and len(n.args) >= 2 and isinstance(n.args[1], ast.Constant):
            kinds.add(n.args[1].value)
    has_raise = any(isinstance(n, ast.Raise) for n in ast.walk(node))
    return kinds if has_raise else set()


def _per_block_fallback(ctx, idx, checker, dom, D) -> None:
    """The two per-block methods interpreted one by one on flat tokens (used when the whole visitor cannot be interpreted)."""
    if True:
        for meth, extra_atom in (("_check_assign", None), ("visit_PlaceNode", "contains_subscript")):
            f = checker.methods.get(meth)
            if f is None:
                raise AnalysisError(f"BBUnitaryChecker.{meth} vanished")
            bad = []
            und = None
            from ..absint.astmodel import VisitorEval
            from ..absint.pyeval import Raised as _Raised, Tok as _Tok
            ps_ = [a.arg for a in f.node.args.args]
            for F in dom.all_values():
                for sub, has_value in itertools.product((False, True) if extra_atom else (True,), (True, False) if meth == "_check_assign" else (True,)):
                    visited: list = []
                    value = _Tok("rhs", __ident__=1)
                    me_ = _Tok("checker", flags=F, __classes__=checker.mro(), __ident__=1)
                    me_.attrs["__methods__"] = {"visit": lambda r, a, visited=visited: visited.append(a[0])}
                    nd_ = _Tok("node", value=value if has_value else None, place=_Tok("place"), __ident__=1)
                    env = {ps_[0]: me_, ps_[1]: nd_, "InvalidUnderDagger": lambda node, e, en: _Tok("InvalidUnderDagger"), "UnsupportedError": lambda node, e, en: _Tok("UnsupportedError")}
                    if extra_atom:
                        env[extra_atom] = lambda node, e, en, sub=sub: (_Tok("subscript", __truth__=True) if sub else None)
                    try:
                        try:
                            out = VisitorEval(idx, f.module.name, flags=dom).run(f.node.body, env)
                        except _Raised as e:
                            out = ("raise", e.cls or str(e))
                    except Unsupported as e:
                        und = str(e)
                        break
                    raised = out[0] == "raise"
                    want_raise = bool(F.bits & D) and sub
                    if raised != want_raise or (raised and "GuppyError" not in str(out[1])):
                        bad.append({"flags": F.bits, "subscript": sub, "raises": raised, "should_raise": want_raise})
                    elif not raised and meth == "_check_assign" and visited != ([value] if has_value else []):
                        bad.append({"flags": F.bits, "assigned_value_present": has_value, "value_visited": bool(visited),
                                    "problem": "the assigned value is not visited: calls on the right-hand side escape the flag check"})
                if und:
                    break
            key = f"{f.qualname}#raises-iff-dagger"
            if und:
                ctx.undecided("R-C24.4", key, f.where, und)
            else:
                ctx.check(not bad, "R-C24.4", key, f.where, {"counterexamples": bad[:4]},
                          f"{meth} does not reject exactly the dagger contexts")
