"""R-C08.5  path-dependent types: `check_rows_match` rejects exactly the rows that disagree.

"A variable that may hold different types on different incoming paths is rejected where it is
used after the paths join."  The decision point is `check_rows_match(row1, row2, bb)`, called by
`check_cfg` for every block that is reached again with a second signature.  It is interpreted on
every pair of rows over up to three variable names with two types each, both rows listing the
same names (they come from the same liveness information) in every relative order; building the
diagnostic is not evaluated (lenient mode: statements that only construct the error are opaque).

Decided: it raises GuppyError iff some name has different types in the two rows, and returns
normally otherwise.  Plus who-must-call: `check_cfg` calls it on the path that revisits a block.
"""

from __future__ import annotations

import ast
import itertools

from ..absint.minieval import Unsupported
from ..absint.pyeval import PyEval, Raised, Tok
from ..index import call_name, calls_in
from ..report import Ctx

MOD = "guppylang_internals.checker.cfg_checker"


def run(ctx: Ctx) -> None:
    idx = ctx.idx
    f = idx.find_func("check_rows_match", MOD)
    ctx.saw("functions", f.qualname)
    ps = [a.arg for a in f.node.args.args]
    key = f"{f.qualname}#raises-iff-some-type-differs"
    names = ["x", "y", "z"]
    bad: list = []
    n = 0
    und = None
    for k in (1, 2, 3):
        for tys1 in itertools.product(("int", "float"), repeat=k):
            for tys2 in itertools.product(("int", "float"), repeat=k):
                for perm in itertools.permutations(range(k)):
                    n += 1
                    mk = lambda nm, ty: Tok(f"{nm}:{ty}", name=nm, ty=ty, defined_at=None)  # noqa: E731
                    row1 = [mk(names[i], tys1[i]) for i in range(k)]
                    row2 = [mk(names[i], tys2[i]) for i in perm]
                    ev = PyEval(idx, MOD)
                    ev.lenient = True
                    try:
                        out = ev.run_function(f, {ps[0]: row1, ps[1]: row2, ps[2]: Tok("bb", __ident__=1)})
                    except Unsupported as e:
                        und = str(e)
                        break
                    differs = any(a != b for a, b in zip(tys1, tys2))
                    raised = out[0] == "raise"
                    if raised != differs or (raised and out[1] not in ("GuppyError", "GuppyTypeError")):
                        bad.append({"row1": [(v.attrs["name"], v.attrs["ty"]) for v in row1], "row2": [(v.attrs["name"], v.attrs["ty"]) for v in row2],
                                    "outcome": out[0] if not raised else f"raises {out[1]}", "types_differ": differs})
                if und:
                    break
            if und:
                break
        if und:
            break
    if und:
        ctx.undecided("R-C08.5", key, f.where, und)
    else:
        ctx.check(not bad, "R-C08.5", key, f.where, {"cases": n, "counterexamples": bad[:3], "n_counterexamples": len(bad)},
                  "a variable whose type differs between two incoming control-flow paths is accepted (or rows that agree are rejected)")
    cc = idx.find_func("check_cfg", MOD)
    sites = [c for c in calls_in(cc.node) if call_name(c) == "check_rows_match"]
    ctx.check(len(sites) >= 1, "R-C08.5", f"{cc.qualname}#revisited-blocks-are-compared", cc.where, {"call_sites": len(sites)},
              "a block that is reached again with another signature is not compared with the first one")
