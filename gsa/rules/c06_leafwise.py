"""R-C06.6  "used twice" / "not used" decisions are taken leaf by leaf.

The linearity checker's scope maps (`scope.vars`, `used`, `used_local`, liveness) are keyed by the
ids of *leaf* places: a struct or tuple variable is present only through its leaf projections.  A
test made with the id of an aggregate place therefore finds nothing and silently passes
(`s = make_pair(); s = make_pair()` leaks both qubits of the first pair).

Rule: every site that constructs PlaceNotUsedError / AlreadyUsedError / ComprAlreadyUsedError lies
inside a loop over `leaf_places(…)` -- or over the items of a map that is itself leaf-keyed
(reviewed list) -- and the id it tests (`x`) is taken from that loop's variable inside the loop.
"""

from __future__ import annotations

import ast

from ..report import Ctx

LC = "guppylang_internals.checker.linearity_checker"
ERRORS = {"PlaceNotUsedError", "AlreadyUsedError", "ComprAlreadyUsedError"}
# loops over maps whose keys are leaf ids already (filled leaf by leaf elsewhere): the use maps of a Scope -- whatever the
# local holding the scope is called -- and a liveness domain read out of a `live_before` table
LEAF_KEYED_FIELDS = {"used_parent": "uses recorded by visit_PlaceNode / Scope.use, one per leaf",
                     "used_local": "uses recorded by visit_PlaceNode / Scope.use, one per leaf"}


def _leaf_keyed_items(f: ast.AST, it: ast.expr) -> bool:
    if not (isinstance(it, ast.Call) and isinstance(it.func, ast.Attribute) and it.func.attr == "items" and not it.args):
        return False
    recv = it.func.value
    if isinstance(recv, ast.Attribute) and recv.attr in LEAF_KEYED_FIELDS:
        return True
    # `live = live_before[succ]` ... `for x, use_bb in live.items()` where `live_before = LivenessAnalysis(...).run(...)`: the
    # liveness domain (keys are leaf place ids: Scope.stats / use()) -- followed through the function's single assignments
    def from_liveness(e: ast.expr, depth: int = 0) -> bool:
        if depth > 6:
            return False
        if isinstance(e, ast.Subscript):
            return from_liveness(e.value, depth + 1)
        if isinstance(e, ast.Name):
            defs = [n.value for n in ast.walk(f) if isinstance(n, ast.Assign) and len(n.targets) == 1 and isinstance(n.targets[0], ast.Name) and n.targets[0].id == e.id]
            return bool(defs) and all(from_liveness(d, depth + 1) for d in defs)
        if isinstance(e, ast.Call):
            return any(isinstance(x, ast.Name) and x.id == "LivenessAnalysis" for x in ast.walk(e.func))
        return False
    return from_liveness(recv)


def run(ctx: Ctx, covered: set[str] = frozenset()) -> None:
    """`covered`: functions whose decisions were interpreted on an aggregate place (c06_aggregate.py); their sites are skipped."""
    idx = ctx.idx
    n_sites = 0
    from .shared import error_builders, raised_diagnostic
    builders = error_builders(idx, LC, ERRORS)  # helpers that only construct the diagnostic: the decision is where they are raised
    for f in idx.iter_funcs((LC,)):
        if f.node.name in builders:
            continue
        if f.node.name in covered:
            n_sites += sum(1 for n in ast.walk(f.node) if isinstance(n, ast.Raise) and raised_diagnostic(f.node, n, ERRORS, builders) is not None)
            continue
        parents: dict[ast.AST, ast.AST] = {}
        for n in ast.walk(f.node):
            for c in ast.iter_child_nodes(n):
                parents[c] = n
        for n in ast.walk(f.node):
            if not isinstance(n, ast.Raise):
                continue
            diag = raised_diagnostic(f.node, n, ERRORS, builders)
            if diag is None:
                continue
            n_sites += 1
            loops = []
            p: ast.AST = n
            while p in parents:
                p = parents[p]
                if isinstance(p, ast.For):
                    loops.append(p)
            leaf_loop = None
            for lp in loops:  # innermost first
                it = ast.unparse(lp.iter)
                # `leaf_places(p)`, also wrapped: list(leaf_places(p)), sorted(leaf_places(p), key=…), reversed(…)
                over_leaves = any(isinstance(c, ast.Call) and isinstance(c.func, ast.Name) and c.func.id == "leaf_places" for c in ast.walk(lp.iter))
                if over_leaves or _leaf_keyed_items(f.node, lp.iter):
                    leaf_loop = lp
                    break
            key = f"{f.qualname}#{diag}-decided-per-leaf"
            where = f"{f.module.rel}:{n.lineno}"
            if leaf_loop is None:
                ctx.violation("R-C06.6", key, where, {"enclosing_loops": [ast.unparse(lp.iter)[:60] for lp in loops]},
                              "a linearity decision is taken on the id of a whole place instead of on each of its leaves: aggregates (structs, tuples) "
                              "are present in the scope only through their leaves, so the test never fires for them")
                continue
            # the tested id comes from the leaf loop's variable
            loopvars = {x.id for x in ast.walk(leaf_loop.target) if isinstance(x, ast.Name)}
            derived = set(loopvars)
            for st in ast.walk(leaf_loop):
                if isinstance(st, ast.Assign) and len(st.targets) == 1 and isinstance(st.targets[0], ast.Name) \
                        and {x.id for x in ast.walk(st.value) if isinstance(x, ast.Name)} & derived:
                    derived.add(st.targets[0].id)
            # guards between the loop and the site
            tests = []
            p = n
            while p in parents and p is not leaf_loop:
                q = parents[p]
                if isinstance(q, ast.If) and p is not q.test:
                    tests.append(q.test)
                p = q
            used_names = {x.id for t in tests for x in ast.walk(t) if isinstance(x, ast.Name)}
            ok = bool(used_names & derived) or not tests
            ctx.check(ok, "R-C06.6", key, where, {"leaf_loop": ast.unparse(leaf_loop.iter)[:60], "names_from_the_leaf": sorted(derived),
                                                   "names_in_the_deciding_tests": sorted(used_names)},
                      "the deciding test inside a leaf loop does not look at the leaf (it tests something fixed outside the loop)")
    ctx.floor("R-C06.6", "linearity error sites", n_sites, 7)
