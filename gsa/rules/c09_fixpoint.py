"""R-C09.7  the worklist algorithms reach the path-based solution, from every starting order (small CFGs, end to end).

`ForwardAnalysis.run` and `BackwardAnalysis.run` are interpreted from their syntax trees -- helper methods, module-level
helpers, `while q:` / `while len(q) > 0:`, `continue`-style change detection included -- on a family of small control-flow
graphs (chains, diamonds, loops, a never-taken "dummy" edge, an unreachable block; 3-5 blocks), for every order in which
the blocks can be handed in, with `include_unreachable` off and on.  Two reference analyses are plugged in through the
framework's own hooks (`initial`, `join`, `apply_bb`, `eq`):

  may   value = set of blocks from which the block can be reached; join = union, start = {} (least fixpoint)
  must  value = set of blocks on EVERY path to the block; join = intersection, empty join = {}, start = all blocks
        (greatest fixpoint)

The returned map must equal the solution computed independently from the graph (the "path-based solution"), in every
order.  A missed re-queue (along dummy edges, or at all), a stale cached value, a block that is never recomputed, a
changed value that is not stored, or a returned map that lags behind the cache all show up as a wrong answer for some
graph and order.
"""

from __future__ import annotations

import itertools

from ..absint.minieval import FuelExhausted, Unsupported
from ..absint.pyeval import PyEval, Raised, Tok
from ..report import Ctx

AN = "guppylang_internals.cfg.analysis"

# name -> (edges, dummy edges, unreachable blocks); block 0 is the entry
GRAPHS = {
    "chain":        ([(0, 1), (1, 2)], [], []),
    "diamond":      ([(0, 1), (0, 2), (1, 3), (2, 3)], [], []),
    "loop":         ([(0, 1), (1, 2), (2, 1), (1, 3)], [], []),
    "self-loop":    ([(0, 1), (1, 1), (1, 2)], [], []),
    # never-taken ("dummy") edges lead into unreachable blocks only, and no real edge leads from an unreachable block into a
    # reachable one: both are invariants established by CFGBuilder.build (pruning step) and are asserted below
    "dummy-skip":   ([(0, 1), (1, 3), (2, 4)], [(1, 2)], [2, 4]),       # `if False: A1; A2` after block 1
    "dummy-nested": ([(0, 1), (2, 3), (3, 4)], [(1, 2), (2, 4)], [2, 3, 4]),
    "dead-loop":    ([(0, 1), (2, 3), (3, 2)], [(1, 2)], [2, 3]),
    "dead-blocks":  ([(0, 1), (2, 3)], [], [2, 3]),                     # blocks 2, 3 have no path from the entry at all
    "nested-loop":  ([(0, 1), (1, 2), (2, 3), (3, 2), (2, 1), (1, 4)], [], []),
}
for _g, (_e, _d, _u) in GRAPHS.items():
    _reach = {0}
    while True:
        _more = {b for a, b in _e if a in _reach} - _reach
        if not _more:
            break
        _reach |= _more
    _n = 1 + max(max(a, b) for a, b in _e + _d)
    assert set(range(_n)) - _reach == set(_u), _g
    assert not any(a in _u and b not in _u for a, b in _e), _g
    assert not any(b not in _u for a, b in _d), _g


def _solve(n, edges, dummy, unreachable, include_unreachable, forward, must):
    """Independent solution by naive iteration of the equations until nothing changes."""
    blocks = [b for b in range(n) if include_unreachable or b not in unreachable]
    es = list(edges) + (list(dummy) if include_unreachable else [])
    if not forward:
        es = [(b, a) for a, b in es]
    preds = {b: [a for a, c in es if c == b and a in blocks] for b in blocks}
    if must:
        before = {b: set(blocks) for b in blocks}
    else:
        before = {b: set() for b in blocks}
    changed = True
    while changed:
        changed = False
        for b in blocks:
            ins = [before[p] | {p} for p in preds[b]]
            new = (set.intersection(*ins) if ins else set()) if must else (set.union(*ins) if ins else set())
            if new != before[b]:
                before[b] = new
                changed = True
    return before


def run(ctx: Ctx) -> bool:
    """True if both run methods were decided end to end."""
    idx = ctx.idx
    decided = True
    quick = ctx.tier == "quick"
    for cname, forward in (("ForwardAnalysis", True), ("BackwardAnalysis", False)):
        cls = idx.find_class(cname, AN)
        base = idx.find_class("Analysis", AN)
        f = cls.methods.get("run")
        key = f"{f.qualname}#reaches-the-path-based-solution"
        bad = []
        und = None
        n_runs = 0
        for gname, (edges, dummy, unreach) in GRAPHS.items():
            n = 1 + max(max(a, b) for a, b in edges + dummy)
            orders = list(itertools.permutations(range(n)))
            if quick and len(orders) > 6:
                orders = orders[:: max(1, len(orders) // 6)][:6] + [tuple(reversed(range(n)))]
            for inc, must in itertools.product((False, True), (False, True)):
                want = _solve(n, edges, dummy, unreach, inc, forward, must)
                if not forward:
                    # the backward framework returns the value BEFORE a block in program order = after the block's own transfer
                    want = {b: v | {b} for b, v in want.items()}
                for order in orders:
                    n_runs += 1
                    bbs = [Tok(f"bb{i}", predecessors=[], successors=[], dummy_predecessors=[], dummy_successors=[], reachable=i not in unreach, __ident__=1) for i in range(n)]
                    for a, b in edges:
                        bbs[a].attrs["successors"].append(bbs[b])
                        bbs[b].attrs["predecessors"].append(bbs[a])
                    for a, b in dummy:
                        bbs[a].attrs["dummy_successors"].append(bbs[b])
                        bbs[b].attrs["dummy_predecessors"].append(bbs[a])
                    considered = [i for i in range(n) if inc or i not in unreach]
                    ALL = frozenset(f"bb{i}" for i in considered)

                    def join(recv, a, must=must):
                        if not a:
                            return frozenset()
                        return frozenset.intersection(*a) if must else frozenset.union(*a)

                    meths = {
                        "initial": lambda recv, a, must=must, ALL=ALL: ALL if must else frozenset(),
                        "join": join,
                        "apply_bb": lambda recv, a: frozenset(a[0]) | {a[1].name},
                        "eq": lambda recv, a: a[0] == a[1],
                        "include_unreachable": lambda recv, a, inc=inc: inc,
                    }
                    self_tok = Tok("analysis", __classes__=[cls, base], __methods__=meths, __ident__=1)
                    ev = PyEval(idx, AN, max_depth=8)
                    # values are subsets of <= 5 blocks: at most n*(n+1) changes, each re-queueing at most n blocks -- a correct
                    # worklist is done after a few hundred iterations at the very most
                    ev.loop_fuel = 3000
                    try:
                        out = ev.run(f.node.body, {f.node.args.args[0].arg: self_tok, f.node.args.args[1].arg: [bbs[i] for i in order]})
                    except FuelExhausted:
                        bad.append({"graph": gname, "edges": edges, "dummy_edges": dummy, "order": list(order), "include_unreachable": inc,
                                    "analysis": "must" if must else "may", "problem": "the worklist loop does not terminate (more than 3000 iterations on a graph of "
                                    f"{n} blocks over a lattice of height {n})"})
                        break
                    except Unsupported as e:
                        und = str(e)
                        break
                    except Raised as e:
                        bad.append({"graph": gname, "order": list(order), "include_unreachable": inc, "analysis": "must" if must else "may", "problem": f"raises {e}"})
                        continue
                    res = out[1] if out[0] == "return" else None
                    got = {int(k.name[2:]): set(int(x[2:]) for x in v) for k, v in res.items()} if isinstance(res, dict) and all(isinstance(v, (set, frozenset)) for v in res.values()) else None
                    # the value *before* a block, in the direction of the analysis (backward: "before" in program order = after in flow order)
                    if got is None or {b: got.get(b) for b in want} != {b: set(v) for b, v in want.items()}:
                        bad.append({"graph": gname, "edges": edges, "dummy_edges": dummy, "order": list(order), "include_unreachable": inc,
                                    "analysis": "must (intersection, greatest fixpoint)" if must else "may (union, least fixpoint)",
                                    "returned": {b: sorted(v) for b, v in got.items()} if got else repr(res)[:80], "path_based_solution": {b: sorted(v) for b, v in want.items()}})
                        break
                if und:
                    break
            if und:
                break
        if und:
            ctx.undecided("R-C09.7", key, f.where, und)
            decided = False
            continue
        ctx.check(not bad, "R-C09.7", key, f.where, {"cases": n_runs, "graphs": sorted(GRAPHS), "counterexamples": bad[:2], "n_counterexamples": len(bad)},
                  "for some small control-flow graph and visiting order the worklist algorithm returns something else than the path-based "
                  "solution: the result depends on the order in which blocks are visited")
    return decided
