"""R-C09.4 (semantic form)  extremal values and the set-up of the two analyses, by interpretation.

`AssignmentAnalysis.__init__` / `.initial`, `LivenessAnalysis.__init__` / `.initial` and `CFG.analyze` are interpreted from
their syntax trees on a four-block CFG (entry, a block, a statically dead block that also assigns a variable, exit) with
given entry sets and one borrowed variable; the analysis classes are replaced by recorders inside `CFG.analyze`.  Decided:

  initial values   definite assignment starts from ALL variables (everything assigned anywhere plus the entry set: the top of the
                   must-lattice), maybe-assignment from (a subset of) the entry's maybe set; liveness from exactly the configured set
  CFG.analyze      statistics are computed for every block; `assigned_somewhere` = entry sets + everything assigned in ANY block
                   (dead ones included); borrowed variables count as used in the exit block; liveness is seeded with exactly the
                   borrowed variables (at the exit block); both analyses get the statistics and the entry sets, include
                   unreachable code, run over all blocks, and their results are what is stored.
"""

from __future__ import annotations

from ..absint.minieval import Unsupported
from ..absint.pyeval import PyEval, Raised, Tok
from ..report import Ctx

AN = "guppylang_internals.cfg.analysis"
CF = "guppylang_internals.cfg.cfg"


def _bind(cls, node, e, env):
    """Arguments of a constructor call, by the parameter names of the class's __init__."""
    init = cls.find_method("__init__")
    names = [a.arg for a in init.node.args.posonlyargs + init.node.args.args][1:] + [a.arg for a in init.node.args.kwonlyargs]
    out = {}
    for nm, a in zip(names, node.args):
        out[nm] = e.ev(a, env)
    for k in node.keywords:
        if k.arg:
            out[k.arg] = e.ev(k.value, env)
    return out


def _call(idx, cls, meth, self_tok, *args):
    f = cls.find_method(meth)
    ps = [a.arg for a in f.node.args.posonlyargs + f.node.args.args]
    env = {ps[0]: self_tok}
    for p, v in zip(ps[1:], args):
        env[p] = v
    defaults = f.node.args.defaults
    ev = PyEval(idx, f.module.name, max_depth=6)
    for p, d in zip(ps[len(ps) - len(defaults):], defaults):
        if p not in env:
            env[p] = ev.ev(d, {})
    out = ev.run_function(f, env)
    if out[0] == "raise":
        raise Raised(f"{cls.name}.{meth} raises {out[1]}", str(out[1]))
    return out[1] if out[0] == "return" else None


def run(ctx: Ctx) -> bool:
    idx = ctx.idx
    assn = idx.find_class("AssignmentAnalysis", AN)
    live = idx.find_class("LivenessAnalysis", AN)
    an = idx.method("CFG", "analyze", CF)
    decided = True

    def stat(i, used, assigned):
        return Tok(f"stats{i}", used={v: Tok(f"use_{v}") for v in used}, assigned={v: Tok(f"asg_{v}") for v in assigned}, __ident__=1)

    # ---------------------------------------------------------------- initial values
    key = f"{assn.qualname}.initial#greatest-fixpoint-start"
    try:
        b = [Tok(f"bb{i}", __ident__=1) for i in range(3)]
        stats = {b[0]: stat(0, [], ["a"]), b[1]: stat(1, ["a"], ["b"]), b[2]: stat(2, [], ["dead"])}
        self_tok = Tok("self", __classes__=assn.mro(), __ident__=1)
        _call(idx, assn, "__init__", self_tok, stats, {"e"}, {"e", "m"}, True)
        init = _call(idx, assn, "initial", self_tok)
        everything = {"a", "b", "dead", "e"}
        ok = isinstance(init, tuple) and len(init) == 2 and isinstance(init[0], (set, frozenset)) and set(init[0]) >= everything \
            and isinstance(init[1], (set, frozenset)) and set(init[1]) <= {"e", "m"}
        ctx.check(ok, "R-C09.4", key, assn.where, {"initial": repr(init)[:120], "assigned_anywhere_or_at_entry": sorted(everything), "entry_maybe_set": ["e", "m"]},
                  "definite assignment must start from *all* variables (greatest fixpoint: a smaller start loses variables that ARE assigned on every "
                  "path through a loop), maybe-assignment from the entry set")
    except Unsupported as e:
        ctx.undecided("R-C09.4", key, assn.where, str(e))
        decided = False
    except Raised as e:
        ctx.violation("R-C09.4", key, assn.where, {"problem": str(e)}, "setting up the assignment analysis fails on a plain CFG")
    key = f"{live.qualname}.initial"
    try:
        exit_bb = Tok("exit", __ident__=1)
        res = {}
        for label, given in (("configured", {"q": exit_bb}), ("default", None)):
            self_tok = Tok("self", __classes__=live.mro(), __ident__=1)
            _call(idx, live, "__init__", self_tok, {}, given, True)
            res[label] = _call(idx, live, "initial", self_tok)
        ok = isinstance(res["configured"], dict) and set(res["configured"]) == {"q"} and res["configured"]["q"] is exit_bb and res["default"] == {}
        ctx.check(ok, "R-C09.4", key, live.where, {k: repr(v)[:60] for k, v in res.items()}, "liveness must start from the configured (borrowed-variables) set, else from nothing")
    except Unsupported as e:
        ctx.undecided("R-C09.4", key, live.where, str(e))
        decided = False
    except Raised as e:
        ctx.violation("R-C09.4", key, live.where, {"problem": str(e)}, "setting up the liveness analysis fails")

    # ---------------------------------------------------------------- CFG.analyze
    key = f"{an.qualname}#sets-up-both-analyses"
    try:
        per_block = {"entry": ([], ["a"]), "mid": (["a"], ["b"]), "dead": (["b"], ["only_in_dead_code"]), "exit": (["b"], [])}
        stats_of = {}
        bbs = []
        for i, (nm, (u, a)) in enumerate(per_block.items()):
            st = stat(i, u, a)
            bb = Tok(nm, __ident__=1)
            bb.attrs["__methods__"] = {"compute_variable_stats": (lambda recv, args, st=st: st)}
            stats_of[nm] = st
            bbs.append(bb)
        exit_bb = bbs[3]
        self_tok = Tok("cfg", bbs=list(bbs), entry_bb=bbs[0], exit_bb=exit_bb, __classes__=an.cls.mro(), __ident__=1)
        made: dict = {}
        LIVE_RESULT, ASS_RESULT, MAYBE_RESULT = {"live": 1}, {"ass": 1}, {"maybe": 1}

        def h_live(node, e, env):
            made["live"] = _bind(live, node, e, env)
            return Tok("liveness", __methods__={"run": lambda recv, a: (made.__setitem__("live_run", a[0]), LIVE_RESULT)[1]}, __ident__=1)

        def h_assn(node, e, env):
            made["assn"] = _bind(assn, node, e, env)
            return Tok("assignment", __methods__={
                "run_unpacked": lambda recv, a: (made.__setitem__("assn_run", a[0]), (ASS_RESULT, MAYBE_RESULT))[1],
                "run": lambda recv, a: (made.__setitem__("assn_run", a[0]), {bb: (ASS_RESULT, MAYBE_RESULT) for bb in a[0]})[1]}, __ident__=1)

        ps = [a.arg for a in an.node.args.args]
        env = {ps[0]: self_tok, ps[1]: {"arg"}, ps[2]: {"arg", "maybe_arg"}, ps[3]: ["borrowed"], "LivenessAnalysis": h_live, "AssignmentAnalysis": h_assn,
               "InoutReturnSentinel": lambda node, e, env: Tok("sentinel")}
        ev = PyEval(idx, CF, max_depth=6)
        out = ev.run_function(an, env)
        if out[0] == "raise":
            raise Raised(str(out[1]), str(out[1]))
        ret = out[1] if out[0] == "return" else None
        problems = []
        if not (isinstance(ret, dict) and set(ret) == set(bbs) and all(ret[bb] is stats_of[bb.name] for bb in bbs)):
            problems.append("statistics are not computed (and returned) for every block")
        want_locals = {"arg", "maybe_arg", "a", "b", "only_in_dead_code"}
        got_locals = self_tok.attrs.get("assigned_somewhere")
        if not (isinstance(got_locals, (set, frozenset)) and set(got_locals) == want_locals):
            problems.append(f"assigned_somewhere = {sorted(got_locals) if isinstance(got_locals, (set, frozenset)) else got_locals!r}, should be {sorted(want_locals)}")
        if "borrowed" not in stats_of["exit"].attrs["used"]:
            problems.append("borrowed variables are not marked as used in the exit block")
        lv, asn = made.get("live"), made.get("assn")
        if lv is None or asn is None:
            problems.append("an analysis is not constructed")
        else:
            if lv.get("stats") is not ret and lv.get("stats") != ret:
                problems.append("liveness does not get the block statistics")
            ini = lv.get("initial")
            if not (isinstance(ini, dict) and set(ini) == {"borrowed"} and ini["borrowed"] is exit_bb):
                problems.append(f"liveness is seeded with {ini!r} instead of the borrowed variables at the exit block")
            if lv.get("include_unreachable") is not True or asn.get("include_unreachable") is not True:
                problems.append("unreachable code is excluded from an analysis (its variables are checked nevertheless)")
            if asn.get("stats") is not ret and asn.get("stats") != ret:
                problems.append("the assignment analysis does not get the block statistics")
            if asn.get("ass_before_entry") != {"arg"} or asn.get("maybe_ass_before_entry") != {"arg", "maybe_arg"}:
                problems.append("the assignment analysis does not get the entry sets")
            if list(made.get("live_run") or []) != bbs or list(made.get("assn_run") or []) != bbs:
                problems.append("an analysis is not run over all blocks of the CFG")
            if self_tok.attrs.get("live_before") is not LIVE_RESULT or self_tok.attrs.get("ass_before") is not ASS_RESULT or self_tok.attrs.get("maybe_ass_before") is not MAYBE_RESULT:
                problems.append("the results stored on the CFG are not the results of the analyses")
        ctx.check(not problems, "R-C09.4", key, an.where, {"problems": problems}, "the dataflow analyses are set up with the wrong inputs: " + "; ".join(problems))
    except Unsupported as e:
        ctx.undecided("R-C09.4", key, an.where, str(e))
        decided = False
    except Raised as e:
        ctx.violation("R-C09.4", key, an.where, {"problem": str(e)}, "CFG.analyze fails on a plain CFG")
    return decided
