"""R-C22.4 (semantic form)  a comptime function that leaks a non-droppable value is rejected before its outputs are set.

`trace_function` is interpreted as a whole from its syntax tree (helpers followed) for a function without parameters and
without results; the tracing state, the context managers around the user's function, the object conversion and the HUGR
builder are recorder tokens.  The traced Python function is modelled as a call that leaves zero, one or two unused
non-droppable objects in the state's leak registry.

Decided: with an empty registry the builder's outputs are set exactly once and nothing is raised; with a non-empty registry a
GuppyError is raised and the outputs are never set.
"""

from __future__ import annotations

from ..absint.minieval import Unsupported
from ..absint.pyeval import PyEval, Raised, Tok
from ..index import dotted
from ..report import Ctx

TF = "guppylang_internals.tracing.function"


class FlagNameEval(PyEval):
    def attr(self, value, name, node, env):
        d = dotted(node)
        if d and d.split(".")[-2:-1] == ["InputFlags"]:
            return f"InputFlags.{name}"
        return super().attr(value, name, node, env)


def run(ctx: Ctx) -> bool:
    idx = ctx.idx
    tf = idx.find_func("trace_function", TF)
    key = f"{tf.qualname}#leak-raises"
    ps = [a.arg for a in tf.node.args.args]
    bad = []
    try:
        for n_leaked in (0, 1, 2):
            registry: dict = {}
            state = Tok("state", unused_undroppable_objs=registry, __ident__=1)
            set_outputs: list = []
            none_ty = Tok("none_ty", __class__="NoneType", __ident__=1)

            def py_func(node, e, env, registry=registry, n_leaked=n_leaked):
                for i in range(n_leaked):
                    registry[f"obj{i}"] = Tok(f"leaked{i}", _ty=Tok("qubit_ty"), _id=f"obj{i}", __ident__=1)
                return None

            builder = Tok("builder", __ident__=1)
            builder.attrs["__methods__"] = {"inputs": lambda r, a: [], "set_outputs": lambda r, a, set_outputs=set_outputs: set_outputs.append(list(a)),
                                            "add_op": lambda r, a: Tok("node", __methods__={"outputs": lambda rr, x: []})}
            fty = Tok("fty", inputs=[], input_names=[], output=none_ty, __ident__=1)
            ctx_tok, node_tok = Tok("ctx"), Tok("node")
            env = {
                ps[0]: py_func, ps[1]: fty, ps[2]: builder, ps[3]: ctx_tok, ps[4]: node_tok,
                "TracingState": lambda node, e, env: state, "DFContainer": lambda node, e, env: Tok("dfg"),
                "set_tracing_state": lambda node, e, env: Tok("cm"), "exception_hook": lambda node, e, env: Tok("cm"), "mock_builtins": lambda node, e, env: Tok("cm"),
                "guppy_object_from_py": lambda node, e, env: Tok("out_obj", _ty=none_ty, __methods__={"_use_wire": lambda r, a: Tok("wire")}),
                "unify": lambda node, e, env: {}, "type_to_row": lambda node, e, env: [],
            }
            ev = FlagNameEval(idx, TF, max_depth=8)
            try:
                out = ev.run(tf.node.body, env)
                raised = str(out[1]) if out[0] == "raise" else None
            except Raised as e:
                raised = e.cls or str(e)
            want_raise = n_leaked > 0
            ok = (raised is not None) == want_raise and (not want_raise or "GuppyError" in str(raised)) and len(set_outputs) == (0 if want_raise else 1)
            if not ok:
                bad.append({"unused_non_droppable_objects": n_leaked, "outcome": raised or "returns", "outputs_set": len(set_outputs),
                            "should": "raise GuppyError before the outputs are set" if want_raise else "set the outputs once"})
    except Unsupported as e:
        ctx.undecided("R-C22.4", key, tf.where, str(e))
        return False
    ctx.check(not bad, "R-C22.4", key, tf.where, {"cases": 3, "counterexamples": bad},
              "a comptime function that leaks a non-droppable value (e.g. a qubit) is compiled instead of rejected")
    return True
