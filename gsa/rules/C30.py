"""C30 Span containment / intersection follow interval semantics (finite-domain proof).

R-C30.0  preconditions of the abstraction: `Loc` is dataclass(order=True) with field
         order (file, line, column); `Span.__post_init__` raises when start > end and
         when the files differ.
R-C30.1  Span.__contains__(Span)   == same file and b.start <= a.start and a.end <= b.end
R-C30.2  Span.__contains__(Loc)    == same file and start <= x <= end
R-C30.3  Span.__and__              == overlap interval / None
each for *every* weak ordering of the symbolic endpoints (exhaustive).
"""

from __future__ import annotations

import ast

from ..absint.orderabs import Evaluator, LocV, RaisedInternal, SpanV, Unsupported, weak_orderings
from ..flow import must_raise
from ..index import dotted
from ..report import Ctx

LEVEL = "proof"
PROOF_RULES = ("R-C30",)
EXPLANATION = (
    "Span.__contains__ and Span.__and__ are evaluated symbolically (expression tree, no execution of repo code) "
    "under every weak ordering of the span endpoints consistent with the class invariant start<=end, for the "
    "same-file case and for the different-file case, and compared with interval semantics. Loc is "
    "dataclass(order=True) over (file,line,column), a total order, so one symbolic point per Loc is exact."
)


def run(ctx: Ctx) -> None:
    idx = ctx.idx
    span = idx.find_class("Span", "guppylang_internals.span")
    loc = idx.find_class("Loc", "guppylang_internals.span")
    ctx.saw("classes", span.qualname)
    ctx.saw("classes", loc.qualname)

    # ---- R-C30.0 preconditions
    order_kw = loc.dataclass_kw("order")
    fields = [n for n, _ in loc.own_fields()]

    def _excluded(cls) -> list[str]:
        # fields declared `= field(..., compare=<not literally True>)` are left out of the generated __eq__/__lt__
        out = []
        for n, st in cls.own_fields():
            v = st.value
            if isinstance(v, ast.Call) and ast.unparse(v.func).split(".")[-1] == "field":
                for kw in v.keywords:
                    if kw.arg == "compare" and not (isinstance(kw.value, ast.Constant) and kw.value.value is True):
                        out.append(n)
                    if kw.arg is None:
                        out.append(n)  # **kwargs: cannot tell
        return out

    loc_excl, span_excl = _excluded(loc), _excluded(span)
    # not a violation by itself (a file test in front of every comparison keeps the behaviour): the evaluator below compares
    # exactly the fields the generated methods compare, so an `==` that has silently become file-blind shows in R-C30.1-3
    ctx.saw("facts", f"fields excluded from generated comparisons: Loc {loc_excl}, Span {span_excl}")
    ctx.check(
        loc.is_dataclass() and isinstance(order_kw, ast.Constant) and order_kw.value is True
        and fields == ["file", "line", "column"] and not any(m in loc.methods for m in ("__lt__", "__le__", "__gt__", "__ge__", "__eq__")),
        "R-C30.0", f"{loc.qualname}#total-order", loc.where,
        {"dataclass_order": ast.unparse(order_kw) if order_kw else None, "fields": fields},
        "Loc must compare lexicographically by (file, line, column); otherwise span comparisons are not interval comparisons",
    )
    post = span.methods.get("__post_init__")
    # interpreted: a Span can be built iff both ends lie in one file and start <= end (Loc compares as (file, line, column), see above)
    from ..absint.minieval import Unsupported as _Uns
    from ..absint.pyeval import PyEval as _PyEval, Raised as _Raised, Tok as _Tok

    class _LocEval(_PyEval):
        def tok_compare(self, op, a, b):
            ka, kb = (a.attrs["file"], a.attrs["line"], a.attrs["column"]), (b.attrs["file"], b.attrs["line"], b.attrs["column"])
            return {ast.Lt: ka < kb, ast.LtE: ka <= kb, ast.Gt: ka > kb, ast.GtE: ka >= kb}[type(op)]

    sem_ok = None
    if post is not None:
        bad_pi = []
        try:
            for (f1, l1, c1), (f2, l2, c2) in [(("a", 1, 2), ("a", 1, 2)), (("a", 1, 2), ("a", 1, 3)), (("a", 1, 9), ("a", 2, 0)), (("a", 1, 3), ("a", 1, 2)), (("a", 2, 0), ("a", 1, 9)),
                                                   (("a", 1, 2), ("b", 1, 3)), (("b", 1, 2), ("a", 1, 3))]:
                me = _Tok("span", start=_Tok("start", file=f1, line=l1, column=c1), end=_Tok("end", file=f2, line=l2, column=c2), __classes__=span.mro())
                try:
                    out = _LocEval(idx, span.module.name).run_function(post, {post.node.args.args[0].arg: me})
                    raised = out[0] == "raise"
                except _Raised:
                    raised = True
                want = f1 != f2 or (l1, c1) > (l2, c2)
                if raised != want:
                    bad_pi.append({"start": [f1, l1, c1], "end": [f2, l2, c2], "rejected": raised, "should_be_rejected": want})
            sem_ok = not bad_pi
            ctx.check(sem_ok, "R-C30.0", f"{span.qualname}.__post_init__#start<=end", post.where, {"cases": 7, "counterexamples": bad_pi},
                      "Span must enforce start <= end; the containment/intersection semantics assume it")
        except _Uns:
            sem_ok = None
    if sem_ok is None:
        inv_ok = False
        facts = {}
        if post is not None:
            # some `if <start > end>: raise` present
            for n in ast.walk(post.node):
                if isinstance(n, ast.If) and must_raise(n.body):
                    t = ast.unparse(n.test)
                    facts.setdefault("raising_tests", []).append(t)
                    if isinstance(n.test, ast.Compare) and len(n.test.ops) == 1:
                        l, r = ast.unparse(n.test.left), ast.unparse(n.test.comparators[0])
                        op = n.test.ops[0]
                        if (l, r) == ("self.start", "self.end") and isinstance(op, ast.Gt):
                            inv_ok = True
                        if (l, r) == ("self.end", "self.start") and isinstance(op, ast.Lt):
                            inv_ok = True
        ctx.check(inv_ok, "R-C30.0", f"{span.qualname}.__post_init__#start<=end", post.where if post else span.where, facts,
                  "Span must enforce start <= end; the containment/intersection semantics assume it")

    kinds = {"Span": "Span", "Loc": "Loc"}
    ev = Evaluator(span.node, kinds)
    ev.loc_excluded, ev.span_excluded = set(loc_excl), set(span_excl)
    contains = idx.method("Span", "__contains__", "guppylang_internals.span")
    and_ = idx.method("Span", "__and__", "guppylang_internals.span")
    ctx.saw("functions", contains.qualname)
    ctx.saw("functions", and_.qualname)
    cargs = [a.arg for a in contains.node.args.args]
    aargs = [a.arg for a in and_.node.args.args]

    def spans_from(pts, files=(0, 0)):
        s = SpanV(LocV(files[0], *pts[0]), LocV(files[0], *pts[1]))
        o = SpanV(LocV(files[1], *pts[2]), LocV(files[1], *pts[3]))
        return s, o

    # ---------------- span in span / span & span
    n_same = n_diff = 0
    bad_contains: list = []
    bad_and: list = []
    undecided: dict[str, str] = {}

    def eval_fn(fn, argnames, s, o):
        return ev.run(fn.node, {argnames[0]: s, argnames[1]: o})

    # A location is (line rank, column rank); Loc order is lexicographic.  All weak orderings of
    # the four lines x all weak orderings of the four columns = every order-distinguishable case.
    cases = []
    w4 = list(weak_orderings(4))
    for lr in w4:
        for cr in w4:
            pts = tuple(zip(lr, cr))
            if pts[0] <= pts[1] and pts[2] <= pts[3]:
                cases.append((pts, (0, 0)))
    # different files: Loc order compares the file first
    w2 = list(weak_orderings(2))
    for la in w2:
        for ca in w2:
            for lb in w2:
                for cb in w2:
                    pts = ((la[0], ca[0]), (la[1], ca[1]), (lb[0], cb[0]), (lb[1], cb[1]))
                    if pts[0] <= pts[1] and pts[2] <= pts[3]:
                        cases.append((pts, (0, 1)))
                        cases.append((pts, (1, 0)))
    for ranks, files in cases:
        s, o = spans_from(ranks, files)
        if "contains" in undecided and "and" in undecided:
            break
        same = files[0] == files[1]
        if same:
            n_same += 1
        else:
            n_diff += 1
        desc = {"self": [list(ranks[0]), list(ranks[1])], "other": [list(ranks[2]), list(ranks[3])], "same_file": same,
                "encoding": "[line rank, column rank]"}
        # containment: `o in s`
        try:
            got = ev.truth(eval_fn(contains, cargs, s, o))
            want = same and s.start.key() <= o.start.key() and o.end.key() <= s.end.key()
            if got != want:
                bad_contains.append({**desc, "got": got, "want": want})
        except Unsupported as e:
            undecided["contains"] = str(e)
        except RaisedInternal as e:
            bad_contains.append({**desc, "got": f"raises {e}", "want": "bool"})
        # intersection
        try:
            got = eval_fn(and_, aargs, s, o)
            lo = max(s.start, o.start, key=lambda v: v.key())
            hi = min(s.end, o.end, key=lambda v: v.key())
            if not same:
                ok = got is None
                want_s = "None"
            elif lo.key() < hi.key():
                ok = isinstance(got, SpanV) and got.start.key() == lo.key() and got.end.key() == hi.key()
                want_s = f"Span[{lo.key()[1:]},{hi.key()[1:]}]"
            elif lo.key() > hi.key():
                ok = got is None
                want_s = "None"
            else:  # touching: the statement does not fix it
                ok = got is None or (isinstance(got, SpanV) and got.start.key() == lo.key() == got.end.key())
                want_s = "None or empty span at the touching point"
            if not ok:
                bad_and.append({**desc, "got": repr(got), "want": want_s})
        except Unsupported as e:
            undecided["and"] = str(e)
        except RaisedInternal as e:
            bad_and.append({**desc, "got": f"raises {e}", "want": "Span|None"})

    key_c = f"{contains.qualname}#span"
    if "contains" in undecided:
        ctx.undecided("R-C30.1", key_c, contains.where, undecided["contains"])
    else:
        ctx.check(not bad_contains, "R-C30.1", key_c, contains.where,
                  {"orderings_same_file": n_same, "orderings_other_file": n_diff, "counterexamples": bad_contains[:4],
                   "n_counterexamples": len(bad_contains)},
                  "`a in b` disagrees with interval containment for some ordering of the endpoints")
    key_a = f"{and_.qualname}"
    if "and" in undecided:
        ctx.undecided("R-C30.3", key_a, and_.where, undecided["and"])
    else:
        ctx.check(not bad_and, "R-C30.3", key_a, and_.where,
                  {"orderings_same_file": n_same, "orderings_other_file": n_diff, "counterexamples": bad_and[:4],
                   "n_counterexamples": len(bad_and)},
                  "`a & b` is not the overlapping interval (or not None for disjoint / different-file spans)")

    # ---------------- loc in span
    bad_loc: list = []
    und = None
    n_loc = 0
    loc_cases = []
    w3 = list(weak_orderings(3))
    for lr in w3:
        for cr in w3:
            pts = tuple(zip(lr, cr))
            if pts[0] <= pts[1]:
                loc_cases.append((pts, (0, 0)))
    for la in w2:
        for ca in w2:
            pts = ((la[0], ca[0]), (la[1], ca[1]), (0, 0))
            if pts[0] <= pts[1]:
                loc_cases.append((pts, (0, 1)))
                loc_cases.append((pts, (1, 0)))
    for ranks, files in loc_cases:
        n_loc += 1
        s = SpanV(LocV(files[0], *ranks[0]), LocV(files[0], *ranks[1]))
        x = LocV(files[1], *ranks[2])
        same = files[0] == files[1]
        desc = {"span": [list(ranks[0]), list(ranks[1])], "loc": list(ranks[2]), "same_file": same}
        try:
            got = ev.truth(ev.run(contains.node, {cargs[0]: s, cargs[1]: x}))
            if not same:
                ok = got is False
                want = False
            elif x.key() < s.start.key() or x.key() > s.end.key():
                ok = got is False
                want = False
            elif x.key() == s.end.key():
                ok = True  # `end` is documented as exclusive; the statement says "between": either accepted
                want = "either"
            else:
                ok = got is True
                want = True
            if not ok:
                bad_loc.append({**desc, "got": got, "want": want})
        except Unsupported as e:
            und = str(e)
        except RaisedInternal as e:
            bad_loc.append({**desc, "got": f"raises {e}", "want": "bool"})
    key_l = f"{contains.qualname}#loc"
    if und:
        ctx.undecided("R-C30.2", key_l, contains.where, und)
    else:
        ctx.check(not bad_loc, "R-C30.2", key_l, contains.where,
                  {"orderings": n_loc, "counterexamples": bad_loc[:4], "n_counterexamples": len(bad_loc)},
                  "`loc in span` disagrees with start <= loc <= end")
    ctx.assumptions.append("Loc comparison is the dataclass-generated lexicographic order (checked: order=True, field order, no overrides)")
