"""C12 unification -- decided on a finite universe of type shapes.

`unify`, `_unify_var` and `_unify_args` are interpreted from their syntax trees (own
interpreter, nothing imported) on every ordered pair of a universe of shallow terms that
covers every constructor of the `Type`/`Const` unions, every nominal discriminator
(numeric kind, definition, constant value, de Bruijn index), arities, type-vs-const
arguments, ownership flags on linear/non-linear function inputs, and inference variables
(fresh, repeated, already solved in the starting substitution).  Each outcome is compared
with a reference first-order unifier:

R-C12.1  success/failure agrees with the reference (exactly when a unifier exists, modulo the
         ownership-flag rule for linear inputs);
R-C12.2  a returned substitution, closed under itself, makes both sides identical, binds only
         inference variables of the inputs and extends the starting substitution;
R-C12.3  occurs check: `?A ~ (?A,)`-style pairs fail (and terminate);
R-C12.4  constructor exhaustiveness: every member of the Type and Const unions occurs in an arm.
R-C12.5  solutions are threaded through multi-part checks (see c12_threading.py): the expected
         type of call argument / tuple element i+1 is taken under the solutions of parts <= i.
R-C12.7  every call site gets its own inference variables: `FunctionType.unquantified` interpreted twice on one function type
         (`cached_property` modelled as compute-once) -- one variable per parameter, in order, and no variable shared between the
         two calls (c12_fresh.py).
R-C12.8  `check_call` (branch that uses the expected type) interpreted on the triangular solution ?T := ?A, ?B := int, ?A := bool:
         accepted, instantiation and returned solution fully resolved (c12_fresh.run_closed); `type_check_args` on callee parameters
         tied through the expected type: a later argument never overwrites an earlier solution (run_args); `check_type_against` on a
         generic function value: no private variable escapes in the solution handed back (run_against).
Not decided: most-generality beyond this universe, unbounded nesting depth.
"""

from __future__ import annotations

import ast
import itertools

from ..absint.minieval import Opaque, Unsupported
from ..absint.pyeval import PyEval, Raised, Tok
from ..index import AnalysisError, dotted, walk_no_nested
from ..report import Ctx
from .shared import union_members

LEVEL = "other"
EXPLANATION = (
    "Bounded-exhaustive abstract evaluation: the three unification functions are interpreted on all ordered pairs of a "
    "finite universe of term shapes (depth <= 2) x three starting substitutions and compared with a reference unifier "
    "(agreement of success, soundness of the returned substitution, occurs check), plus constructor exhaustiveness of the "
    "match. It decides the property on that universe of shapes, not for unbounded nesting."
)

TY = "guppylang_internals.tys.ty"


# ---------------------------------------------------------------- term universe (tokens)
def T(cls: str, name: str, bases=(), **attrs) -> Tok:
    return Tok(name, __class__=cls, __bases__=tuple(bases) + ("TypeBase",), **attrs)


def C(cls: str, name: str, bases=(), **attrs) -> Tok:
    return Tok(name, __class__=cls, __bases__=tuple(bases) + ("ConstBase",), **attrs)


def tyarg(t: Tok) -> Tok:
    return Tok(f"TA({t.name})", __class__="TypeArg", ty=t, unsolved_vars=t.attrs["unsolved_vars"])


def cnarg(c: Tok) -> Tok:
    return Tok(f"CA({c.name})", __class__="ConstArg", const=c, unsolved_vars=c.attrs["unsolved_vars"])


def evar(n: str, i: int) -> Tok:
    v = T("ExistentialTypeVar", f"?{n}", ("ExistentialVar", "Var"), id=i, __ident__=True, linear=False)
    v.attrs["unsolved_vars"] = {v}
    return v


def ecvar(n: str, i: int) -> Tok:
    v = C("ExistentialConstVar", f"?c{n}", ("ExistentialVar", "Var"), id=i, __ident__=True)
    v.attrs["unsolved_vars"] = {v}
    return v


def num(k: str) -> Tok:
    return T("NumericType", f"num.{k}", kind=Tok(k), unsolved_vars=set(), linear=False)


def par(cls: str, name: str, args: list[Tok], **attrs) -> Tok:
    uv = set()
    for a in args:
        uv |= a.attrs["unsolved_vars"]
    return T(cls, name, ("ParametrizedTypeBase",), args=list(args), unsolved_vars=uv, linear=attrs.pop("linear", False), **attrs)


def tup(*ts: Tok) -> Tok:
    return par("TupleType", "(" + ",".join(t.name for t in ts) + ")", [tyarg(t) for t in ts])


def opq(d: str, *args: Tok, linear=False) -> Tok:
    return par("OpaqueType", f"{d}[" + ",".join(a.name for a in args) + "]", list(args), defn=Tok(d), linear=linear)


def struct(d: str, *args: Tok) -> Tok:
    return par("StructType", f"S{d}[" + ",".join(a.name for a in args) + "]", list(args), defn=Tok("s" + d))


def fun(inputs: list[tuple[Tok, str]], out: Tok, params=()) -> Tok:
    ins = [Tok(f"in({t.name},{f})", ty=t, flags=Tok(f)) for t, f in inputs]
    return par("FunctionType", "fn(" + ",".join(f"{t.name}@{f}" for t, f in inputs) + ")->" + out.name,
               [tyarg(t) for t, _ in inputs] + [tyarg(out)], inputs=ins, output=out, params=tuple(params))


def universe():
    A, B = evar("A", 1), evar("B", 2)
    cA = ecvar("A", 3)
    cB = ecvar("B", 4)
    nat, int_ = num("Nat"), num("Int")
    none = T("NoneType", "None", unsolved_vars=set(), linear=False)
    b0 = T("BoundTypeVar", "T0", ("BoundVar", "Var"), idx=0, unsolved_vars=set(), linear=False)
    b1 = T("BoundTypeVar", "T1", ("BoundVar", "Var"), idx=1, unsolved_vars=set(), linear=False)
    c3 = C("ConstValue", "3", value=3, unsolved_vars=set())
    c4 = C("ConstValue", "4", value=4, unsolved_vars=set())
    qubit = opq("qubit", linear=True)
    types = [A, B, nat, int_, none, b0, b1,
             tup(), tup(nat), tup(A), tup(nat, int_), tup(A, B), tup(A, A), tup(int_, nat), tup(tup(A)),
             opq("array", tyarg(nat), cnarg(c3)), opq("array", tyarg(A), cnarg(c3)), opq("array", tyarg(nat), cnarg(c4)),
             opq("array", tyarg(nat), cnarg(cA)), opq("option", tyarg(nat)), opq("option", tyarg(A)), opq("weird", cnarg(c3)), opq("weird", tyarg(nat)),
             struct("P", tyarg(nat)), struct("P", tyarg(A)), struct("Q", tyarg(nat)),
             fun([(nat, "NoFlags")], int_), fun([(A, "NoFlags")], B), fun([(nat, "NoFlags"), (nat, "NoFlags")], int_),
             fun([(nat, "Owned")], int_), fun([(qubit, "Inout")], none), fun([(qubit, "Owned")], none), fun([(qubit, "Inout")], A),
             fun([(nat, "NoFlags")], int_, params=("P0",)), qubit]
    types += [opq("array", tyarg(nat), cnarg(cB)), tup(opq("array", tyarg(nat), cnarg(cA)), opq("array", tyarg(nat), cnarg(cA))),
              tup(opq("array", tyarg(nat), cnarg(c3)), opq("array", tyarg(nat), cnarg(c4)))]
    consts = [cA, cB, c3, c4]
    universe.const_extra = (cB, c3)
    return types, consts, (A, B, cA), (nat, int_)


# ---------------------------------------------------------------- reference unifier
def is_var(t: Tok) -> bool:
    return "ExistentialVar" in t.classes()


def children(t: Tok) -> list[Tok]:
    out = []
    for a in t.attrs.get("args", []) or []:
        out.append(a.attrs.get("ty") if "ty" in a.attrs else a.attrs.get("const"))
    return out


def head(t: Tok):
    c = t.attrs["__class__"]
    if c == "NumericType":
        return (c, t.attrs["kind"].name)
    if c in ("OpaqueType", "StructType"):
        return (c, t.attrs["defn"].name, tuple(a.attrs["__class__"] for a in t.attrs["args"]))
    if c == "ConstValue":
        return (c, t.attrs["value"])
    if c == "BoundTypeVar":
        return (c, t.attrs["idx"])
    if c == "FunctionType":
        return (c, len(t.attrs["inputs"]), t.attrs["params"])
    if c == "TupleType":
        return (c, len(t.attrs["args"]))
    return (c,)


def walk_subst(t: Tok, s: dict) -> Tok:
    seen = 0
    while is_var(t) and t in s and seen < 50:
        t = s[t]
        seen += 1
    return t


def occurs(v: Tok, t: Tok, s: dict) -> bool:
    t = walk_subst(t, s)
    if is_var(t):
        return t == v
    return any(occurs(v, c, s) for c in children(t))


def ref_unify(a: Tok, b: Tok, s: dict):
    a, b = walk_subst(a, s), walk_subst(b, s)
    if is_var(a) and is_var(b) and a == b:
        return s
    if is_var(a):
        return None if occurs(a, b, s) else {**s, a: b}
    if is_var(b):
        return None if occurs(b, a, s) else {**s, b: a}
    if head(a) != head(b):
        return None
    if a.attrs["__class__"] == "FunctionType":
        for x, y in zip(a.attrs["inputs"], b.attrs["inputs"]):
            if x.attrs["ty"].attrs.get("linear") and y.attrs["ty"].attrs.get("linear") and x.attrs["flags"] != y.attrs["flags"]:
                return None
    for x, y in zip(children(a), children(b)):
        s = ref_unify(x, y, s)
        if s is None:
            return None
    return s


def resolve(t: Tok, s: dict, depth: int = 0) -> str:
    """Fully substituted printed form (closure of the triangular substitution)."""
    if depth > 30:
        return "<cycle>"
    t = walk_subst(t, s)
    if is_var(t):
        return t.name
    ch = children(t)
    flags = ""
    if t.attrs["__class__"] == "FunctionType":
        # ownership flags are not part of the structural identity checked here: the rule "linear inputs must agree on
        # flags" is part of the reference unifier (ref_unify), so a disagreement shows up under R-C12.1
        flags = ""
    return f"{head(t)}{flags}<" + ",".join(resolve(c, s, depth + 1) for c in ch) + ">"


def run(ctx: Ctx) -> None:
    idx = ctx.idx
    uf = idx.find_func("unify", TY)
    for n in ("_unify_var", "_unify_args"):
        idx.find_func(n, TY)
    ctx.saw("functions", uf.qualname)
    types, consts, (A, B, cA), (nat, int_) = universe()
    ev = PyEval(idx, TY, max_depth=40)
    ps = [a.arg for a in uf.node.args.args]
    cB, c3 = universe.const_extra
    # starting substitutions: type variables solved to a type / to another variable, const variables likewise
    starts = [("empty", {}), ("?A:=nat", {A: nat}), ("?A:=?B", {A: B}), ("?cA:=3", {cA: c3}), ("?cA:=?cB", {cA: cB}), ("?cB:=?cA", {cB: cA})]
    disagree, unsound, crashed = [], [], []
    und = None
    n_pairs = 0
    n_success = 0
    for group in (types, consts):
        for s, t in itertools.product(group, repeat=2):
            for sname, start in starts:
                n_pairs += 1
                want = ref_unify(s, t, dict(start))
                try:
                    out = ev.run_function(uf, {ps[0]: s, ps[1]: t, ps[2]: dict(start)})
                except Unsupported as e:
                    und = f"{s.name} ~ {t.name}: {e}"
                    break
                except RecursionError:
                    crashed.append({"s": s.name, "t": t.name, "start": sname, "outcome": "does not terminate (recursion)"})
                    continue
                if out[0] != "return":
                    crashed.append({"s": s.name, "t": t.name, "start": sname, "outcome": f"{out[0]} {out[1]}"})
                    continue
                got = out[1]
                if (got is None) != (want is None):
                    disagree.append({"s": s.name, "t": t.name, "start": sname, "unify_says": "no unifier" if got is None else "unifier",
                                     "reference": "no unifier" if want is None else "unifier"})
                    continue
                if got is not None:
                    n_success += 1
                    if not isinstance(got, dict):
                        unsound.append({"s": s.name, "t": t.name, "result": repr(got)})
                        continue
                    ok_dom = all(isinstance(k, Tok) and is_var(k) for k in got) and all(k in got and got[k] == v for k, v in start.items())
                    same = resolve(s, got) == resolve(t, got)
                    if not (ok_dom and same):
                        unsound.append({"s": s.name, "t": t.name, "start": sname, "subst": {k.name: v.name for k, v in got.items()},
                                        "s_after": resolve(s, got)[:80], "t_after": resolve(t, got)[:80], "extends_start": ok_dom})
            if und:
                break
        if und:
            break
    where = uf.where
    if und:
        ctx.undecided("R-C12.1", f"{uf.qualname}#agrees-with-reference", where, und)
    else:
        ctx.check(not disagree, "R-C12.1", f"{uf.qualname}#agrees-with-reference", where,
                  {"pairs_evaluated": n_pairs, "unifiable": n_success, "universe": {"types": len(types), "consts": len(consts), "starting_substitutions": [s for s, _ in starts]},
                   "counterexamples": disagree[:6], "n_counterexamples": len(disagree)},
                  "unification succeeds although no assignment makes the two types equal (or fails although one exists): a generic call "
                  "type-checks / is rejected wrongly")
        ctx.check(not unsound, "R-C12.2", f"{uf.qualname}#returned-substitution-unifies", where,
                  {"successes_checked": n_success, "counterexamples": unsound[:4]},
                  "the returned substitution does not make the two sides identical, binds something that is not an inference variable, or "
                  "forgets the starting solution")
        ctx.check(not crashed, "R-C12.3", f"{uf.qualname}#terminates-without-error", where, {"counterexamples": crashed[:4]},
                  "unification raises or recurses forever on some pair (occurs check / variable chasing)")
        occ = [(s, t) for s, t in itertools.product(types, repeat=2) if is_var(s) and not is_var(t) and s in t.attrs["unsolved_vars"]]
        ctx.check(len(occ) >= 4, "R-C12.3", f"{uf.qualname}#occurs-check-cases-in-universe", where, {"pairs_with_variable_inside_the_other_side": len(occ)},
                  "universe lost its occurs-check cases")

    # ------------------------------------------------------------ R-C12.4 exhaustiveness
    tym = union_members(idx, TY, "Type")
    arms = set()
    for m in walk_no_nested(uf.node):
        if isinstance(m, ast.match_case):
            for p in ast.walk(m.pattern):
                if isinstance(p, ast.MatchClass):
                    arms.add(dotted(p.cls).split(".")[-1])
    # members covered through a base-class pattern
    covered = set(arms)
    for c in list(tym):
        ci = idx.opt_class(c, TY)
        if ci is not None and any(b.name in arms for b in ci.mro()):
            covered.add(c)
    ctx.floor("R-C12.4", "members of the Type union", len(tym), 8)
    missing = [c for c in tym if c not in covered]
    ctx.check(not missing, "R-C12.4", f"{uf.qualname}#every-type-constructor-has-an-arm", where, {"type_union": tym, "arms": sorted(arms), "missing": missing},
              "two types of this constructor never unify, not even with themselves")
    last = [m for m in walk_no_nested(uf.node) if isinstance(m, ast.match_case)][-1]
    ok = isinstance(last.pattern, ast.MatchAs) and last.pattern.pattern is None and len(last.body) == 1 and isinstance(last.body[0], ast.Return) \
        and isinstance(last.body[0].value, ast.Constant) and last.body[0].value.value is None
    ctx.check(ok, "R-C12.4", f"{uf.qualname}#default-arm-fails", where, {"last_arm": ast.unparse(last.pattern)}, "mismatching constructors must not unify")

    # ------------------------------------------------------------ R-C12.5 solutions threaded through multi-part checks
    from . import c12_threading
    c12_threading.run(ctx)

    # ------------------------------------------------------------ R-C12.7 fresh inference variables per call site
    from . import c12_fresh
    c12_fresh.run(ctx)
    c12_fresh.run_closed(ctx)  # R-C12.8
    c12_fresh.run_args(ctx)
    c12_fresh.run_against(ctx)
    c12_fresh.run_transform(ctx)
    c12_fresh.run_flags(ctx)
