"""C10 compiler output and diagnostics are deterministic.

R-C10.1  no order-sensitive consumer of an unordered collection: every place where a set
         (display, constructor, set algebra incl. on dict views, set-annotated name /
         attribute / return value) is iterated, popped, materialised or unpacked is
         classified; order-sensitive ones (raise/return/break/yield in the loop body, list
         or dict building, pop(), next(iter()), list()/tuple()/join/unpacking) are violations.
         A `while q: x = q.pop()` worklist whose body only sets constant flags on x and
         adds to the worklist is order-free.
R-C10.2  the containers whose order *is* output are insertion-ordered dicts.
R-C10.3  no ambient nondeterminism (id/hash/random/time/uuid/environment/directory
         listings) in the compiler packages; `__hash__`/`__eq__` overrides do not use id().
"""

from __future__ import annotations

import ast

from ..index import AnalysisError, call_name, calls_in, dotted, walk_no_nested
from ..report import Ctx
from ..unordered import Kinds, consumers

LEVEL = "other"
EXPLANATION = (
    "Enumeration of every consumer of an unordered collection in the compiler packages (annotation-driven kind "
    "inference) with an order-sensitivity classification of the consumer; a run under one hash seed / heap layout "
    "cannot show this, the enumeration covers all of them. Plus container-kind and ambient-nondeterminism lints."
)

PKGS = ("guppylang_internals", "guppylang.decorator", "guppylang.defs", "guppylang.emulator")

# embedded positive examples: the classifier must flag these on every run (vacuity guard)
POSITIVE = '''
def p1(a: dict[str, int], b: dict[str, int]) -> None:
    for x in a.keys() | b.keys():
        if a[x] != b[x]:
            raise ValueError(x)
def p2(s: set[str]) -> str:
    return s.pop()
def p3(s: set[str]) -> list[str]:
    return [x for x in s]
def n1(s: set[str]) -> int:
    return len(s) + sum(1 for x in s)
def n2(s: set[str]) -> list[str]:
    return sorted(s)
'''


def worklist_is_order_free(f, pop_call: ast.Call) -> tuple[bool, str]:
    """`while q: x = q.pop(); ...` where the body only flags x and grows q."""
    loop = None
    for n in walk_no_nested(f.node):
        if isinstance(n, ast.While) and any(x is pop_call for x in ast.walk(n)):
            loop = n
    if loop is None:
        return False, "pop outside a worklist loop"
    q = ast.unparse(pop_call.func.value)
    for st in loop.body:
        for n in walk_no_nested(st):
            if isinstance(n, (ast.Raise, ast.Return, ast.Break, ast.Yield)):
                return False, f"{type(n).__name__} in the loop"
            if isinstance(n, ast.Assign):
                for t in n.targets:
                    if isinstance(t, ast.Name):
                        continue
                    if isinstance(t, ast.Attribute) and isinstance(n.value, ast.Constant):
                        continue  # idempotent flag
                    return False, f"store `{ast.unparse(t)[:30]}`"
            if isinstance(n, ast.Call) and isinstance(n.func, ast.Attribute):
                if ast.unparse(n.func.value) == q and n.func.attr in ("add", "update", "pop", "discard"):
                    continue
                if n.func.attr in ("append", "extend", "setdefault", "insert"):
                    return False, f"{ast.unparse(n.func)}"
            if isinstance(n, ast.Call) and isinstance(n.func, (ast.Name, ast.Attribute)) and call_name(n) not in ("add", "update", "pop", "discard", "len", "isinstance"):
                return False, f"call {ast.unparse(n.func)[:30]} with possibly order-dependent effects"
    return True, "body only sets constant flags on the popped element and grows the worklist"


def run(ctx: Ctx) -> None:
    idx = ctx.idx
    kinds = Kinds(idx)
    cs = consumers(idx, kinds, PKGS)
    ctx.floor("R-C10.1", "consumers of unordered collections", len(cs), 6)
    ctx.floor("R-C10.1", "set-returning repo APIs", len(kinds.set_returning), 3)
    n_sens = 0
    for c in cs:
        ctx.saw("call sites", c.key)
        sens, why = c.order_sensitive, c.why
        if sens and c.how == "pop" and isinstance(c.site, ast.Call):
            free, w = worklist_is_order_free(c.func, c.site)
            if free:
                sens, why = False, w
            else:
                why = f"{why}; {w}"
        n_sens += sens
        ctx.check(not sens, "R-C10.1", c.key, c.where, {"how": c.how, "collection": ast.unparse(c.expr)[:80], "classification": why},
                  "the order of an unordered collection (string hash seed / object addresses) reaches a diagnostic or the output: "
                  "the same program can give different results in different runs")
    # vacuity guard: the classifier must fire on the embedded examples
    import tempfile, os, shutil
    from ..index import SourceIndex, ModuleInfo, FuncInfo
    tree = ast.parse(POSITIVE)
    m = ModuleInfo("gsa_positive", "<embedded>", "<embedded>", POSITIVE, tree)
    got = {}
    for st in tree.body:
        fi = FuncInfo(f"gsa_positive.{st.name}", m, st, None)
        env = kinds.local_env(fi)
        got[st.name] = env
    # run the consumer scan on the embedded functions through a tiny fake index view
    class _View:
        def __init__(self, funcs):
            self._f = funcs
        def iter_funcs(self, prefixes=()):
            return iter(self._f)
    funcs = [FuncInfo(f"gsa_positive.{st.name}", m, st, None) for st in tree.body]
    view_kinds = kinds
    pos = consumers(_View(funcs), view_kinds, ())  # type: ignore[arg-type]
    flagged = {c.func.name for c in pos if c.order_sensitive}
    if not ({"p1", "p2", "p3"} <= flagged) or ({"n1", "n2"} & flagged):
        raise AnalysisError(f"unordered-consumer classifier failed its embedded examples: flagged={sorted(flagged)}")
    ctx.ok("R-C10.1", "selfcheck#embedded-examples", "<embedded>", {"flagged": sorted(flagged), "silent": ["n1", "n2"]})

    # ------------------------------------------------------------ R-C10.2
    wl = [("CompilerContext", "worklist", "guppylang_internals.compiler.core"),
          ("CompilationEngine", "to_check_worklist", "guppylang_internals.engine"),
          ("CompilationEngine", "types_to_check_worklist", "guppylang_internals.engine")]
    for cls, attr, hint in wl:
        c = idx.find_class(cls, hint)
        ann = [st for st in c.node.body if isinstance(st, ast.AnnAssign) and isinstance(st.target, ast.Name) and st.target.id == attr]
        head = dotted(ann[0].annotation.value if isinstance(ann[0].annotation, ast.Subscript) else ann[0].annotation) if ann else None
        inits = [n for f in c.methods.values() for n in walk_no_nested(f.node) if isinstance(n, ast.Assign)
                 and any(isinstance(t, ast.Attribute) and t.attr == attr for t in n.targets)]
        init_ok = bool(inits) and all(isinstance(n.value, ast.Dict) or (isinstance(n.value, ast.Call) and call_name(n.value) in ("dict", "OrderedDict")) for n in inits)
        ctx.check(head in ("dict", "Dict", "OrderedDict") and init_ok, "R-C10.2", f"{c.qualname}.{attr}#ordered-container", c.where,
                  {"annotation": head, "initialisers": [ast.unparse(n.value) for n in inits]},
                  "a worklist whose processing order determines the order of definitions in the HUGR is not insertion-ordered")

    # ------------------------------------------------------------ R-C10.3
    AMBIENT = {"id", "hash"}
    AMBIENT_MODS = ("random.", "time.", "uuid.", "secrets.", "datetime.datetime.now", "os.listdir", "os.scandir", "glob.", "os.getpid", "os.urandom")
    hits = []
    n_funcs = 0
    for f in idx.iter_funcs(("guppylang_internals",)):
        n_funcs += 1
        for c in calls_in(f.node):
            d = dotted(c.func)
            if (isinstance(c.func, ast.Name) and d in AMBIENT) or d.startswith(AMBIENT_MODS):
                hits.append(f"{f.qualname}:{c.lineno}:{d}")
        for n in walk_no_nested(f.node):
            if isinstance(n, ast.Attribute) and dotted(n) == "os.environ":
                hits.append(f"{f.qualname}:{n.lineno}:os.environ")
    ctx.check(not hits, "R-C10.3", "ambient-nondeterminism#compiler-packages", "guppylang_internals/**", {"functions_scanned": n_funcs, "hits": hits[:10]},
              "object identities, hashes, clocks, random numbers or the environment feed into compilation")
    pos_src = ast.parse("def f(x):\n    return id(x), random.random(), os.environ['A']")
    pos_hits = [dotted(c.func) for c in ast.walk(pos_src) if isinstance(c, ast.Call) and ((isinstance(c.func, ast.Name) and dotted(c.func) in AMBIENT) or dotted(c.func).startswith(AMBIENT_MODS))]
    if sorted(pos_hits) != ["id", "random.random"]:
        raise AnalysisError("ambient-nondeterminism matcher failed its embedded example")
