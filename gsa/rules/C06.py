"""C06 linearity -- traversal, pairing and the decision predicates of the checker.

R-SIB     the linearity pass looks at statements *and* the branch predicate of a block.
R-C06.1   every call-node kind has a visitor; `visit_GlobalCall` / `visit_LocalCall` are interpreted with their helpers and the real
          Scope on calls with one or two place arguments over two variables (the same place may be passed twice), owned /
          borrowed parameters: a place already used -- also by an earlier argument of the same call -- is rejected, afterwards
          exactly the owned arguments are used and borrowed ones are available again (c06_calls.py); the other call kinds visit
          their arguments and then reach `_reassign_inout_args` on every normal path (CFG pairing).
R-C06.2   decision predicates, by interpretation of the whole functions with the real `Scope` methods:
          per block (c06_place.py):  visit_PlaceNode on {borrowed or not} x 5 kinds of use x {used before} x {copyable}:
                      rejected iff (borrowed and not a re-borrow) or (used before and not copyable), else the use is recorded;
                      visit_Expr rejected iff the discarded value is not droppable (the value is visited either way);
          per CFG (c06_cfg.py):  check_cfg_linearity on small CFGs --
                      used and still live:  rejected iff not copyable and used in the block and (live before the successor or
                                            the block is its own successor), 16 rows;
                      leaked at block end:  rejected iff not droppable and not used and not live before EVERY successor and
                                            (live here or assigned here), with and without the place being needed at the
                                            function's exit, 144 rows.
          (The truth tables over extracted guards are the fallback when a function cannot be interpreted.)
R-C06.3   check_cfg runs check_cfg_linearity on every normal path and returns its result;
          every block of the CFG gets a scope (no filtering).
R-C06.4   the borrow-shadowing check of visit_Assign looks at every place in the target.
R-C06.5   leaf_places yields exactly the leaves of a struct/tuple place (c06_leaves.py, below).
R-C06.6   "used twice"/"not used" are decided leaf by leaf: `_check_assign_targets` and `visit_PlaceNode` are interpreted with a
          struct place whose linear leaf is unused / already used, together with the real Scope methods (c06_aggregate.py); the
          remaining error sites lie inside a loop over the leaves (c06_leafwise.py).
R-C06.7   place ids are injective: the `id` properties of Variable / FieldAccess / TupleAccess / SubscriptAccess interpreted on a
          forest of 16 places (same field name under sibling structs, fields below subscripts): same id iff same place (c06_ids.py).
Not decided: soundness/completeness of the place-based liveness argument as a whole.
"""

from __future__ import annotations

import ast
import itertools

from ..absint.minieval import Unsupported
from ..absint.pyeval import PyEval, Raised, Tok
from ..flow import CFG, calls_any, node_calls
from ..guards import raise_condition_table
from ..index import AnalysisError, call_name, calls_in, dotted, walk_no_nested
from ..report import Ctx
from .shared import block_passes, union_members

LEVEL = "other"
EXPLANATION = (
    "Truth tables of every raise condition of the linearity checker over its flags (guards extracted from the code, "
    "unknown guards quantified universally), must-call pairing of argument visiting and borrow hand-back for every "
    "call-node kind, sibling traversal of block parts, and small-case evaluation of `used_later`."
)

LC = "guppylang_internals.checker.linearity_checker"


def table_check(ctx, rule, key, where, fn, raises, atoms, known, spec, meaning):
    try:
        t = raise_condition_table(fn, raises, atoms, known)
    except Exception as e:  # noqa: BLE001
        ctx.undecided(rule, key, where, f"{type(e).__name__}: {e}")
        return
    bad = []
    for vals, got in t.items():
        env = dict(zip(atoms, vals))
        want = "always" if spec(**env) else "never"
        if got != want:
            bad.append({**env, "raise_reached": got, "should_be": want})
    ctx.check(not bad, rule, key, where, {"rows": len(t), "atoms": atoms, "counterexamples": bad[:4]}, meaning)


def run(ctx: Ctx) -> None:
    idx = ctx.idx
    chk = idx.find_class("BBLinearityChecker", LC)
    ctx.saw("classes", chk.qualname)

    # ------------------------------------------------------------ R-SIB
    mine = [p for p in block_passes(idx) if p.func.cls is chk]
    ctx.floor("R-SIB", "linearity per-block pass", len(mine), 1)
    for p in mine:
        ctx.check(p.reads_branch_pred, "R-SIB", f"{p.func.qualname}#branch_pred", f"{p.func.module.rel}:{p.line}", {"traverses": f"{p.base}.statements"},
                  "uses of linear values in `if`/`while` conditions are not linearity-checked")

    # ------------------------------------------------------------ R-C06.1
    members = union_members(idx, "guppylang_internals.nodes", "AnyCall")
    ctx.floor("R-C06.1", "AnyCall members", len(members), 5)
    from . import c06_calls
    calls_decided = c06_calls.run(ctx)  # visit_GlobalCall / visit_LocalCall interpreted with the same place passed twice
    for m in members:
        if calls_decided and m in ("GlobalCall", "LocalCall"):
            continue  # (their must-call pairing shape is the fallback)
        v = chk.methods.get(f"visit_{m}")
        key = f"{chk.qualname}.visit_{m}"
        if v is None:
            ctx.violation("R-C06.1", key, chk.where, {"visitor": None}, f"`{m}` calls get no linearity treatment of their arguments")
            continue
        g = CFG(v.node)
        hands_back = g.every_path_to_exit_passes(calls_any({"_reassign_inout_args"}))
        order = True
        def visits_args(n) -> bool:
            if any(call_name(c) in ("_visit_call_args", "visit") for c in node_calls(n)):
                return True
            owner = getattr(n, "owner", None)  # `for arg in node.args: self.visit(arg)` visits every argument
            return isinstance(owner, ast.For) and "args" in ast.unparse(owner.iter) and any(call_name(c) == "visit" for s in owner.body for c in calls_in(s))
        visits = g.every_path_to_exit_passes(visits_args)
        # order: arguments are visited before the borrowed ones are handed back
        re_nodes = [n for n in g.nodes if any(call_name(c) == "_reassign_inout_args" for c in node_calls(n))]
        order = all(g.dominated_by(n, lambda x: x is not n and visits_args(x) and any("arg" in ast.unparse(c) or call_name(c) == "_visit_call_args" for c in node_calls(x))
                                   or isinstance(getattr(x, "owner", None), ast.For) and visits_args(x)) for n in re_nodes)
        ctx.check(hands_back and visits and order, "R-C06.1", key, v.where, {"visits_args": visits, "hands_back_borrows": hands_back, "visit_before_hand_back": order},
                  f"after a `{m}` call borrowed arguments stay marked as used (or arguments are not checked at all)")

    # ------------------------------------------------------------ R-C06.2 per-block predicates
    vp = chk.methods.get("visit_PlaceNode")
    if vp is None:
        raise AnalysisError("visit_PlaceNode vanished")
    from .shared import error_builders, raised_diagnostic
    _errs = {"NotOwnedError", "MoveOutOfSubscriptError", "AlreadyUsedError"}
    _builders = error_builders(idx, LC, _errs)
    by_err: dict[str, list] = {}
    for r in [x for x in ast.walk(vp.node) if isinstance(x, ast.Raise)]:
        # which diagnostic is raised: constructed in the raise, bound to a variable before it, or built by a helper
        by_err.setdefault(raised_diagnostic(vp.node, r, _errs, _builders) or "?", []).append(r)

    def known_place(x: ast.expr):
        s = ast.unparse(x)
        if isinstance(x, ast.NamedExpr):
            return known_place(x.value)
        if s == "is_inout_var(node.place)":
            return "+inout"
        if s == "is_inout_arg":
            return "+reborrow"
        if isinstance(x, ast.Call) and isinstance(x.func, ast.Attribute) and x.func.attr == "used" and "scope" in ast.unparse(x.func.value):
            return "+used"
        if isinstance(x, ast.Attribute) and x.attr == "copyable":
            return "+copyable"
        if isinstance(x, ast.Attribute) and x.attr == "droppable":
            return "+droppable"
        return None

    from . import c06_place
    place_decided = c06_place.run(ctx)
    if place_decided:
        pass
    elif "NotOwnedError" in by_err:
        table_check(ctx, "R-C06.2", f"{vp.qualname}#not-owned", vp.where, vp.node, by_err["NotOwnedError"], ["inout", "reborrow"], known_place,
                    lambda inout, reborrow: inout and not reborrow,
                    "a borrowed argument can be consumed/moved (or re-borrowing it is rejected)")
    else:
        ctx.violation("R-C06.2", f"{vp.qualname}#not-owned", vp.where, {"raise": None}, "using a borrowed value as if owned is never rejected")
    if place_decided:
        pass
    elif "AlreadyUsedError" in by_err:
        # the subscript branch is separate: restrict to the leaf loop
        loop = next((n for n in ast.walk(vp.node) if isinstance(n, ast.For) and "leaf_places" in ast.unparse(n.iter)), None)
        if loop is None:
            ctx.undecided("R-C06.2", f"{vp.qualname}#already-used", vp.where, "no loop over leaf places")
        else:
            table_check(ctx, "R-C06.2", f"{vp.qualname}#already-used", f"{vp.module.rel}:{loop.lineno}", loop, [r for r in by_err["AlreadyUsedError"] if any(x is r for x in ast.walk(loop))],
                        ["used", "copyable"], known_place, lambda used, copyable: used and not copyable,
                        "a non-copyable value can be used twice in one block (or a copyable one is rejected)")
            uses = [c for c in calls_in(loop) if isinstance(c.func, ast.Attribute) and c.func.attr == "use" and "scope" in ast.unparse(c.func.value)]
            g = CFG(body=loop.body)
            rec = bool(uses) and g.every_path_to_exit_passes(lambda n: any(isinstance(c.func, ast.Attribute) and c.func.attr == "use" for c in node_calls(n)))
            ctx.check(rec, "R-C06.2", f"{vp.qualname}#records-every-leaf-use", f"{vp.module.rel}:{loop.lineno}", {"records_on_all_paths": rec},
                      "a use of a place is not recorded, so a second use or a missing use goes unnoticed")
    else:
        ctx.violation("R-C06.2", f"{vp.qualname}#already-used", vp.where, {"raise": None}, "double use inside a block is never rejected")
    ve = chk.methods.get("visit_Expr")
    if ve is None:
        raise AnalysisError("visit_Expr vanished")
    if not place_decided:
        table_check(ctx, "R-C06.2", f"{ve.qualname}#discarded-value", ve.where, ve.node, [r for r in ast.walk(ve.node) if isinstance(r, ast.Raise)], ["droppable"], known_place,
                    lambda droppable: not droppable, "an expression statement may silently discard a non-droppable value (e.g. a qubit)")

    # ------------------------------------------------------------ R-C06.2 CFG-level predicates
    ccl = idx.find_func("check_cfg_linearity", LC)
    ctx.saw("functions", ccl.qualname)
    from . import c06_cfg
    cfg_decided = c06_cfg.run(ctx)
    from . import c06_compr
    c06_compr.run(ctx)  # comprehension bodies: an outer non-copyable value may be borrowed, never consumed
    from . import c06_nested
    c06_nested.run(ctx)  # `def q(): ...` binds a name like an assignment (undecided, never a violation, when not interpretable)
    if not cfg_decided:
        # fallback (check_cfg_linearity not interpretable): truth tables of the raise conditions inside the two CFG-level loops
        succ_loop = next((n for n in ast.walk(ccl.node) if isinstance(n, ast.For) and ast.unparse(n.iter) == "bb.successors" and "live_before" in ast.unparse(n.body[0])), None)
        leak_loop = next((n for n in ast.walk(ccl.node) if isinstance(n, ast.For) and ast.unparse(n.iter) == "scope.values()"), None)
        if leak_loop is None:
            # located by what it does instead: the outermost loop (inside the per-block loop) that raises PlaceNotUsedError
            per_block = next((n for n in ast.walk(ccl.node) if isinstance(n, ast.For) and "scopes.items()" in ast.unparse(n.iter)), None)
            cands = [n for n in (ast.walk(per_block) if per_block is not None else []) if isinstance(n, ast.For) and n is not per_block
                     and any(isinstance(c, ast.Call) and isinstance(c.func, ast.Name) and c.func.id == "PlaceNotUsedError" for c in ast.walk(n))]
            outer = [n for n in cands if not any(n is not m and any(x is n for x in ast.walk(m)) for m in cands)]
            leak_loop = outer[0] if outer else None
            if leak_loop is not None:
                ctx.violation("R-C06.2", f"{ccl.qualname}#leak-check-covers-every-visible-place", f"{ccl.module.rel}:{leak_loop.lineno}",
                              {"iterates": ast.unparse(leak_loop.iter), "expected": "scope.values()  (all places visible in the block, inherited ones included)"},
                              "the 'unused and not passed on' check only looks at part of the places a block can see (e.g. only the ones assigned in the "
                              "block): a qubit that merely passes through a branching block and is consumed on one side only is leaked unnoticed")
        else:
            ctx.ok("R-C06.2", f"{ccl.qualname}#leak-check-covers-every-visible-place", f"{ccl.module.rel}:{leak_loop.lineno}", {"iterates": "scope.values()"})
        if succ_loop is None or leak_loop is None:
            raise AnalysisError("check_cfg_linearity: the two CFG-level loops were not found")
        inner = next((n for n in ast.walk(succ_loop) if isinstance(n, ast.For) and n is not succ_loop), None)
        table_check(ctx, "R-C06.2", f"{ccl.qualname}#used-and-still-live", f"{ccl.module.rel}:{succ_loop.lineno}", inner or succ_loop,
                    [r for r in ast.walk(succ_loop) if isinstance(r, ast.Raise)], ["copyable", "used"], known_place,
                    lambda copyable, used: (not copyable) and used,
                    "a non-copyable value that was used in a block is still passed on to a successor that uses it again (use after consumption across blocks)")
        ok = inner is not None and ".items()" in ast.unparse(inner.iter) and not any(isinstance(n, (ast.Break, ast.Return)) for s in succ_loop.body for n in walk_no_nested(s))
        ctx.check(ok, "R-C06.2", f"{ccl.qualname}#every-successor-every-live-place", f"{ccl.module.rel}:{succ_loop.lineno}", {"inner": ast.unparse(inner.iter) if inner else None},
                  "not every (successor, live place) pair is examined")

        def known_leak(x: ast.expr):
            s = ast.unparse(x)
            k = known_place(x)
            if k:
                return k
            if s == "used_later":
                return "+later"
            if isinstance(x, ast.Compare) and len(x.ops) == 1 and isinstance(x.ops[0], (ast.In, ast.NotIn)):
                c = ast.unparse(x.comparators[0])
                pos = isinstance(x.ops[0], ast.In)
                if c == "live_before_bb":
                    return ("+" if pos else "-") + "livehere"
                if c == "scope.vars":
                    return ("+" if pos else "-") + "assignedhere"
            return None
        leaf_loop = next((n for n in ast.walk(leak_loop) if isinstance(n, ast.For) and n is not leak_loop), leak_loop)
        table_check(ctx, "R-C06.2", f"{ccl.qualname}#unused-and-not-live", f"{ccl.module.rel}:{leak_loop.lineno}", leaf_loop,
                    [r for r in ast.walk(leak_loop) if isinstance(r, ast.Raise)], ["droppable", "used", "later", "livehere", "assignedhere"], known_leak,
                    lambda droppable, used, later, livehere, assignedhere: (not droppable) and (not used) and (not later) and (livehere or assignedhere),
                    "a non-droppable value (qubit) that is neither used in a block nor needed by all successors is silently discarded on some path")
        # used_later := live before every successor
        ul = [n for n in ast.walk(leak_loop) if isinstance(n, ast.Assign) and dotted(n.targets[0]) == "used_later"]
        if len(ul) != 1:
            ctx.undecided("R-C06.2", f"{ccl.qualname}#used_later", ccl.where, "definition of used_later not found")
        else:
            ev = PyEval(idx, LC)
            bad = []
            und = None
            n = 0
            exit_bb = Tok("exit")
            holder = next((b for nn in ast.walk(leak_loop) for b in (getattr(nn, "body", None), getattr(nn, "orelse", None))
                           if isinstance(b, list) and any(x is ul[0] for x in b)), [ul[0]])
            prelude = [st for st in holder[: next(i for i, x in enumerate(holder) if x is ul[0])]
                       if isinstance(st, ast.Assign) and len(st.targets) == 1 and isinstance(st.targets[0], ast.Name) and st.targets[0].id not in ("x",)]
            for k in (0, 1, 2):
                for member in itertools.product((False, True), repeat=k):
                    for in_exit in (False, True):
                        succs = [Tok(f"s{i}") for i in range(k)]
                        lb = {s: ({"x"} if m else set()) for s, m in zip(succs, member)}
                        lb[exit_bb] = {"x"} if in_exit else set()
                        env = {"x": "x", "bb": Tok("bb", successors=succs, dummy_successors=[]), "live_before": lb, "cfg": Tok("cfg", exit_bb=exit_bb)}
                        n += 1
                        try:
                            # plain assignments that precede the definition in the same block may define what it reads
                            # (`live_in_succs = [...]`): interpret those that are evaluable, in order
                            for st in prelude:
                                try:
                                    ev.run([st], env)
                                except (Unsupported, Raised):
                                    env.pop(st.targets[0].id, None)
                            got = ev.ev(ul[0].value, env)
                        except (Unsupported, Raised) as e:
                            und = str(e)
                            break
                        if got is not all(member):
                            bad.append({"successors_where_live": list(member), "live_at_exit": in_exit, "used_later": got, "want": all(member)})
            if und:
                ctx.undecided("R-C06.2", f"{ccl.qualname}#used_later", ccl.where, und)
            else:
                ctx.check(not bad, "R-C06.2", f"{ccl.qualname}#used_later", f"{ccl.module.rel}:{ul[0].lineno}", {"cases": n, "counterexamples": bad[:4]},
                          "'will be used later' is not 'live before every successor': a qubit dropped on one branch is accepted because it is used "
                          "(or returned) on another path")
        # scopes for every block
        sc = [n for n in ast.walk(ccl.node) if isinstance(n, ast.DictComp) and "cfg.bbs" in ast.unparse(n.generators[0].iter)]
        ctx.check(bool(sc) and not sc[0].generators[0].ifs, "R-C06.3", f"{ccl.qualname}#checks-every-block", ccl.where, {"scopes": ast.unparse(sc[0].generators[0].iter) if sc else None},
                  "some blocks are not linearity-checked")

    # ------------------------------------------------------------ R-C06.3
    cc = idx.find_func("check_cfg", "guppylang_internals.checker.cfg_checker")
    g = CFG(cc.node)
    allp = g.every_path_to_exit_passes(calls_any({"check_cfg_linearity"}))
    res = [dotted(n.targets[0]) for n in walk_no_nested(cc.node) if isinstance(n, ast.Assign) and isinstance(n.value, ast.Call) and call_name(n.value) == "check_cfg_linearity"]
    rets = [dotted(r.value) for r in walk_no_nested(cc.node) if isinstance(r, ast.Return)]
    ctx.check(allp and bool(res) and all(r in res for r in rets), "R-C06.3", f"{cc.qualname}#runs-linearity-check-and-returns-its-result", cc.where,
              {"on_all_paths": allp, "result_names": res, "returns": rets}, "a function body can be accepted without the linearity check")

    # ------------------------------------------------------------ R-C06.4
    va = chk.methods.get("visit_Assign")
    loops = [n for n in walk_no_nested(va.node) if isinstance(n, ast.For) and isinstance(n.iter, ast.Call) and call_name(n.iter) == "find_nodes"]
    ok = bool(loops) and "PlaceNode" in ast.unparse(loops[0].iter.args[0]) and any("BorrowShadowedError" in ast.unparse(s) for s in loops[0].body)
    g = CFG(va.node)
    ctx.check(ok and g.every_path_to_exit_passes(calls_any({"_check_assign_targets"})), "R-C06.4", f"{va.qualname}#borrow-shadow-check-covers-all-target-places", va.where,
              {"iterates": ast.unparse(loops[0].iter)[:80] if loops else None},
              "a borrowed parameter can be rebound inside an unpacking assignment target: the caller gets back a different value than it lent")

    # ------------------------------------------------------------ R-C06.5 leaf enumeration
    from . import c06_leaves
    c06_leaves.run(ctx)

    # ------------------------------------------------------------ R-C06.6 decisions per leaf
    from . import c06_ids
    c06_ids.run(ctx)  # R-C06.7: the keys of the scope maps identify places one-to-one
    from . import c06_aggregate, c06_leafwise
    covered: set[str] = set()
    if c06_aggregate.run(ctx):
        # the two entry points were interpreted with an aggregate place, helpers included: their raise sites (and those of the
        # helpers they call) need no syntactic "inside a leaf loop" argument; the other sites keep the shape rule
        from ..index import call_name as _cn, calls_in as _ci
        covered = {"_check_assign_targets", "visit_PlaceNode"}
        by_name = {f.node.name: f for f in idx.iter_funcs((c06_leafwise.LC,))}
        todo = list(covered)
        while todo:
            f = by_name.get(todo.pop())
            if f is None:
                continue
            for c in _ci(f.node):
                nm = _cn(c)
                if nm in by_name and nm not in covered and not nm.startswith("visit"):
                    covered.add(nm)
                    todo.append(nm)
    if cfg_decided:
        # check_cfg_linearity was interpreted with the real Scope methods: its maps are keyed by what the per-block checker
        # recorded (leaf ids, decided above), and its decisions were compared with the specification place by place
        covered.add("check_cfg_linearity")
    c06_leafwise.run(ctx, covered)

