"""R-C22.5  the registry of not-yet-used undroppable objects holds them strongly.

`TracingState.unused_undroppable_objs` is what `trace_function`'s leak check looks at after the user's function has
returned.  At that moment a leaked value is, by definition, referenced by nothing but this registry (the local that
held it is gone).  A registry that refers to its entries weakly (`weakref.WeakValueDictionary`, `WeakSet`, a dict of
`weakref.ref`) forgets exactly the objects it exists to report.

Rule: the field's default factory / initial value is a plain `dict` (or another strong container), and no function
stores a `weakref.*` object into it.
"""

from __future__ import annotations

import ast

from ..report import Ctx

FIELD = "unused_undroppable_objs"


def run(ctx: Ctx) -> None:
    idx = ctx.idx
    st = idx.find_class("TracingState", "guppylang_internals.tracing.state")
    decl = None
    for n in st.node.body:
        if isinstance(n, ast.AnnAssign) and isinstance(n.target, ast.Name) and n.target.id == FIELD:
            decl = n
    key = f"{st.qualname}.{FIELD}#strong-references"
    if decl is None:
        ctx.undecided("R-C22.5", key, st.where, "field declaration not found")
        return
    text = ast.unparse(decl)
    weak = [w for w in ("Weak", "weakref") if w in text]
    factory = None
    if isinstance(decl.value, ast.Call):
        for k in decl.value.keywords:
            if k.arg == "default_factory":
                factory = ast.unparse(k.value)
    strong = factory in ("dict", "OrderedDict", "collections.OrderedDict") or (decl.value is not None and ast.unparse(decl.value) in ("{}", "dict()"))
    # stores of weak references into the registry anywhere
    weak_stores = []
    for f in idx.iter_funcs(("guppylang_internals.tracing",)):
        for n in ast.walk(f.node):
            if isinstance(n, ast.Assign) and any(isinstance(t, ast.Subscript) and ast.unparse(t.value).endswith(FIELD) for t in n.targets) and "weakref" in ast.unparse(n.value):
                weak_stores.append(f"{f.qualname}:{n.lineno}")
    # only weak containers are wrong; any other way of building the mapping (dict, lambda: {}, OrderedDict …) is fine
    strong = strong or not weak
    ctx.check(strong and not weak and not weak_stores, "R-C22.5", key, f"{st.module.rel}:{decl.lineno}",
              {"declaration": text[:140], "default_factory": factory, "weak_reference_stores": weak_stores},
              "leaked non-droppable values are referenced only by this registry once the traced function has returned: held weakly, they are "
              "collected before the leak check looks, and the leak is accepted silently")
