"""Rule helpers shared between properties."""

from __future__ import annotations

import ast
from dataclasses import dataclass

from ..index import FuncInfo, SourceIndex, call_name, dotted, walk_no_nested


@dataclass
class BlockPass:
    func: FuncInfo
    base: str  # expression whose .statements is traversed ("bb", "self")
    how: str  # "for-loop" | "call:<callee>"
    line: int
    reads_branch_pred: bool


def block_passes(idx: SourceIndex) -> list[BlockPass]:
    """Every function that *traverses* `<B>.statements` of a basic block: a for-loop over it
    or handing it to a call.  Each such pass must also look at `<B>.branch_pred`, the
    expression a block branches on (R-SIB)."""
    out: list[BlockPass] = []
    for f in idx.iter_funcs(("guppylang_internals",)):
        trav: dict[str, tuple[str, int]] = {}
        for n in walk_no_nested(f.node):
            if isinstance(n, (ast.For, ast.comprehension)):
                it = n.iter
                if isinstance(it, ast.Attribute) and it.attr == "statements":
                    trav.setdefault(ast.unparse(it.value), ("for-loop", getattr(n, "lineno", it.lineno)))
            if isinstance(n, ast.Call):
                for a in list(n.args) + [k.value for k in n.keywords]:
                    if isinstance(a, ast.Attribute) and a.attr == "statements" and call_name(n) not in ("len", "isinstance"):
                        # a constructor copying the block (`BB(..., bb.statements, branch_pred=...)`) counts too:
                        trav.setdefault(ast.unparse(a.value), (f"call:{call_name(n)}", n.lineno))
        for base, (how, line) in trav.items():
            reads = any(
                isinstance(n, ast.Attribute) and n.attr == "branch_pred" and ast.unparse(n.value) == base and isinstance(n.ctx, ast.Load)
                for n in walk_no_nested(f.node))
            out.append(BlockPass(f, base, how, line, reads))
    return out


def union_members(idx: SourceIndex, module: str, alias: str) -> list[str]:
    """Members of a `X = A | B | C` type alias at module level."""
    v = idx.module_constant(module, alias)
    out: list[str] = []

    def go(e: ast.expr | None, depth: int = 0) -> None:
        if isinstance(e, ast.BinOp) and isinstance(e.op, ast.BitOr):
            go(e.left, depth), go(e.right, depth)
        elif e is not None:
            d = dotted(e)
            if d:
                name = d.split(".")[-1]
                inner = idx.module_constant(module, name) if depth < 3 else None
                if isinstance(inner, ast.BinOp) and isinstance(inner.op, ast.BitOr):
                    go(inner, depth + 1)  # nested alias such as ParametrizedType
                else:
                    out.append(name)

    go(v)
    return out
