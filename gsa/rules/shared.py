"""Rule helpers shared between properties."""

from __future__ import annotations

import ast
from dataclasses import dataclass

from ..index import FuncInfo, SourceIndex, call_name, dotted, walk_no_nested


@dataclass
class BlockPass:
    func: FuncInfo
    base: str  # expression whose .statements is traversed ("bb", "self")
    how: str  # "for-loop" | "call:<callee>"
    line: int
    reads_branch_pred: bool


def block_passes(idx: SourceIndex) -> list[BlockPass]:
    """Every function that *traverses* `<B>.statements` of a basic block: a for-loop over it
    or handing it to a call.  Each such pass must also look at `<B>.branch_pred`, the
    expression a block branches on (R-SIB)."""
    out: list[BlockPass] = []
    for f in idx.iter_funcs(("guppylang_internals",)):
        trav: dict[str, tuple[str, int]] = {}
        for n in walk_no_nested(f.node):
            if isinstance(n, (ast.For, ast.comprehension)):
                it = n.iter
                if isinstance(it, ast.Attribute) and it.attr == "statements":
                    trav.setdefault(ast.unparse(it.value), ("for-loop", getattr(n, "lineno", it.lineno)))
            if isinstance(n, ast.Call):
                for a in list(n.args) + [k.value for k in n.keywords]:
                    if isinstance(a, ast.Attribute) and a.attr == "statements" and call_name(n) not in ("len", "isinstance"):
                        # a constructor copying the block (`BB(..., bb.statements, branch_pred=...)`) counts too:
                        trav.setdefault(ast.unparse(a.value), (f"call:{call_name(n)}", n.lineno))
        for base, (how, line) in trav.items():
            reads = any(
                isinstance(n, ast.Attribute) and n.attr == "branch_pred" and ast.unparse(n.value) == base and isinstance(n.ctx, ast.Load)
                for n in walk_no_nested(f.node))
            out.append(BlockPass(f, base, how, line, reads))
    return out


def union_members(idx: SourceIndex, module: str, alias: str) -> list[str]:
    """Members of a `X = A | B | C` type alias at module level."""
    v = idx.module_constant(module, alias)
    out: list[str] = []

    def go(e: ast.expr | None, depth: int = 0) -> None:
        if isinstance(e, ast.BinOp) and isinstance(e.op, ast.BitOr):
            go(e.left, depth), go(e.right, depth)
        elif e is not None:
            d = dotted(e)
            if d:
                name = d.split(".")[-1]
                inner = idx.module_constant(module, name) if depth < 3 else None
                if isinstance(inner, ast.BinOp) and isinstance(inner.op, ast.BitOr):
                    go(inner, depth + 1)  # nested alias such as ParametrizedType
                else:
                    out.append(name)

    go(v)
    return out


def error_builders(idx, module_name: str, err_names: set[str]) -> dict[str, str]:
    """Functions/methods of a module that BUILD (construct and return, do not raise) one of the given diagnostics:
    name -> diagnostic class.  `raise _already_used(...)` is then a raise of AlreadyUsedError."""
    out: dict[str, str] = {}
    for f in idx.iter_funcs((module_name,)):
        made = {c.func.id for c in ast.walk(f.node) if isinstance(c, ast.Call) and isinstance(c.func, ast.Name) and c.func.id in err_names}
        if len(made) == 1 and not any(isinstance(x, ast.Raise) for x in ast.walk(f.node)) and any(isinstance(x, ast.Return) and x.value is not None for x in ast.walk(f.node)):
            out[f.node.name] = next(iter(made))
    return out


def raised_diagnostic(fn: ast.AST, r: ast.Raise, err_names: set[str], builders: dict[str, str]) -> str | None:
    """Which of the diagnostics does this raise statement raise?  Direct construction, an `err = XError(...)` variable
    bound before the raise in the same function, or a call of a builder helper (directly or through a variable)."""
    def of_expr(e: ast.AST | None) -> str | None:
        if e is None:
            return None
        for c in ast.walk(e):
            if isinstance(c, ast.Call):
                nm = c.func.id if isinstance(c.func, ast.Name) else (c.func.attr if isinstance(c.func, ast.Attribute) else None)
                if nm in err_names:
                    return nm
                if nm in builders:
                    return builders[nm]
        return None

    d = of_expr(r.exc)
    if d:
        return d
    names = {n.id for n in ast.walk(r.exc) if isinstance(n, ast.Name)} if r.exc is not None else set()
    best = None
    for a in ast.walk(fn):
        if isinstance(a, (ast.Assign, ast.AnnAssign)) and getattr(a, "value", None) is not None and a.lineno < r.lineno:
            tg = a.targets[0] if isinstance(a, ast.Assign) else a.target
            if isinstance(tg, ast.Name) and tg.id in names:
                d2 = of_expr(a.value)
                if d2 and (best is None or a.lineno > best[0]):
                    best = (a.lineno, d2)
    return best[1] if best else None
