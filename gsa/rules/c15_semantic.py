"""R-C15.1 (semantic form)  overloaded calls pick the first applicable variant.

`OverloadedFunctionDef.check_call` and `.synthesize_call` are interpreted from their syntax trees (helpers, generators,
`suppress`/`try` included) on an overload set of three symbolic variants.  Each variant either accepts the call, rejects
it (raises GuppyError), or fails with another exception; all 3^3 behaviours are enumerated.  Decided, for every one:

  * the variants are attempted in the order of `func_ids`, each with the caller's own arguments, none skipped, none
    attempted after the first that accepts;
  * the result is that first accepting variant's result;
  * if all reject, a GuppyError is raised (the no-match diagnostic);
  * an exception of another kind raised by a variant is not swallowed.
"""

from __future__ import annotations

import itertools

from ..absint.minieval import Unsupported
from ..absint.pyeval import PyEval, Raised, Tok
from ..report import Ctx

OV = "guppylang_internals.definition.overloaded"


def run(ctx: Ctx) -> bool:
    """Returns True if both methods were decided by interpretation (the caller then skips its shape rules)."""
    idx = ctx.idx
    ov = idx.find_class("OverloadedFunctionDef", OV)
    decided = True
    for meth in ("check_call", "synthesize_call"):
        f = ov.methods.get(meth)
        if f is None:
            decided = False
            continue
        key = f"{f.qualname}#first-applicable-variant"
        ps = [a.arg for a in f.node.args.args]
        bad = []
        und = None
        n = 0
        for behaviour in itertools.product(("accept", "reject", "boom"), repeat=3):
            n += 1
            attempts: list = []
            ARGS = []  # the caller's argument list (identity matters, content does not)

            def mk(i):
                def call(recv, a, i=i):
                    attempts.append((i, a[0] is ARGS))
                    if behaviour[i] == "accept":
                        return ("picked", i)
                    if behaviour[i] == "reject":
                        raise Raised("variant rejects the call", "GuppyError")
                    raise Raised("internal failure inside a variant", "InternalGuppyError")
                return Tok(f"variant{i}", __class__="CallableDef", ty=Tok(f"sig{i}"), name=f"v{i}", __ident__=1,
                           __methods__={"check_call": call, "synthesize_call": call})

            ids = [Tok(f"id{i}", __ident__=1) for i in range(3)]
            defs = {ids[i]: mk(i) for i in range(3)}
            self_tok = Tok("self", func_ids=list(ids), name="f", __classes__=[ov], __ident__=1)
            cx = Tok("ctx", globals=defs, __ident__=1)
            env = {ps[0]: self_tok}
            for p in ps[1:]:
                env[p] = ARGS if p == "args" else (cx if p == "ctx" else Tok(p, __ident__=1))
            ev = PyEval(idx, OV, max_depth=10)
            ev.lenient = True
            outcome: tuple
            try:
                out = ev.run(f.node.body, env)
                outcome = ("raise", out[1]) if out[0] == "raise" else ("value", out[1] if out[0] == "return" else None)
            except Raised as e:
                outcome = ("raise", e.cls)
            except Unsupported as e:
                und = f"{behaviour}: {e}"
                break
            first = next((i for i, b in enumerate(behaviour) if b != "reject"), None)
            if first is None:
                want, want_attempts = ("raise", "GuppyError"), [0, 1, 2]
            elif behaviour[first] == "accept":
                want, want_attempts = ("value", ("picked", first)), list(range(first + 1))
            else:
                want, want_attempts = ("raise", "InternalGuppyError"), list(range(first + 1))
            got_attempts = [i for i, _ in attempts]
            own_args = all(same for _, same in attempts)
            if outcome != want or got_attempts != want_attempts or not own_args:
                bad.append({"variants": list(behaviour), "outcome": repr(outcome), "expected": repr(want), "attempted": got_attempts,
                            "expected_attempts": want_attempts, "called_with_the_callers_arguments": own_args})
        if und:
            ctx.undecided("R-C15.1", key, f.where, und)
            decided = False
            continue
        ctx.check(not bad, "R-C15.1", key, f.where, {"cases": n, "counterexamples": bad[:3], "n_counterexamples": len(bad)},
                  "a call to an overloaded function does not resolve to the first listed variant that accepts it (variants reordered, skipped, "
                  "tried with other arguments, failures of other kinds swallowed, or rejected before all were tried)")
    return decided
