"""C29 diagnostic rendering -- structural clauses.

R-C29.1  "wrapped only at whitespace": every call of textwrap.wrap/fill/TextWrapper reached
         from diagnostic.wrap disables break_long_words and break_on_hyphens.
R-C29.2  `wrap` is interpreted (textwrap.wrap modelled by its contract) on empty / blank-only / multi-paragraph texts, two
         widths, with and without indents: it returns normally, keeps every word exactly once and in order, applies the
         indents (c29_wrap.py; the shape of the `[first, *rest]` destructuring only as fallback).
R-C29.3  `render_diagnostic` is interpreted on 808 (thorough: 3368) shapes of diagnostic -- primary span or not, label/message
         present or not, up to two children with no span / an AST node / a single-line, multi-line or empty Span object (truth
         value from the repository's own Span.__len__), label, message: rendering is total and every label and message is
         printed exactly once (c29_render.py; guard-minimality of the output statements only as fallback).
R-C29.4  "spanned source lines": SourceMap.add_file (re-)reads the file on every call (no
         stale cache); span_lines indexes with the span's own start/end lines.
R-C29.5  context lines keep their numbers: decided by R-C29.6 on whole rendered snippets (blank lines among the context lines
         and inside the span included); the shape form -- between `span_lines(...)` and the numbering loop the window is only
         rewritten line by line and the context count is not changed (c29_lines.py) -- runs only when R-C29.6 is undecided.
R-C29.6  `render_snippet` interpreted with Span / Loc / SourceMap.span_lines / wrap (textwrap = the standard library's own) on 255
         spans x context x style x label cases over an eleven-line source with indentation up to 20 and blank lines: the numbered lines are the
         right source lines minus one common trim, the markers start and end under the spanned columns, every label word is
         shown whole and in order, nothing raises (c29_snippet.py).
Not decided: termination in general; sources and spans outside the enumerated family.
"""

from __future__ import annotations

import ast

from ..flow import CFG
from ..guards import lexical_guards
from ..index import AnalysisError, call_name, calls_in, dotted, walk_no_nested
from ..report import Ctx

LEVEL = "other"
EXPLANATION = (
    "Configuration rule for the text wrapper, a totality rule for wrap's destructuring, guard-minimality of every "
    "output statement of render_diagnostic (a label/message is printed under no condition but its own presence), "
    "and a must-write rule for the source map. Decides these structural clauses of C29 only."
)

DG = "guppylang_internals.diagnostic"


def run(ctx: Ctx) -> None:
    idx = ctx.idx
    wrap = idx.find_func("wrap", DG)
    ctx.saw("functions", wrap.qualname)

    # ------------------------------------------------------------ R-C29.1
    tw = [c for c in calls_in(wrap.node) if dotted(c.func) in ("textwrap.wrap", "textwrap.fill", "textwrap.TextWrapper", "TextWrapper")]
    ctx.floor("R-C29.1", "textwrap calls in wrap", len(tw), 1)
    # defaults installed into **kwargs before the call count as set
    defaults = {}
    for n in walk_no_nested(wrap.node):
        if isinstance(n, ast.Call) and isinstance(n.func, ast.Attribute) and n.func.attr == "setdefault" and dotted(n.func.value) == "kwargs" and len(n.args) == 2 \
                and isinstance(n.args[0], ast.Constant) and isinstance(n.args[1], ast.Constant):
            defaults[n.args[0].value] = n.args[1].value
    # callers must not re-enable them
    callers_enable = []
    for f in idx.iter_funcs((DG,)):
        for c in calls_in(f.node):
            if call_name(c) == "wrap" and isinstance(c.func, ast.Name):
                for k in c.keywords:
                    if k.arg in ("break_long_words", "break_on_hyphens") and not (isinstance(k.value, ast.Constant) and k.value.value is False):
                        callers_enable.append(f"{f.qualname}:{c.lineno}")
    for i, c in enumerate(tw):
        kws = {k.arg: (k.value.value if isinstance(k.value, ast.Constant) else "?") for k in c.keywords if k.arg}
        eff = {**defaults, **kws}
        ok = eff.get("break_long_words") is False and eff.get("break_on_hyphens") is False and not callers_enable
        ctx.check(ok, "R-C29.1", f"{wrap.qualname}#textwrap-config", f"{wrap.module.rel}:{c.lineno}",
                  {"break_long_words": eff.get("break_long_words", "default True"), "break_on_hyphens": eff.get("break_on_hyphens", "default True"),
                   "callers_overriding": callers_enable},
                  "a word longer than the line width (long type or identifier) is cut in the middle, and hyphenated words are split at the hyphen: "
                  "lines are not wrapped only at whitespace")

    # ------------------------------------------------------------ R-C29.2
    from . import c29_render, c29_snippet, c29_wrap
    snippet_decided = c29_snippet.run(ctx)  # R-C29.6: snippet lines, marker columns, label words (render_snippet with everything it uses, interpreted)
    if not c29_wrap.run(ctx):
        # fallback (wrap could not be interpreted): shape of the destructuring, and callers never pass an empty text
        destr = [n for n in walk_no_nested(wrap.node) if isinstance(n, ast.Assign) and isinstance(n.targets[0], (ast.List, ast.Tuple))
                 and any(isinstance(e, ast.Starred) for e in n.targets[0].elts)]
        if len(destr) != 1:
            ctx.undecided("R-C29.2", f"{wrap.qualname}#destructuring", wrap.where, "no single starred destructuring")
        else:
            v = destr[0].value
            total = False
            facts = {"value": ast.unparse(v)[:160]}
            # accepted shapes: `<listcomp> or [""]`, or a comprehension whose per-paragraph part is `(X or [""])` / `X if p.strip() else [""]`
            if isinstance(v, ast.BoolOp) and isinstance(v.op, ast.Or) and isinstance(v.values[-1], ast.List) and v.values[-1].elts:
                total = True
            elif isinstance(v, ast.ListComp) and len(v.generators) == 2:
                inner = v.generators[1].iter
                if isinstance(inner, ast.BoolOp) and isinstance(inner.op, ast.Or) and isinstance(inner.values[-1], ast.List) and inner.values[-1].elts:
                    total = True
                elif isinstance(inner, ast.IfExp) and isinstance(inner.orelse, ast.List) and inner.orelse.elts:
                    t = ast.unparse(inner.test)
                    total = "strip()" in t  # a paragraph of only blanks must take the [""] branch as well
                    facts["paragraph_test"] = t
            ctx.check(total, "R-C29.2", f"{wrap.qualname}#destructuring-total", f"{wrap.module.rel}:{destr[0].lineno}", facts,
                      "rendering raises ValueError for a label or message that consists only of blanks (textwrap.wrap returns no line for it, "
                      "so `[first, *rest] = []` fails): rendering is not total")
        # callers guard with a truthiness test (empty text)
        n_callers = 0
        for f in idx.iter_funcs((DG,)):
            for c in calls_in(f.node):
                if call_name(c) == "wrap" and isinstance(c.func, ast.Name) and f is not wrap:
                    n_callers += 1
                    arg = c.args[0]
                    if isinstance(arg, ast.JoinedStr):
                        ctx.ok("R-C29.2", f"{f.qualname}#wrap-arg-nonempty[{n_callers}]", f"{f.module.rel}:{c.lineno}", {"arg": "f-string with literal text"})
                        continue
                    gs = lexical_guards(f.node, c) or []
                    guarded = any(ast.unparse(e) == ast.unparse(arg) and pol for e, pol in gs)
                    ctx.check(guarded, "R-C29.2", f"{f.qualname}#wrap-arg-nonempty[{n_callers}]", f"{f.module.rel}:{c.lineno}",
                              {"arg": ast.unparse(arg), "guards": [ast.unparse(e)[:40] for e, _ in gs]}, "wrap is called with a possibly empty text")
        ctx.floor("R-C29.2", "callers of wrap", n_callers, 4)

    # ------------------------------------------------------------ R-C29.3
    if not c29_render.run(ctx):
        # fallback (render_diagnostic could not be interpreted): every output statement is guarded by nothing but its own part
        rd = idx.method("DiagnosticsRenderer", "render_diagnostic", DG)
        ctx.saw("functions", rd.qualname)
        outs = []
        for c in calls_in(rd.node):
            if call_name(c) in ("wrap", "render_snippet", "append"):
                for a in ast.walk(c):
                    if isinstance(a, ast.Attribute) and a.attr in ("rendered_message", "rendered_span_label", "rendered_title") and isinstance(a.ctx, ast.Load):
                        outs.append((c, a))
        ctx.floor("R-C29.3", "output statements in render_diagnostic", len(outs), 5)
        seen_parts = set()
        for c, a in outs:
            owner = dotted(a.value)
            part = f"{'child' if owner != rd.node.args.args[1].arg else 'diag'}.{a.attr}"
            seen_parts.add(part)
            gs = lexical_guards(rd.node, c) or []
            # permitted guards: the part's own truthiness; for labels the owner's span; the top-level span/no-span split of the diagnostic
            extra = []
            for e, pol in gs:
                t = ast.unparse(e)
                ok = t in (f"{owner}.{a.attr}", f"{owner}.span", f"{owner}.span is None", f"{owner}.span is not None")
                if not ok and t in (f"{rd.node.args.args[1].arg}.span is None", f"{rd.node.args.args[1].arg}.span is not None", f"{rd.node.args.args[1].arg}.span"):
                    ok = True  # the two layouts (with / without primary span) both print everything; checked below
                if a.attr == "rendered_message" and owner != rd.node.args.args[1].arg and t.startswith(f"{owner}.span"):
                    ok = False  # a child's message must not depend on the child having a span
                if not ok:
                    extra.append(f"{t} is {pol}")
            ctx.check(not extra, "R-C29.3", f"{rd.qualname}#prints-{part}@{'no-span' if any('span is None' in ast.unparse(e) and p for e, p in gs) else 'span'}-layout",
                      f"{rd.module.rel}:{c.lineno}", {"statement": ast.unparse(c)[:80], "extra_conditions": extra},
                      f"the {part.replace('.', ' ')} is printed only under an additional condition: some words of a label or message are not shown")
        need = {"diag.rendered_title", "diag.rendered_span_label", "diag.rendered_message", "child.rendered_span_label", "child.rendered_message"}
        ctx.check(need <= seen_parts, "R-C29.3", f"{rd.qualname}#prints-every-part", rd.where, {"printed": sorted(seen_parts), "missing": sorted(need - seen_parts)},
                  "a label or message of the diagnostic is never printed")
        # both child loops run over all children
        for loop in [n for n in walk_no_nested(rd.node) if isinstance(n, ast.For)]:
            ok = ast.unparse(loop.iter).endswith(".children") and not any(isinstance(x, (ast.Break, ast.Return)) for s in loop.body for x in walk_no_nested(s))
            ctx.check(ok, "R-C29.3", f"{rd.qualname}#loop-over-all-children@{loop.lineno - rd.node.lineno}", f"{rd.module.rel}:{loop.lineno}", {"iterates": ast.unparse(loop.iter)},
                      "not every sub-diagnostic is rendered")

    # ------------------------------------------------------------ R-C29.4
    af = idx.method("SourceMap", "add_file", "guppylang_internals.span")
    g = CFG(af.node)

    def writes(n):
        a = n.ast
        return isinstance(a, ast.Assign) and any(isinstance(t, ast.Subscript) and ast.unparse(t.value) == "self.sources" for t in a.targets)
    ctx.check(g.every_path_to_exit_passes(writes), "R-C29.4", f"{af.qualname}#always-refreshes", af.where, {},
              "registering a file that is already known keeps the old text: after the file changed, diagnostics show stale source lines "
              "under the new line numbers (or rendering fails past the end of the stale copy)")
    from . import c29_lines
    c29_lines.run(ctx, numbers_decided=snippet_decided)  # (R-C29.6 compares the numbered lines of whole rendered snippets)
