"""C23 comptime tracing leaves the user's module namespace untouched.

R-C23.1  mock_builtins: the keys written into f.__globals__ before the `yield` are exactly
         the keys restored/deleted after it; the old values are captured *before* the
         update; the yield sits in a `try` whose `finally` does the restore.
         Decided semantically when the generator has the form "statements; try: ...yield...;
         finally: ..." (c23_eval.py, below); the shape rules on how old values are saved and
         restored apply only otherwise.
R-C23.2  who-may-write: no other function of the compiler packages writes through
         __globals__/f_globals/f_locals of a user function or frame (allow-list with reasons).
R-C23.3  trace_function runs the user's function inside `with mock_builtins(python_func)`,
         and passes the function whose globals are patched (the same object it calls).
"""

from __future__ import annotations

import ast

from ..flow import in_finally
from ..index import AnalysisError, calls_in, dotted, walk_no_nested
from ..report import Ctx

LEVEL = "other"
EXPLANATION = (
    "Save/restore pairing on the control-flow shape of the mock_builtins context manager (keys written == keys "
    "restored, old values captured first, restore in finally), a who-may-write rule over every function of both "
    "packages for user namespace dictionaries, and an enclosure rule for the call of the traced function."
)

NS_ATTRS = ("__globals__", "f_globals", "f_locals", "f_builtins", "__builtins__", "__dict__")
MUTATORS = ("update", "pop", "setdefault", "clear", "popitem", "__setitem__", "__delitem__")


def ns_writes(fn: ast.AST) -> list[tuple[ast.AST, str]]:
    """Statements/calls in fn that write through a namespace-dict attribute -- directly (`f.__globals__[k] = v`) or through a
    local that was bound to one (`ns = f.__globals__; ns.update(...)`), or through a parameter that a caller in the same
    module binds to one is NOT followed here (the caller's module is allow-listed as a whole instead)."""
    out = []
    alias: dict[str, str] = {}
    for n in walk_no_nested(fn):
        if isinstance(n, ast.Assign) and len(n.targets) == 1 and isinstance(n.targets[0], ast.Name) and isinstance(n.value, ast.Attribute) and n.value.attr in NS_ATTRS:
            alias[n.targets[0].id] = n.value.attr

    def ns_of(e: ast.expr) -> str | None:
        if isinstance(e, ast.Attribute) and e.attr in NS_ATTRS:
            return e.attr
        if isinstance(e, ast.Name) and e.id in alias:
            return alias[e.id]
        return None

    for n in walk_no_nested(fn):
        tgts: list[ast.expr] = []
        if isinstance(n, ast.Assign):
            tgts = n.targets
        elif isinstance(n, (ast.AugAssign, ast.AnnAssign)):
            tgts = [n.target]
        elif isinstance(n, ast.Delete):
            tgts = n.targets
        for t in tgts:
            if isinstance(t, ast.Subscript) and ns_of(t.value):
                out.append((n, ns_of(t.value)))
        if isinstance(n, ast.Call) and isinstance(n.func, ast.Attribute) and n.func.attr in MUTATORS and ns_of(n.func.value):
            out.append((n, ns_of(n.func.value)))
    return out


def run(ctx: Ctx) -> None:
    idx = ctx.idx
    mb = idx.find_func("mock_builtins", "guppylang_internals.tracing.builtins_mock")
    ctx.saw("functions", mb.qualname)
    fn = mb.node
    fparam = fn.args.args[0].arg if fn.args.args else None
    ctx.check("contextmanager" in mb.decorator_names(), "R-C23.1", f"{mb.qualname}#contextmanager", mb.where,
              {"decorators": mb.decorator_names()}, "mock_builtins is used in a `with`; it must be a context manager")
    # semantic evaluation of save/install/restore on all small namespaces; the shape rules below about *how* the old
    # values are saved and restored only apply when the function is not in the evaluable form
    from . import c23_eval
    semantic = c23_eval.run(ctx, mb)
    shape_check = (lambda *a, **k: True) if semantic else ctx.check
    if not semantic:
        # only when the generator is not of the form "statements; try: …yield…; finally: …" that c23_eval interprets
        # (both exits, all small namespaces): then the lexical rules about saving/restoring are all there is
        _shape_rules(ctx, idx, mb, fn, fparam, shape_check)
    _after_shape(ctx, idx, mb)


def _shape_rules(ctx, idx, mb, fn, fparam, shape_check) -> None:
    yields = [n for n in walk_no_nested(fn) if isinstance(n, ast.Yield)]
    if len(yields) != 1:
        ctx.undecided("R-C23.1", f"{mb.qualname}#shape", mb.where, f"{len(yields)} yields")
        return
    y = yields[0]
    # the try/finally around the yield
    trys = [t for t in walk_no_nested(fn) if isinstance(t, ast.Try) and t.finalbody and any(x is y for b in t.body for x in ast.walk(b))]
    ctx.check(bool(trys), "R-C23.1", f"{mb.qualname}#yield-in-try-finally", mb.where, {"try_finally_around_yield": bool(trys)},
              "if tracing raises, the shadowed builtins (int/float/len) stay in the user's module globals")
    # handlers that swallow: a bare except around yield that doesn't re-raise is a separate matter; not required
    writes = ns_writes(fn)
    before = [(n, a) for n, a in writes if n.lineno < y.lineno]
    after = [(n, a) for n, a in writes if n.lineno > y.lineno]
    ctx.floor("R-C23.1", "namespace writes before the yield", len(before), 1)

    # locals bound to dict displays / comprehensions
    binds: dict[str, ast.expr] = {}
    bind_line: dict[str, int] = {}
    for n in walk_no_nested(fn):
        if isinstance(n, ast.Assign) and len(n.targets) == 1 and isinstance(n.targets[0], ast.Name):
            binds[n.targets[0].id] = n.value
            bind_line[n.targets[0].id] = n.lineno

    def keyset(e: ast.expr) -> tuple[str, frozenset | None]:
        """('const', {'int',...}) for a dict display of constants, ('name', None) otherwise."""
        if isinstance(e, ast.Name) and e.id in binds:
            return keyset(binds[e.id])
        if isinstance(e, ast.Dict) and all(isinstance(k, ast.Constant) for k in e.keys):
            return ("const", frozenset(k.value for k in e.keys))
        return ("?", None)

    written: set = set()
    written_known = True
    first_write_line = min(n.lineno for n, _ in before)
    for n, _ in before:
        if isinstance(n, ast.Call) and n.func.attr == "update" and n.args:
            k, ks = keyset(n.args[0])
            if ks is None:
                written_known = False
            else:
                written |= ks
        elif isinstance(n, ast.Assign):
            for t in n.targets:
                if isinstance(t, ast.Subscript) and isinstance(t.slice, ast.Constant):
                    written.add(t.slice.value)
                elif isinstance(t, ast.Subscript):
                    written_known = False
        else:
            written_known = False
    if not written_known:
        ctx.undecided("R-C23.1", f"{mb.qualname}#written-keys", mb.where, "cannot enumerate the keys written before the yield")
        return

    # --- old captured before update, over the written keys, only for keys present
    old_name = None
    for nm, v in binds.items():
        if isinstance(v, ast.DictComp) and len(v.generators) == 1:
            g = v.generators[0]
            reads_globals = any(isinstance(x, ast.Attribute) and x.attr in NS_ATTRS for x in ast.walk(v.value))
            if reads_globals:
                old_name = nm
                it_k, it_ks = keyset(g.iter)
                present_filter = any(
                    isinstance(c, ast.Compare) and len(c.ops) == 1 and isinstance(c.ops[0], ast.In)
                    and isinstance(c.comparators[0], ast.Attribute) and c.comparators[0].attr in NS_ATTRS for c in g.ifs)
                shape_check(bind_line[nm] < first_write_line, "R-C23.1", f"{mb.qualname}#old-captured-before-update", f"{mb.module.rel}:{bind_line[nm]}",
                          {"old_bound_at_line": bind_line[nm], "first_write_at_line": first_write_line},
                          "the 'old' values are read after the mocks were installed: the restore re-installs the mocks for good "
                          "(nested comptime calls and user bindings of int/float/len are lost)")
                shape_check(it_ks is not None and it_ks >= written and present_filter, "R-C23.1", f"{mb.qualname}#old-covers-written-keys", f"{mb.module.rel}:{bind_line[nm]}",
                          {"old_iterates": sorted(it_ks) if it_ks else None, "written": sorted(written), "only_if_present": present_filter},
                          "a user binding for a shadowed name is not saved (or a missing one is looked up): it cannot be restored")
    if old_name is None:
        ctx.undecided("R-C23.1", f"{mb.qualname}#old", mb.where, "no dict comprehension capturing the previous globals found")
        return

    # --- restore in finally: delete keys not in old, update(old)
    in_fin = [(n, a) for n, a in after if in_finally(fn, n)]
    not_fin = [(n, a) for n, a in after if not in_finally(fn, n)]
    ctx.check(bool(in_fin) and not not_fin, "R-C23.1", f"{mb.qualname}#restore-in-finally", mb.where,
              {"restores_in_finally": len(in_fin), "restores_outside_finally": [n.lineno for n, _ in not_fin]},
              "restoring the user's globals is skipped when tracing raises")
    restored_update = any(isinstance(n, ast.Call) and n.func.attr == "update" and n.args and dotted(n.args[0]) == old_name for n, _ in in_fin)
    # deletion loop: for x in <written keys>: if x not in old: del globals[x]
    deleted: frozenset | None = None
    del_guard_ok = False
    for n, _ in in_fin:
        if isinstance(n, ast.Delete) or (isinstance(n, ast.Call) and n.func.attr == "pop"):
            # find enclosing for
            for loop in walk_no_nested(fn):
                if isinstance(loop, ast.For) and any(x is n for x in ast.walk(loop)):
                    _, ks = keyset(loop.iter)
                    deleted = ks
                    var = dotted(loop.target)
                    from ..guards import lexical_guards
                    gs = lexical_guards(loop, n) or []
                    for e, pol in gs:
                        if isinstance(e, ast.Compare) and len(e.ops) == 1 and dotted(e.left) == var and dotted(e.comparators[0]) == old_name:
                            if (isinstance(e.ops[0], ast.NotIn) and pol) or (isinstance(e.ops[0], ast.In) and not pol):
                                del_guard_ok = True
    # alternative restore shape: per-key loop assigning old values
    shape_check(restored_update and deleted is not None and deleted >= written and del_guard_ok, "R-C23.1",
              f"{mb.qualname}#restore-covers-written-keys", mb.where,
              {"update_old": restored_update, "deleted_keys": sorted(deleted) if deleted else None, "written": sorted(written),
               "delete_only_if_not_in_old": del_guard_ok},
              "after tracing, some shadowed name keeps the mock (not restored) or a user binding is deleted")
    # target of writes is the parameter's globals
    tg = {ast.unparse(n.func.value.value) if isinstance(n, ast.Call) else ast.unparse(
        (n.targets[0] if isinstance(n, (ast.Assign, ast.Delete)) else n.target).value.value) for n, _ in writes}
    ctx.check(tg == {fparam}, "R-C23.1", f"{mb.qualname}#same-namespace", mb.where, {"objects": sorted(tg), "param": fparam},
              "install and restore act on different namespaces")



def _after_shape(ctx, idx, mb) -> None:
    # ------------------------------------------------------------ R-C23.2 who may write
    ALLOWED = {
        mb.qualname: "the save/restore pair checked by R-C23.1",
    }
    offenders = []
    n_funcs = 0
    for f in idx.iter_funcs(("guppylang_internals", "guppylang")):
        n_funcs += 1
        ws = ns_writes(f.node)
        if ws and f.qualname not in ALLOWED and f.module.name != mb.module.name:  # helpers of the pair live in its module; R-C23.1 decides the pair as a whole
            for n, a in ws:
                offenders.append({"function": f.qualname, "where": f"{f.module.rel}:{n.lineno}", "through": a, "stmt": ast.unparse(n)[:80]})
    # C11 owns the check_nested_func_def f_locals write (reported there); here only tracing-time writers matter:
    tracing_offenders = [o for o in offenders if ".tracing." in o["function"] or ".definition.traced" in o["function"]
                         or ".definition.pytket" in o["function"]]
    ctx.check(not tracing_offenders, "R-C23.2", "who-may-write#user-namespaces(tracing)", "guppylang_internals/tracing/**",
              {"functions_scanned": n_funcs, "writers": tracing_offenders, "other_writers_reported_under_C11": [o["function"] for o in offenders if o not in tracing_offenders]},
              "a tracing-time function writes into the user's module/frame namespace without a paired restore")

    # ------------------------------------------------------------ R-C23.3 enclosure
    tf = idx.find_func("trace_function", "guppylang_internals.tracing.function")
    ctx.saw("functions", tf.qualname)
    pf = tf.node.args.args[0].arg
    calls_user = [c for c in calls_in(tf.node) if isinstance(c.func, ast.Name) and c.func.id == pf]
    ctx.floor("R-C23.3", "calls of the traced python function", len(calls_user), 1)
    for i, c in enumerate(calls_user):
        enclosing = [w for w in walk_no_nested(tf.node) if isinstance(w, ast.With) and any(x is c for b in w.body for x in ast.walk(b))]
        mocks = [it.context_expr for w in enclosing for it in w.items
                 if isinstance(it.context_expr, ast.Call) and dotted(it.context_expr.func) == "mock_builtins"]
        arg_ok = bool(mocks) and all(len(m.args) == 1 and dotted(m.args[0]) == pf for m in mocks)
        ctx.check(arg_ok, "R-C23.3", f"{tf.qualname}#user-call-inside-mock_builtins[{i}]", f"{tf.module.rel}:{c.lineno}",
                  {"enclosing_mock_builtins": [ast.unparse(m) for m in mocks]},
                  "the traced function runs without (or with another function's) mocked builtins")
