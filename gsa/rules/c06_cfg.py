"""R-C06.2 (semantic form, CFG level)  values consumed twice across blocks / leaked at a block's end -- `check_cfg_linearity`, interpreted.

`check_cfg_linearity` is interpreted as a whole from its syntax tree with the real `Scope` / `Locals` methods (`used`, lookup,
`values`, `stats`) on scope objects that the per-block checker (a recorder) hands out, and with the place-level liveness
analysis replaced by a table.  One place `x` (a single leaf) is followed through small CFGs:

  used and still live   entry -> b -> next -> exit, optionally with b also its own successor (a loop body);  {copyable or not} x
                        {used in b or not} x {live before the successor or not} x {loop or not}:
                        rejected iff  not copyable and used and (live before the successor or the block runs again)
  leaked at block end   a block with one or two successors;  {droppable or not} x {used in the block or not} x {live before
                        each successor or not} x {live before the block / assigned in the block} x {needed at the function's exit or not}:
                        rejected iff  not droppable and not used and not live before EVERY successor and (live here or assigned here)

  rebound name          b: `consume(x); x = <new value>` with x a non-droppable value live before b;  {new value droppable or not} x {used in b or not} x
                        {live before the successor or not}:  rejected iff the NEW value is not droppable, not used and not live later -- the consumed
                        old value is never reported

and in every accepted case the function returns normally (a checked CFG is built).
"""

from __future__ import annotations

import itertools

from ..absint.minieval import Unsupported
from ..absint.pyeval import PyEval, Raised, Tok, with_kwargs
from ..index import dotted
from ..report import Ctx

LC = "guppylang_internals.checker.linearity_checker"


class NamesEval(PyEval):
    """`InputFlags.X` / `UseKind.X` evaluate to their dotted names."""

    def attr(self, value, name, node, env):
        d = dotted(node)
        if d and d.split(".")[-2:-1] in (["InputFlags"], ["UseKind"]):
            return ".".join(d.split(".")[-2:])
        return super().attr(value, name, node, env)


def run(ctx: Ctx) -> bool:
    idx = ctx.idx
    f = idx.find_func("check_cfg_linearity", LC)
    scope_cls = idx.find_class("Scope", LC)
    ps = [a.arg for a in f.node.args.args]

    def mk_scope(name, own: dict, parent=None, used_local=None, used_parent=None):
        return Tok(name, __classes__=scope_cls.mro(), vars=dict(own), parent_scope=parent, used_local=dict(used_local or {}), used_parent=dict(used_parent or {}), __ident__=1)

    def block(name, succs=()):
        b = Tok(name, idx=0, statements=[], branch_pred=Tok("pred"), reachable=True, successors=list(succs), __ident__=1)
        b.attrs["sig"] = Tok("sig", input_row=[], output_rows=[[] for _ in succs])
        return b

    def interpret(cfg, scopes, live_before):
        @with_kwargs
        def m_check(r, a, kw):
            return scopes[a[0]]

        hooks = {
            "BBLinearityChecker": lambda node, e, env: Tok("bb_checker", __methods__={"check": m_check}),
            "leaf_places": lambda node, e, env: [e.ev(node.args[0], env)],
            "LivenessAnalysis": lambda node, e, env: Tok("liveness", __methods__={"run": lambda r, a: live_before}),
            "VariableStats": lambda node, e, env: Tok("stats"),
            "has_explicit_copy": lambda node, e, env: False,
            "CheckedCFG": lambda node, e, env: Tok("result_cfg", __ident__=1),
            "Signature": lambda node, e, env: Tok("signature"),
            "CheckedBB": lambda node, e, env: Tok("checked_bb", __ident__=1),
            "isinstance": lambda node, e, env: (e.ev(node.args[0], env).attrs.get("__class__") == dotted(node.args[1]).split(".")[-1]) if dotted(node.args[1]) in ("InoutReturnSentinel",) else _default_isinstance(node, e, env),
        }
        del hooks["isinstance"]
        env = {ps[0]: cfg, ps[1]: "f", ps[2]: Tok("globals"), **hooks}
        ev = NamesEval(idx, LC, max_depth=10)
        ev.lenient = True
        try:
            out = ev.run(f.node.body, env)
            return ("raise", str(out[1])) if out[0] == "raise" else ("ok", out[1] if out[0] == "return" else None)
        except Raised as e:
            return ("raise", e.cls or str(e))

    def place(copyable, droppable, name="x_place"):
        ty = Tok("ty", copyable=copyable, droppable=droppable, __ident__=1)
        return Tok(name, id="x", name="x", ty=ty, defined_at=Tok("def_x"), flags=set(), __ident__=1)

    decided = True
    # ---------------------------------------------------------------- used and still live
    key = f"{f.qualname}#used-and-still-live"
    bad = []
    try:
        for copyable, used, live, loop in itertools.product((False, True), repeat=4):
            # entry -> b -> next -> exit, and with `loop` also b -> b (the block is a loop body that runs again)
            x = place(copyable, True)
            ex = block("exit")
            nxt = block("next", [ex])
            b = block("b", [nxt])
            if loop:
                b.attrs["successors"] = [b, nxt]
                b.attrs["sig"].attrs["output_rows"] = [[], []]
            entry = block("entry", [b])
            entry.attrs["sig"].attrs["input_row"] = []
            use = Tok("use", node=Tok("use_node"), kind="UseKind.MOVE")
            parent = mk_scope("inputs_of_b", {"x": x}, used_local={"x": use} if used else {})
            live_b = {"x": b} if used else ({"x": nxt} if live else {})
            # (x reaches b from the entry block whenever it is live before b)
            scopes = {entry: mk_scope("scope_entry", {"x": x} if live_b else {}), b: mk_scope("scope_b", {}, parent=parent, used_parent={"x": use} if used else {}),
                      nxt: mk_scope("scope_next", {}, parent=mk_scope("inputs_of_next", {"x": x}, used_local={"x": use}), used_parent={"x": Tok("later_use", node=Tok("later_node"), kind="UseKind.MOVE")}),
                      ex: mk_scope("scope_exit", {})}
            live_before = {entry: {}, b: live_b, nxt: {"x": nxt} if live else {}, ex: {}}
            cfg = Tok("cfg", bbs=[entry, b, nxt, ex], entry_bb=entry, exit_bb=ex, input_tys=[], output_ty=Tok("none"), live_before={k: {} for k in (entry, b, nxt, ex)},
                      ass_before={k: set() for k in (entry, b, nxt, ex)}, maybe_ass_before={k: set() for k in (entry, b, nxt, ex)}, __ident__=1)
            res = interpret(cfg, scopes, live_before)
            want = (not copyable) and used and (live or loop)
            if (res[0] == "raise") != want or (want and "GuppyError" not in res[1]):
                bad.append({"copyable": copyable, "used_in_the_block": used, "live_before_the_successor": live, "block_is_its_own_successor": loop,
                            "outcome": res[1] if res[0] == "raise" else "accepted", "should_be": "rejected" if want else "accepted"})
        ctx.check(not bad, "R-C06.2", key, f.where, {"rows": 16, "counterexamples": bad[:4]},
                  "a non-copyable value that was used in a block is still passed on to a successor that uses it again (use after consumption across blocks)")
    except Unsupported as e:
        ctx.undecided("R-C06.2", key, f.where, str(e))
        decided = False

    # ---------------------------------------------------------------- leaked at the end of a block
    key = f"{f.qualname}#unused-and-not-live"
    bad = []
    n = 0
    try:
        for n_succ, at_exit in itertools.product((1, 2), (False, True)):
            for droppable, used, here in itertools.product((False, True), (False, True), ("live here", "assigned here", "neither")):
                for lives in itertools.product((False, True), repeat=n_succ):
                    n += 1
                    x = place(False, droppable)
                    ex = block("exit")
                    succs = [block(f"succ{i}", [ex]) for i in range(n_succ)]
                    b = block("b", succs)
                    entry = block("entry", [b])
                    use = Tok("use", node=Tok("use_node"), kind="UseKind.MOVE")
                    if here == "assigned here":
                        sb = mk_scope("scope_b", {"x": x}, parent=mk_scope("inputs_of_b", {}), used_local={"x": use} if used else {})
                    else:
                        sb = mk_scope("scope_b", {}, parent=mk_scope("inputs_of_b", {"x": x}, used_local={"x": use} if used else {}), used_parent={"x": use} if used else {})
                    scopes = {entry: mk_scope("scope_entry", {"x": x} if here == "live here" else {}), b: sb, ex: mk_scope("scope_exit", {})}
                    # (a value consumed in this block is not passed on: keep the scenario consistent with the first check)
                    lives_eff = tuple(lv and not used for lv in lives)
                    live_before = {entry: {}, b: {"x": b} if here == "live here" else {}, ex: {}}
                    if at_exit:
                        # x is needed at the function's exit (an implicitly returned borrowed place): a successor where x is live hands
                        # it through untouched, a successor where it is not live assigns it anew -- so only block b is under test
                        use_exit = Tok("use_at_exit", node=Tok("exit_node"), kind="UseKind.RETURN")
                        scopes[ex] = mk_scope("scope_exit", {}, parent=mk_scope("inputs_of_exit", {"x": x}, used_local={"x": use_exit}), used_parent={"x": use_exit})
                        live_before[ex] = {"x": ex}
                        for i, (s, lv) in enumerate(zip(succs, lives_eff)):
                            if lv:
                                scopes[s] = mk_scope(f"scope_succ{i}", {}, parent=mk_scope(f"inputs_of_succ{i}", {"x": x}))
                                live_before[s] = {"x": ex}
                            else:
                                scopes[s] = mk_scope(f"scope_succ{i}", {"x": place(False, droppable)}, parent=mk_scope(f"inputs_of_succ{i}", {}))
                                live_before[s] = {}
                    else:
                        for i, (s, lv) in enumerate(zip(succs, lives_eff)):
                            # (each successor consumes x itself, so that only block b is under test)
                            scopes[s] = mk_scope(f"scope_succ{i}", {}, parent=mk_scope(f"inputs_of_succ{i}", {"x": x}, used_local={"x": use}), used_parent={"x": use})
                            live_before[s] = {"x": s} if lv else {}
                    blocks = [entry, b, *succs, ex]
                    cfg = Tok("cfg", bbs=blocks, entry_bb=entry, exit_bb=ex, input_tys=[], output_ty=Tok("none"), live_before={k: {} for k in blocks},
                              ass_before={k: set() for k in blocks}, maybe_ass_before={k: set() for k in blocks}, __ident__=1)
                    res = interpret(cfg, scopes, live_before)
                    want = (not droppable) and (not used) and (not all(lives_eff)) and here != "neither"
                    if (res[0] == "raise") != want or (want and "GuppyError" not in res[1]):
                        bad.append({"successors": n_succ, "droppable": droppable, "used_in_the_block": used, "live_before_successors": list(lives_eff), "in_this_block": here,
                                    "needed_at_the_function_exit": at_exit, "outcome": res[1] if res[0] == "raise" else "accepted", "should_be": "rejected (leaked)" if want else "accepted"})
        ctx.check(not bad, "R-C06.2", key, f.where, {"rows": n, "counterexamples": bad[:4], "n_counterexamples": len(bad)},
                  "a non-droppable value (qubit) that is neither used in a block nor needed by all successors is silently discarded on some path")
    except Unsupported as e:
        ctx.undecided("R-C06.2", key, f.where, str(e))
        decided = False
    # ---------------------------------------------------------------- a consumed value's name is bound again in the same block
    key = f"{f.qualname}#rebound-name-judged-by-its-own-use"
    bad = []
    n = 0
    try:
        for new_droppable, new_used, new_live in itertools.product((False, True), repeat=3):
            # entry -> b -> succ -> exit;  b:  consume(x); x = <new value>   (x: a qubit that is live before b)
            n += 1
            old = place(False, False)
            new = place(False, new_droppable, "new_x_place")
            new.attrs["defined_at"] = Tok("def_new_x")
            ex = block("exit")
            succ = block("succ", [ex])
            b = block("b", [succ])
            entry = block("entry", [b])
            use_old = Tok("use_old", node=Tok("consume_node"), kind="UseKind.MOVE")
            use_new = Tok("use_new", node=Tok("use_new_node"), kind="UseKind.MOVE")
            sb = mk_scope("scope_b", {"x": new}, parent=mk_scope("inputs_of_b", {"x": old}, used_local={"x": use_old}), used_local={"x": use_new} if new_used else {}, used_parent={"x": use_old})
            lives = new_live and not new_used
            scopes = {entry: mk_scope("scope_entry", {"x": old}), b: sb, ex: mk_scope("scope_exit", {}),
                      succ: mk_scope("scope_succ", {}, parent=mk_scope("inputs_of_succ", {"x": new}, used_local={"x": use_new}), used_parent={"x": use_new})}
            live_before = {entry: {}, b: {"x": b}, succ: {"x": succ} if lives else {}, ex: {}}
            blocks = [entry, b, succ, ex]
            cfg = Tok("cfg", bbs=blocks, entry_bb=entry, exit_bb=ex, input_tys=[], output_ty=Tok("none"), live_before={k: {} for k in blocks},
                      ass_before={k: set() for k in blocks}, maybe_ass_before={k: set() for k in blocks}, __ident__=1)
            res = interpret(cfg, scopes, live_before)
            want = (not new_droppable) and (not new_used) and (not lives)
            if (res[0] == "raise") != want or (want and "GuppyError" not in res[1]):
                bad.append({"block": "consume(x); x = <new value>   (x: non-droppable, live before the block)", "new_value_droppable": new_droppable, "new_value_used_in_the_block": new_used,
                            "new_value_live_before_the_successor": lives, "outcome": res[1] if res[0] == "raise" else "accepted",
                            "should_be": "rejected (the new value is leaked)" if want else "accepted (the old value was consumed exactly once, the new one may be dropped / is used)"})
        ctx.check(not bad, "R-C06.2", key, f.where, {"rows": n, "counterexamples": bad[:4], "n_counterexamples": len(bad)},
                  "after `q = measure(q)` in a branch the consumed qubit is judged by the use record of the NEW value bound to its name: "
                  "a program that consumes the qubit exactly once on every path is rejected as leaking it")
    except Unsupported as e:
        ctx.undecided("R-C06.2", key, f.where, str(e))
        decided = False
    return decided


def _default_isinstance(node, e, env):  # pragma: no cover - placeholder, the isinstance hook is removed before use
    raise Unsupported("isinstance hook")
