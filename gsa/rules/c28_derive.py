"""R-C28.2 (semantic form)  deriving a configuration never changes the one it was derived from.

Every `with_*` / `*_sim` method of `EmulatorInstance` and every `with_*` method of `EmulatorBuilder` is interpreted from its
syntax tree (helpers followed) on a configuration built from identity-carrying tokens: an options object with a simulator
object inside it, a dict of custom build arguments.  `dataclasses.replace` and `copy.copy` are modelled by their contract
(a NEW object of the same class with the named fields exchanged / the same fields: shallow), constructors of external
classes return a new object per call.

Decided, per method, starting from an unseeded and from an already seeded configuration: the result is a new configuration
object (not `self`); the object passed in by the caller is exactly as before; `self`, its options object, its simulator and its
dict options are exactly as before (identity of every field and content of every container: a deep snapshot is compared);
the value passed in ends up in the result; `with_seed` gives the result its own simulator object carrying the seed while the
original simulator keeps its seed; the `*_sim` methods install a simulator object that is new on every call.
"""

from __future__ import annotations

from ..absint.minieval import Opaque, Unsupported
from ..absint.pyeval import PyEval, Raised, Tok
from ..report import Ctx

_c = [0]


def _new(name, cls, **attrs) -> Tok:
    _c[0] += 1
    return Tok(f"{name}#{_c[0]}", __class__=cls, __ident__=1, **attrs)


def _fields(t: Tok) -> dict:
    return {k: v for k, v in t.attrs.items() if not k.startswith("__")}


def _snapshot(t, depth=3):
    """Identity of every field plus content of containers, recursively."""
    if isinstance(t, Tok) and depth > 0:
        return ("obj", id(t), tuple((k, _snapshot(v, depth - 1)) for k, v in sorted(_fields(t).items())))
    if isinstance(t, dict):
        return ("dict", id(t), tuple((repr(k), _snapshot(v, depth - 1)) for k, v in t.items()))
    if isinstance(t, list):
        return ("list", id(t), tuple(_snapshot(v, depth - 1) for v in t))
    return ("val", id(t) if isinstance(t, (Tok, Opaque)) else repr(t))


def _h_replace(node, e, env):
    obj = e.ev(node.args[0], env)
    if not isinstance(obj, Tok):
        raise Unsupported(f"replace of {obj!r}")
    kws = {}
    for k in node.keywords:
        v = e.ev(k.value, env)
        if k.arg is None:
            if not isinstance(v, dict):
                raise Unsupported("replace(**non-dict)")
            kws.update(v)
        else:
            kws[k.arg] = v
    unknown = [k for k in kws if k not in obj.attrs]
    if unknown:
        raise Raised(f"replace: unknown field {unknown[0]}", "TypeError")
    cls_attrs = {k: v for k, v in obj.attrs.items() if k.startswith("__")}
    out = _new(obj.name.split("#")[0], obj.attrs.get("__class__", "?"), **{**_fields(obj), **kws})
    out.attrs.update({k: v for k, v in cls_attrs.items() if k not in ("__class__", "__ident__")})
    return out


def _h_copy(node, e, env):
    obj = e.ev(node.args[0], env)
    if isinstance(obj, Tok):
        out = _new(obj.name.split("#")[0], obj.attrs.get("__class__", "?"), **_fields(obj))
        out.attrs.update({k: v for k, v in obj.attrs.items() if k.startswith("__") and k not in ("__class__", "__ident__")})
        return out
    if isinstance(obj, dict):
        return dict(obj)
    if isinstance(obj, list):
        return list(obj)
    raise Unsupported(f"copy of {obj!r}")


def _arg_for(ann: str, falsy: bool = False):
    """A value of the annotated type; with `falsy` the boundary value that tests false (seed 0 is a seed)."""
    a = ann.replace(" ", "")
    if a.startswith("int"):
        return 0 if falsy else 7
    if a.startswith("bool"):
        return not falsy
    if a.startswith("str"):
        return "text"
    if a.startswith("float"):
        return 0.0 if falsy else 0.5
    return _new("given_value", a.split("|")[0] or "object")


def _contains(t, needle, depth=4) -> bool:
    if t is needle or (not isinstance(needle, (Tok, Opaque)) and t == needle and type(t) is type(needle)):
        return True
    if depth <= 0:
        return False
    if isinstance(t, Tok):
        return any(_contains(v, needle, depth - 1) for v in _fields(t).values())
    if isinstance(t, dict):
        return any(_contains(v, needle, depth - 1) or _contains(k, needle, 0) for k, v in t.items())
    if isinstance(t, (list, tuple)):
        return any(_contains(v, needle, depth - 1) for v in t)
    return False


def run(ctx: Ctx, inst_cls, bld_cls) -> bool:
    import ast
    idx = ctx.idx
    decided = True

    def world(cls, seed=None):
        sim = _new("simulator", "Quest", random_seed=seed)
        opts = _new("options", "_Options", _simulator=sim, _seed=seed, _shots=1, _runtime=_new("runtime", "Runtime"), _error_model=_new("error_model", "ErrorModel"),
                    _event_hook=_new("hook", "EventHook"), _verbose=False, _timeout=None, _n_processes=1, _results_logfile=None, _display_progress_bar=False,
                    _shot_offset=0, _shot_increment=1)
        if cls is inst_cls:
            me = _new("instance", "EmulatorInstance", _instance=_new("selene", "SeleneInstance"), _n_qubits=3, _options=opts)
        else:
            me = _new("builder", "EmulatorBuilder", _name=None, _build_dir=None, _verbose=False, _planner=None, _utilities=None, _interface=None,
                      _progress_bar=False, _strict=False, _save_planner=False, _custom_args={"k0": _new("arg0", "object")})
        # fields the model does not know are read from the class body lazily by the interpreter (class constants) or stay opaque
        me.attrs["__classes__"] = cls.mro()
        return me, opts, sim

    for cls, label in ((inst_cls, "configuration"), (bld_cls, "builder")):
        # dataclass fields not in the model: add them so that `replace(self, field=…)` knows them
        declared = [n for k in reversed(cls.mro()) for n, _ in k.own_fields()]
        for name, f in sorted(cls.methods.items()):
            if not (name.startswith("with_") or (cls is inst_cls and name.endswith("_sim"))):
                continue
            key = f"{f.qualname}#derives-without-touching-the-original"
            ps = f.node.args.posonlyargs + f.node.args.args
            bad = []
            try:
                results = []
                for rep in range(4):
                    # the third run starts from a configuration that already has a seed; the fourth passes the falsy boundary value (0, False)
                    me, opts, sim = world(cls, seed=11 if rep == 2 else None)
                    for d in declared:
                        me.attrs.setdefault(d, None)
                    env = {ps[0].arg: me, "replace": _h_replace, "copy.copy": _h_copy, "dataclasses.replace": _h_replace}
                    given = []
                    for p in ps[1:]:
                        v = _arg_for(ast.unparse(p.annotation) if p.annotation is not None else "", falsy=rep == 3)
                        env[p.arg] = v
                        given.append(v)
                    before = _snapshot(me)
                    given_before = [_snapshot(g) for g in given]
                    ev = PyEval(idx, f.module.name, max_depth=8)
                    try:
                        out = ev.run(f.node.body, env)
                    except Raised as e:
                        bad.append({"problem": f"raises {e.cls or e}"})
                        break
                    res = out[1] if out[0] == "return" else None
                    results.append((me, opts, sim, res))
                    if out[0] != "return" or not isinstance(res, Tok) or res.attrs.get("__class__") != me.attrs["__class__"]:
                        bad.append({"problem": f"does not return a {label} ({out[0]} {res!r})"})
                        break
                    if res is me:
                        bad.append({"problem": f"returns the {label} it was called on"})
                    if _snapshot(me) != before:
                        bad.append({"problem": f"the original {label} (or an object it shares: options, simulator, dict option) is changed"})
                    if [_snapshot(g) for g in given] != given_before:
                        bad.append({"problem": "the object passed in by the caller is changed (it may be shared with other configurations)",
                                    "starting_from_a_seeded_configuration": rep == 2})
                    for g in given:
                        if not _contains(res, g):
                            bad.append({"problem": f"the given value {g!r} does not end up in the result"})
                    if name == "with_seed":
                        rs = res.attrs["_options"].attrs.get("_simulator") if isinstance(res.attrs.get("_options"), Tok) else None
                        if not isinstance(rs, Tok) or rs is sim or rs.attrs.get("random_seed") != given[0] or res.attrs["_options"].attrs.get("_seed") != given[0]:
                            bad.append({"problem": "the seeded configuration does not get its own simulator object carrying the seed"})
                    if bad:
                        break
                if not bad and name.endswith("_sim") and len(results) >= 2:
                    s0 = results[0][3].attrs["_options"].attrs.get("_simulator")
                    s1 = results[1][3].attrs["_options"].attrs.get("_simulator")
                    if s0 is results[0][2] or s0 is s1 or not isinstance(s0, (Tok, Opaque)):
                        bad.append({"problem": "the installed simulator is not a newly constructed object on every call"})
            except Unsupported as e:
                ctx.undecided("R-C28.2", key, f.where, str(e))
                decided = False
                continue
            ctx.check(not bad, "R-C28.2", key, f.where, {"counterexamples": bad[:2]},
                      f"`{name}` changes (or returns) the {label} it was called on, or an object both share: a later derivation or run of the "
                      f"earlier {label} sees the change")
    return decided


def run_plumbing(ctx: Ctx, inst_cls) -> bool:
    """R-C28.3 (semantic form): `_run_instance` hands the backend this configuration's own options, and leaves them alone.

    Interpreted with every option holding a distinct token and `self._instance.run_shots` as a recorder: the seed and the
    simulator that reach the backend are this configuration's `_seed` / `_simulator` objects, every other keyword that is
    passed carries the option of the same meaning, and the configuration (options, simulator) is unchanged afterwards."""
    idx = ctx.idx
    f = inst_cls.methods.get("_run_instance")
    key = f"{f.qualname}#passes-configured-seed-and-simulator"
    table = {"simulator": "_simulator", "runtime": "_runtime", "n_shots": "_shots", "event_hook": "_event_hook", "error_model": "_error_model", "verbose": "_verbose",
             "timeout": "_timeout", "results_logfile": "_results_logfile", "random_seed": "_seed", "shot_offset": "_shot_offset", "shot_increment": "_shot_increment",
             "n_processes": "_n_processes"}
    fields = sorted(set(table.values()) | {"_display_progress_bar"})
    sim = _new("simulator", "Quest", random_seed=None)
    opts = _new("options", "_Options", **{k: (sim if k == "_simulator" else _new(f"value_of{k}", "object")) for k in fields})
    seen: dict = {}

    def run_shots(r, a, kw):
        seen.update(kw)
        seen["__positional__"] = list(a)
        return _new("shot_stream", "Iterator")
    run_shots.__gsa_kwargs__ = True
    selene = _new("selene", "SeleneInstance")
    selene.attrs["__methods__"] = {"run_shots": run_shots}
    nq = _new("n_qubits_value", "object")
    me = _new("instance", "EmulatorInstance", _instance=selene, _n_qubits=nq, _options=opts)
    me.attrs["__classes__"] = inst_cls.mro()
    before = _snapshot(me, depth=4)
    try:
        out = PyEval(idx, f.module.name, max_depth=8).run(f.node.body, {f.node.args.args[0].arg: me})
    except Unsupported as e:
        ctx.undecided("R-C28.3", key, f.where, str(e))
        return False
    except Raised as e:
        ctx.violation("R-C28.3", key, f.where, {"problem": f"raises {e.cls or e}"}, "running a configuration fails")
        return True
    problems = []
    if not seen:
        problems.append("the backend's run_shots is never called")
    for kw, field in table.items():
        if kw in seen and seen[kw] is not opts.attrs[field]:
            problems.append(f"`{kw}` carries {seen[kw]!r} instead of this configuration's {field}")
    for must in ("random_seed", "simulator"):
        if seen and must not in seen:
            problems.append(f"`{must}` is not handed to the backend")
    if "n_qubits" in seen and seen["n_qubits"] is not nq:
        problems.append("`n_qubits` carries another value than the configuration's")
    if _snapshot(me, depth=4) != before:
        problems.append("running changes the configuration (or an object it shares: options, simulator)")
    if out[0] == "raise":
        problems.append(f"raises {out[1]}")
    ctx.check(not problems, "R-C28.3", key, f.where, {"keywords_seen": sorted(k for k in seen if not k.startswith("__")), "problems": problems[:4]},
              "running does not use the configuration's own seed/simulator (or changes the configuration while running)")
    return True
