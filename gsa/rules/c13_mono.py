"""R-C13.5  which arguments are monomorphised away: `partially_monomorphize_args`, by abstract interpretation.

HUGR can be generic over types and over *nat* constants only.  The function decides, per call, which arguments of a
generic function must be monomorphised (its own comment): a const parameter whose declared type is not `nat` forces
every type variable occurring in that declared type to be monomorphised; the const argument itself is monomorphised
only if its type is *still* not `nat` after instantiating the parameter's type with the call's arguments
(`def foo[T, x: T]` called with `T := nat` keeps `x` generic).

It is interpreted on the parameter lists  [T],  [n: nat],  [b: bool],  [T, x: T]  with T := nat and T := int, and
compared with that specification; `rem_args` must be the arguments that were not monomorphised, in order.
"""

from __future__ import annotations

import ast

from ..absint.minieval import Unsupported
from ..absint.pyeval import PyEval, Raised, Tok
from ..report import Ctx

MOD = "guppylang_internals.compiler.core"


def run(ctx: Ctx) -> None:
    idx = ctx.idx
    f = idx.find_func("partially_monomorphize_args", MOD)
    ctx.saw("functions", f.qualname)
    key = f"{f.qualname}#agrees-with-its-specification"
    NAT = Tok("nat", __class__="NumericType", bound_vars=[], __ident__=1)
    INT = Tok("int", __class__="NumericType", bound_vars=[], __ident__=1)
    BOOL = Tok("bool", __class__="OpaqueType", bound_vars=[], __ident__=1)

    def tvar(i):
        return Tok(f"T{i}", __class__="BoundTypeVar", idx=i, __ident__=1)

    def typaram(i):
        p = Tok(f"typaram{i}", __class__="TypeParam", idx=i, __ident__=1)
        p.attrs["__methods__"] = {"instantiate_bounds": lambda recv, a: recv}
        return p

    def cparam(i, ty):
        def inst(recv, a, ty=ty, i=i):
            t = ty
            if ty.attrs.get("__class__") == "BoundTypeVar":
                arg = a[0][ty.attrs["idx"]]
                t = arg.attrs["ty"]
            return Tok(f"cparam{i}'", __class__="ConstParam", idx=i, ty=t, __ident__=1)
        # the declared type T0 mentions the bound variable T0
        declared = ty if ty.attrs.get("__class__") != "BoundTypeVar" else Tok(ty.name, __class__="BoundTypeVar", idx=ty.attrs["idx"], bound_vars=[ty], __ident__=1)
        return Tok(f"cparam{i}", __class__="ConstParam", idx=i, ty=declared, __ident__=1, __methods__={"instantiate_bounds": inst})

    def targ(t):
        return Tok(f"TypeArg({t.name})", __class__="TypeArg", ty=t, bound_vars=[], __ident__=1)

    def carg(name):
        return Tok(f"ConstArg({name})", __class__="ConstArg", bound_vars=[], __ident__=1)

    cases = [
        ("[T] T:=int", [typaram(0)], [targ(INT)], [None]),
        ("[n: nat]", [cparam(0, NAT)], [carg("5")], [None]),
        ("[b: bool]", [cparam(0, BOOL)], [carg("True")], [0]),
        ("[T, x: T] T:=nat", [typaram(0), cparam(1, tvar(0))], [targ(NAT), carg("7")], [0, None]),
        ("[T, x: T] T:=int", [typaram(0), cparam(1, tvar(0))], [targ(INT), carg("7")], [0, 1]),
        ("[n: nat, b: bool]", [cparam(0, NAT), cparam(1, BOOL)], [carg("5"), carg("True")], [None, 1]),
    ]
    ps = [a.arg for a in f.node.args.args]
    bad = []
    for label, params, args, want in cases:
        ev = PyEval(idx, MOD)
        env = {ps[0]: params, ps[1]: list(args), ps[2]: Tok("ctx", current_mono_args=None, __ident__=1), "nat_type": lambda n, e, en: NAT}
        try:
            out = ev.run_function(f, env)
        except Unsupported as e:
            ctx.undecided("R-C13.5", key, f.where, f"{label}: {e}")
            return
        except Raised as e:
            bad.append({"case": label, "problem": f"raises {e}"})
            continue
        if out[0] != "return" or not isinstance(out[1], (tuple, list)) or len(out[1]) != 2:
            bad.append({"case": label, "problem": f"returns {out!r}"[:120]})
            continue
        mono, rem = out[1]
        want_mono = [None if w is None else args[w] for w in want]
        want_rem = [a for a, w in zip(args, want) if w is None]
        if list(mono) != want_mono or list(rem) != want_rem:
            bad.append({"case": label, "monomorphised": [None if m is None else m.name for m in mono], "expected": [None if m is None else m.name for m in want_mono],
                        "remaining": [a.name for a in rem], "expected_remaining": [a.name for a in want_rem]})
    ctx.check(not bad, "R-C13.5", key, f.where, {"cases": len(cases), "counterexamples": bad[:3]},
              "a generic call monomorphises the wrong arguments: a const argument whose type became `nat` by instantiation is specialised away "
              "(and may still mention the caller's variables), or one that HUGR cannot express stays generic")
