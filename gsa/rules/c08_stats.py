"""R-C08.6 (semantic form)  a block "uses" exactly the names it reads before assigning them.

`BB.compute_variable_stats` with the whole `VariableVisitor` (visit methods, helpers, the inner visitor of comprehensions) is
interpreted from the syntax trees on small blocks written as token trees of Python / Guppy AST nodes; the NodeVisitor
protocol (`visit` -> `visit_<Class>` or `generic_visit` over the node's fields) is supplied by the interpreter, the liveness
analysis of nested function bodies / modifier blocks is a recorder that returns a given entry-live map.

Blocks cover: plain, self-referential, augmented, annotated, attribute-, subscript-, tuple- and starred-target assignments;
reads before and after an assignment of the same name; call statements; a comprehension (names bound inside, names assigned
earlier in the block, outer names); a nested function (its own name, its parameters, names assigned earlier, captured names);
a modifier block (control / power arguments, names live at the body's entry); names such a body reads only in statically
dead code (they are captures too: the checker analyses nested bodies with unreachable code included); `comptime(...)` expressions; the branch
predicate.  Decided: `used` and `assigned` are exactly the expected sets for every block.
"""

from __future__ import annotations

from ..absint.astmodel import N, VisitorEval, names_in
from ..absint.minieval import Unsupported
from ..absint.pyeval import Raised, Tok
from ..report import Ctx

MOD = "guppylang_internals.cfg.bb"
_n = [0]


def name(x):
    return N("Name", id=x)


def assign(targets, value):
    return N("Assign", targets=targets if isinstance(targets, list) else [targets], value=value)


def call(f, *args):
    return N("Call", func=name(f), args=list(args), keywords=[])


def _inner_cfg(live: list[str], dead_only: tuple = ()) -> Tok:
    """`dead_only`: names the body reads only in statically dead code (live only when unreachable code is included)."""
    _n[0] += 1
    ibb = Tok(f"inner_bb{_n[0]}", __ident__=1)
    ibb.attrs["vars"] = Tok("inner_vars", used={x: name(x) for x in live})
    ibb.attrs["__live__"] = {x: ibb for x in live}
    ibb.attrs["__live_reachable__"] = {x: ibb for x in live if x not in dead_only}
    ibb.attrs["__methods__"] = {"compute_variable_stats": lambda r, a: Tok("inner_stats", used={}, assigned={})}
    return Tok("inner_cfg", bbs=[ibb], entry_bb=ibb, __ident__=1)


def blocks():
    """(description, statements, branch predicate, expected used, expected assigned)"""
    gen = Tok("generator", __ident__=1, iter_assign=assign(name("%it"), call("make_iter", name("xs"))), next_call=call("next_item", name("%it")), target=name("e"),
              ifs=[N("Compare", left=name("e"), comparators=[name("z")])])
    comp = N("DesugaredListComp", elt=N("BinOp", left=name("e"), right=name("w")), generators=[gen])
    fdef = N("NestedFunctionDef", name="g", args=Tok("arguments", args=[Tok("arg", arg="a")]), cfg=_inner_cfg(["a", "y", "g", "x", "d"], dead_only=("d",)), _order=())
    mod = N("ModifiedBlock", control=[name("c")], power=[name("p")], cfg=_inner_cfg(["q", "x", "d"], dead_only=("d",)), _order=("control", "power"))
    return [
        ("x = y", [assign(name("x"), name("y"))], None, {"y"}, {"x"}),
        ("x = 1; y = x", [assign(name("x"), N("Constant", value=1)), assign(name("y"), name("x"))], None, set(), {"x", "y"}),
        ("y = x; x = 1", [assign(name("y"), name("x")), assign(name("x"), N("Constant", value=1))], None, {"x"}, {"x", "y"}),
        ("x = x", [assign(name("x"), name("x"))], None, {"x"}, {"x"}),
        ("x += y", [N("AugAssign", target=name("x"), value=name("y"))], None, {"x", "y"}, {"x"}),
        ("x = 1; x += 1", [assign(name("x"), N("Constant", value=1)), N("AugAssign", target=name("x"), value=N("Constant", value=1))], None, set(), {"x"}),
        ("x: T = y", [N("AnnAssign", target=name("x"), annotation=name("T"), value=name("y"))], None, {"y"}, {"x"}),
        ("x: T", [N("AnnAssign", target=name("x"), annotation=name("T"), value=None)], None, set(), {"x"}),
        ("a.f = v", [assign(N("Attribute", value=name("a"), attr="f"), name("v"))], None, {"a", "v"}, set()),
        ("x = 1; x.f = 2", [assign(name("x"), N("Constant", value=1)), assign(N("Attribute", value=name("x"), attr="f"), N("Constant", value=2))], None, set(), {"x"}),
        ("a[i] = v", [assign(N("Subscript", value=name("a"), slice=name("i")), name("v"))], None, {"a", "i", "v"}, set()),
        ("(p, [q, *r]) = t", [assign(N("Tuple", elts=[name("p"), N("List", elts=[name("q"), N("Starred", value=name("r"))])]), name("t"))], None, {"t"}, {"p", "q", "r"}),
        ("f(x); x = 1", [N("Expr", value=call("f", name("x"))), assign(name("x"), N("Constant", value=1))], None, {"f", "x"}, {"x"}),
        ("w = 1; [e + w for e in xs if e < z]", [assign(name("w"), N("Constant", value=1)), N("Expr", value=comp)], None, {"make_iter", "next_item", "xs", "z"}, {"w"}),
        # the checker analyses nested bodies with unreachable code included (Python scoping ignores branch conditions), so a
        # read in dead code of the body is a capture, hence a use of the enclosing block
        ("x = 1; def g(a): <reads a, y, g, x; reads d in dead code>", [assign(name("x"), N("Constant", value=1)), fdef], None, {"y", "d"}, {"x", "g"}),
        ("x = 1; with control(c), power(p): <reads q, x; reads d in dead code>", [assign(name("x"), N("Constant", value=1)), mod], None, {"c", "p", "q", "d"}, {"x"}),
        ("x = comptime(k)", [assign(name("x"), N("ComptimeExpr", value=name("k")))], None, set(), {"x"}),
        ("x = 1  (branch on x and b)", [assign(name("x"), N("Constant", value=1))], N("BoolOp", values=[name("x"), name("b")]), {"b"}, {"x"}),
    ]


def run(ctx: Ctx) -> bool:
    idx = ctx.idx
    vv = idx.find_class("VariableVisitor", MOD)
    bbc = idx.find_class("BB", MOD)
    cvs = bbc.find_method("compute_variable_stats")
    live_cls = idx.find_class("LivenessAnalysis", "guppylang_internals.cfg.analysis")
    key = f"{vv.qualname}#used-is-read-before-assigned"
    if cvs is None:
        ctx.undecided("R-C08.6", key, vv.where, "BB.compute_variable_stats not found")
        return False
    bad = []
    n = 0
    try:
        for desc, stmts, pred, want_used, want_assigned in blocks():
            n += 1

            def mk_visitor(node, e, env):
                bbv = e.ev(node.args[0], env) if node.args else None
                return Tok(f"visitor{_n[0]}", bb=bbv, stats=Tok("stats", used={}, assigned={}, __ident__=1), __classes__=vv.mro(), __visitor__=True, __ident__=1)

            def mk_liveness(node, e, env):
                init = live_cls.find_method("__init__")
                names = [a.arg for a in init.node.args.args][1:] if init is not None else ["stats", "initial", "include_unreachable"]
                given = dict(zip(names, [e.ev(a, env) for a in node.args]))
                given.update({k.arg: e.ev(k.value, env) for k in node.keywords if k.arg})
                which = "__live__" if given.get("include_unreachable") is True else "__live_reachable__"
                return Tok("liveness", __methods__={"run": lambda r, a, which=which: {b: b.attrs[which] for b in a[0]}})

            bb = Tok("bb", statements=list(stmts), branch_pred=pred, __classes__=bbc.mro(), __ident__=1)
            env = {cvs.node.args.args[0].arg: bb, "VariableVisitor": mk_visitor, "LivenessAnalysis": mk_liveness,
                   "name_nodes_in_ast": lambda node, e, env: names_in(e.ev(node.args[0], env))}
            ev = VisitorEval(idx, MOD, max_depth=24)
            try:
                out = ev.run(cvs.node.body, env)
                if out[0] == "raise":
                    raise Raised(str(out[1]), str(out[1]))
            except Raised as e:
                bad.append({"block": desc, "problem": f"raises {e.cls or e}"})
                continue
            st = out[1] if out[0] == "return" else None
            used = st.attrs.get("used") if isinstance(st, Tok) else None
            assigned = st.attrs.get("assigned") if isinstance(st, Tok) else None
            if not isinstance(used, dict) or not isinstance(assigned, dict) or set(used) != want_used or set(assigned) != want_assigned:
                bad.append({"block": desc, "used": sorted(used) if isinstance(used, dict) else repr(used), "should_be_used": sorted(want_used),
                            "assigned": sorted(assigned) if isinstance(assigned, dict) else repr(assigned), "should_be_assigned": sorted(want_assigned)})
    except Unsupported as e:
        ctx.undecided("R-C08.6", key, vv.where, str(e))
        return False
    ctx.check(not bad, "R-C08.6", key, vv.where, {"blocks": n, "counterexamples": bad[:4], "n_counterexamples": len(bad)},
              "a name assigned earlier in a block and read later counts as a use of the block (correct programs are rejected as not / maybe not "
              "defined), or a name read before its assignment is not a use (use-before-definition is accepted)")
    return True
