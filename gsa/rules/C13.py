"""C13 generic instantiation preserves meaning -- structural clauses.

R-C13.1  structural copies carry every field: a method that rebuilds its own class
         (`return C(...)`) passes every constructor parameter that has a default (omitting
         one silently resets that field), or goes through dataclasses.replace; and an own field
         that is handed on (`self.f`) is passed in its own slot, not in another field's.
R-C13.2  de Bruijn arithmetic of the Instantiator, interpreted on all (index, #instantiated)
         pairs up to 4x3: a bound variable below the instantiation length is replaced by
         that argument, otherwise its index is lowered by exactly that length and its other
         fields are kept.
R-C13.3  `compile_variable_idx` = number of non-monomorphised parameters before the index
         (all masks up to length 4).
R-C13.4  instantiate_partial, interpreted on all argument lists of length <= 3 (c13_partial.py, below);
         TupleType.transform keeps `preserve`.
R-C13.5  partially_monomorphize_args agrees with its specification on the basic parameter lists (c13_mono.py).
R-C13.6  `instantiation_needs_unpacking` (the guard of `visit_TypeApply` against instantiations that turn the result into a row),
         interpreted on {result is the type variable or not} x {instantiated with tuple / None / numeric / struct type}: True
         exactly for a type-variable result instantiated with a tuple or None type.
R-C13.7  `handle_implicit_self_arg` interpreted for a method `m[U, x: U](self, ...)` of a struct `S[T]`: after the method's own
         parameters are moved behind the parent's, `x` is still typed by `U` (by the parameter that now has U's index).
R-C13.8  every monomorphic instance of a function keeps the body of its nested functions: `compile_local_func_def` interpreted for
         two lowerings of the parent without the work list being drained in between (c13_nested.py).
Not decided: run-time results of monomorphised code, HUGR validity.
"""

from __future__ import annotations

import ast
import itertools

from ..absint.minieval import Opaque, Unsupported
from ..absint.pyeval import PyEval, Raised, Tok
from ..index import AnalysisError, ClassInfo, FuncInfo, call_name, calls_in, dotted, walk_no_nested
from ..report import Ctx

LEVEL = "other"
EXPLANATION = (
    "Field-preservation rule over every self-rebuilding method of the type/parameter classes (constructor parameter "
    "table vs. arguments passed), and finite abstract evaluation of the index arithmetic (Instantiator, "
    "compile_variable_idx) on all small cases. Decides these clauses only."
)

# (class, method, parameter) that may be left at its default in a structural copy, with the reason
EXEMPT = {
    ("ConstParam", "with_idx", "from_comptime_arg"):
        "readers are the default comptime_args computation and the type printer; instantiate_partial passes comptime_args explicitly. "
        "Observation, no failing input found.",
}


def ctor_params(idx, c: ClassInfo) -> list[tuple[str, bool]]:
    """[(name, has_default)] of the class's constructor (custom __init__ or dataclass fields)."""
    init = c.methods.get("__init__")
    if init is not None:
        a = init.node.args
        names = [x.arg for x in a.args][1:]
        nd = len(a.defaults)
        out = [(n, i >= len(names) - nd) for i, n in enumerate(names)]
        out += [(x.arg, d is not None) for x, d in zip(a.kwonlyargs, a.kw_defaults)]
        return out
    out = []
    for n, st, _ in c.all_fields():
        v = st.value
        init_false = isinstance(v, ast.Call) and any(k.arg == "init" and isinstance(k.value, ast.Constant) and k.value.value is False for k in v.keywords)
        if init_false:
            continue
        has_default = v is not None and not (isinstance(v, ast.Call) and call_name(v) == "field" and not any(k.arg in ("default", "default_factory") for k in v.keywords))
        out.append((n, has_default))
    return out


def run(ctx: Ctx) -> None:
    idx = ctx.idx
    mods = ("guppylang_internals.tys.ty", "guppylang_internals.tys.param", "guppylang_internals.tys.arg", "guppylang_internals.tys.const",
            "guppylang_internals.checker.core")
    n_sites = 0
    for c in idx.classes.values():
        if c.module.name not in mods:
            continue
        params = ctor_params(idx, c)
        if not params:
            continue
        for name, f in sorted(c.methods.items()):
            if name == "__init__":
                continue
            for call in calls_in(f.node):
                if not (isinstance(call.func, ast.Name) and call.func.id == c.name):
                    continue
                # only structural copies: the call must mention self (rebuilds from own parts)
                if not any(isinstance(x, ast.Name) and x.id == "self" for a in list(call.args) + [k.value for k in call.keywords] for x in ast.walk(a)):
                    continue
                n_sites += 1
                ctx.saw("call sites", f"{f.qualname}:{call.lineno}")
                passed = {params[i][0] for i in range(min(len(call.args), len(params)))} | {k.arg for k in call.keywords if k.arg}
                if any(k.arg is None for k in call.keywords):
                    passed |= {p for p, _ in params}
                # an own field that is handed on unchanged goes into its OWN slot: `C(idx, self.name, self.a, self.b)`, never
                # `C(idx, self.name, self.b, self.a)` (bool / same-typed fields swap without any type error)
                names = [q for q, _ in params]
                slots = [(names[i], a) for i, a in enumerate(call.args[: len(names)]) if not isinstance(a, ast.Starred)] + [(k.arg, k.value) for k in call.keywords if k.arg]
                crossed = [(slot, a.attr) for slot, a in slots
                           if isinstance(a, ast.Attribute) and isinstance(a.value, ast.Name) and a.value.id == "self" and a.attr in names and a.attr != slot]
                ctx.check(not crossed, "R-C13.1", f"{f.qualname}#own-fields-in-their-own-slots", f"{f.module.rel}:{call.lineno}",
                          {"copy": ast.unparse(call)[:100], "constructor_parameters": names, "crossed": [f"{slot} <- self.{src}" for slot, src in crossed]},
                          f"`{f.name}` rebuilds a {c.name} with one of its own fields passed in the place of another: the copy differs from the "
                          f"original in a field the method is not about (e.g. a copy-only type parameter becomes drop-only)")
                for p, has_default in params:
                    if not has_default:
                        continue
                    key = f"{f.qualname}#{p}"
                    if p in passed:
                        ctx.ok("R-C13.1", key, f"{f.module.rel}:{call.lineno}", {"passed": True})
                    elif (c.name, name, p) in EXEMPT:
                        ctx.ok("R-C13.1", key, f"{f.module.rel}:{call.lineno}", {"passed": False, "frozen_exception": EXEMPT[(c.name, name, p)]})
                        ctx.note(f"structural copy {f.qualname} leaves `{p}` at its default: {EXEMPT[(c.name, name, p)][:90]}")
                    else:
                        ctx.violation("R-C13.1", key, f"{f.module.rel}:{call.lineno}",
                                      {"copy": ast.unparse(call)[:100], "constructor_parameters": [q for q, _ in params], "omitted_with_default": p},
                                      f"`{f.name}` rebuilds a {c.name} without passing `{p}`: the copy silently falls back to the default, so an "
                                      f"instantiated / substituted type differs from the textual substitution of the original")
    ctx.floor("R-C13.1", "structural copy sites", n_sites, 5)

    # ------------------------------------------------------------ R-C13.2 Instantiator
    inst = idx.find_class("Instantiator", "guppylang_internals.tys.subst")
    ev = PyEval(idx, "guppylang_internals.tys.subst")
    for mname, vkind, argkind in (("_transform_BoundTypeVar", "BoundTypeVar", "TypeArg"), ("_transform_BoundConstVar", "BoundConstVar", "ConstArg")):
        f = inst.methods.get(mname)
        if f is None:
            raise AnalysisError(f"Instantiator.{mname} vanished")
        ctx.saw("functions", f.qualname)
        ps = [a.arg for a in f.node.args.args]
        bad = []
        und = None
        n = 0
        made = []

        def mk(node, e, env, made=made):
            vals = [e.ev(a, env) for a in node.args]
            t = Tok("rebuilt", args=tuple(vals))
            made.append(t)
            return t
        for ninst in range(0, 4):
            for i in range(0, 5):
                for partial in (False, True):
                    inst_list = [Tok(f"arg{k}", __class__=argkind, ty=Tok(f"ty{k}"), const=Tok(f"const{k}")) for k in range(ninst)]
                    var = Tok("var", idx=i, display_name="T", copyable=True, droppable=False, ty=Tok("cty"))
                    self_tok = Tok("self", inst=inst_list, allow_partial=partial, __classes__=inst.mro())
                    made.clear()
                    n += 1
                    try:
                        out = ev.run(f.node.body, {ps[0]: self_tok, ps[1]: var, vkind: mk})
                    except Unsupported as e:
                        und = str(e)
                        break
                    except Raised as e:
                        # the instantiator itself fails on a well-formed (index, instantiation) pair
                        bad.append({"idx": i, "instantiated": ninst, "got": f"raises {e}", "want": "an argument or a lowered variable"})
                        continue
                    if partial and i < ninst:
                        # partial instantiation: a position without an argument must be left to the recursive descent
                        # (`None` = "not handled, keep transforming the parts", e.g. the type of a const variable)
                        inst2 = list(inst_list)
                        inst2[i] = None
                        n += 1
                        try:
                            out2 = ev.run(f.node.body, {ps[0]: Tok("self", inst=inst2, allow_partial=True, __classes__=inst.mro()), ps[1]: var, vkind: mk})
                        except (Unsupported, Raised) as e:
                            und = str(e)
                            break
                        if out2 != ("return", None):
                            bad.append({"idx": i, "instantiated": ninst, "argument": None, "got": repr(out2[1]), "want": "None (continue the descent)"})
                    if i < ninst:
                        want = inst_list[i].attrs["ty" if argkind == "TypeArg" else "const"]
                        if out[0] != "return" or out[1] != want:
                            bad.append({"idx": i, "instantiated": ninst, "got": repr(out[1]), "want": repr(want)})
                    else:
                        ok = out[0] == "return" and isinstance(out[1], Tok) and out[1].name == "rebuilt"
                        if ok:
                            a = out[1].attrs["args"]
                            ints = [x for x in a if isinstance(x, int) and not isinstance(x, bool)]
                            ok = ints == [i - ninst] and "T" in a
                            if vkind == "BoundTypeVar":
                                ok = ok and a == ("T", i - ninst, True, False)
                        if not ok:
                            bad.append({"idx": i, "instantiated": ninst, "got": repr(out[1].attrs.get("args") if isinstance(out[1], Tok) else out), "want": f"same variable with index {i - ninst}"})
        key = f"{f.qualname}#de-bruijn"
        if und:
            ctx.undecided("R-C13.2", key, f.where, und)
        else:
            ctx.check(not bad, "R-C13.2", key, f.where, {"cases": n, "counterexamples": bad[:4]},
                      "instantiating a generic signature replaces the wrong parameter or shifts the remaining indices by the wrong amount")
    # no instantiation under a binder
    ff = inst.methods.get("_transform_FunctionType")
    from ..flow import must_raise
    ok = ff is not None and any(isinstance(n, ast.If) and "parametrized" in ast.unparse(n.test) and must_raise(n.body) for n in walk_no_nested(ff.node))
    ctx.check(ok, "R-C13.2", f"{inst.qualname}._transform_FunctionType#refuses-binders", ff.where if ff else inst.where, {},
              "bound variables of an inner generic function type would be captured by an outer instantiation")

    # ------------------------------------------------------------ R-C13.3 compile_variable_idx
    cv = idx.find_func("compile_variable_idx", "guppylang_internals.compiler.core")
    ev2 = PyEval(idx, "guppylang_internals.compiler.core")
    ps = [a.arg for a in cv.node.args.args]
    bad = []
    und = None
    n = 0
    for length in range(1, 5):
        for mask in itertools.product((False, True), repeat=length):  # True = monomorphised away
            mono = tuple(Tok(f"m{k}") if m else None for k, m in enumerate(mask))
            for i in range(length):
                if mask[i]:
                    continue
                n += 1
                try:
                    out = ev2.run_function(cv, {ps[0]: i, ps[1]: mono})
                except Unsupported as e:
                    und = str(e)
                    break
                want = sum(1 for m in mask[:i] if not m)
                if out[0] != "return" or out[1] != want:
                    bad.append({"idx": i, "monomorphised_mask": mask, "got": out[1] if out[0] == "return" else out[0], "want": want})
    if und:
        ctx.undecided("R-C13.3", f"{cv.qualname}#dense-index", cv.where, und)
    else:
        ctx.check(not bad, "R-C13.3", f"{cv.qualname}#dense-index", cv.where, {"cases": n, "counterexamples": bad[:4]},
                  "a type/const variable of a partially monomorphised function is lowered to the wrong HUGR parameter index")

    # ------------------------------------------------------------ R-C13.4 instantiate_partial
    from . import c13_partial
    c13_partial.run(ctx)
    tt = idx.method("TupleType", "transform", "guppylang_internals.tys.ty")
    ctx.check("self.preserve" in ast.unparse(tt.node), "R-C13.4", f"{tt.qualname}#keeps-preserve", tt.where, {},
              "a transformed tuple type loses the flag that keeps instantiated tuples from being flattened")

    # ------------------------------------------------------------ R-C13.5 which arguments are monomorphised
    from . import c13_mono
    c13_mono.run(ctx)
    from . import c13_nested
    c13_nested.run(ctx)  # R-C13.8


    # ------------------------------------------------------------ R-C13.6 the row-return guard of TypeApply looks at the instantiated TYPE
    f = idx.find_func("instantiation_needs_unpacking", "guppylang_internals.compiler.expr_compiler")
    key = f"{f.qualname}#tuple-and-none-instantiations-are-recognised"
    ps = [a.arg for a in f.node.args.args]
    bad = []
    try:
        for out_is_var, arg_ty in itertools.product((True, False), ("TupleType", "NoneType", "NumericType", "StructType")):
            out_ty = Tok("T", __class__="BoundTypeVar", idx=1, __ident__=1) if out_is_var else Tok("int_ty", __class__="NumericType", __ident__=1)
            inst = [Tok("arg0", __class__="TypeArg", ty=Tok("other", __class__="NumericType"), __ident__=1),
                    Tok("arg1", __class__="TypeArg", ty=Tok("instantiated_ty", __class__=arg_ty, __ident__=1), __ident__=1)]
            r = PyEval(idx, f.module.name).run(f.node.body, {ps[0]: Tok("func_ty", output=out_ty, __ident__=1), ps[1]: inst})
            got = r[1] if r[0] == "return" else r
            want = out_is_var and arg_ty in ("TupleType", "NoneType")
            if got is not want:
                bad.append({"output_is_the_type_variable": out_is_var, "instantiated_with": arg_ty, "needs_unpacking": got, "should_be": want})
        ctx.check(not bad, "R-C13.6", key, f.where, {"cases": 8, "counterexamples": bad},
                  "a generic function whose result type is a type variable is type-applied at a tuple (or None) type without the guard "
                  "noticing: the loaded function value returns ONE tuple port where its users expect the row of elements (ill-typed HUGR "
                  "instead of the intended 'unsupported' error)")
    except (Unsupported, Raised) as e:
        ctx.undecided("R-C13.6", key, f.where, str(e))

    # ------------------------------------------------------------ R-C13.7 a method's own parameters are moved behind the parent's -- with their types
    hf = idx.find_func("handle_implicit_self_arg", "guppylang_internals.checker.func_checker")
    key = f"{hf.qualname}#shifted-parameters-keep-their-meaning"
    hps = [a.arg for a in hf.node.args.args]
    tp_cls = idx.find_class("TypeParam", "guppylang_internals.tys.param")
    cp_cls = idx.find_class("ConstParam", "guppylang_internals.tys.param")
    try:
        made: list = []

        def mk_param(kind, cls):
            def h(nd, e, env):
                vals = [e.ev(x, env) for x in nd.args]
                kws = {k.arg: e.ev(k.value, env) for k in nd.keywords if k.arg}
                if kind == "type":
                    t = Tok(f"TypeParam({vals[1]}@{vals[0]})", __class__="TypeParam", __classes__=cls.mro(), idx=vals[0], name=vals[1],
                            must_be_copyable=vals[2] if len(vals) > 2 else kws.get("must_be_copyable"), must_be_droppable=vals[3] if len(vals) > 3 else kws.get("must_be_droppable"))
                else:
                    t = Tok(f"ConstParam({vals[1]}@{vals[0]})", __class__="ConstParam", __classes__=cls.mro(), idx=vals[0], name=vals[1],
                            ty=vals[2] if len(vals) > 2 else kws.get("ty"), from_comptime_arg=kws.get("from_comptime_arg", False))
                made.append(t)
                return t
            return h

        def bound(i, name):  # a reference to the parameter with index i
            t = Tok(f"BoundTypeVar({name}#{i})", __class__="BoundTypeVar", idx=i, display_name=name, __ident__=1)
            # whatever transformer a repair uses: an index shift is modelled on the token itself
            t.attrs["__methods__"] = {"transform": lambda r, a: Tok(f"BoundTypeVar({r.attrs['display_name']}#shifted)", __class__="BoundTypeVar", idx=None, display_name=r.attrs["display_name"], shifted_by=a[0])}
            return t
        U = Tok("TypeParam(U@0)", __class__="TypeParam", __classes__=tp_cls.mro(), idx=0, name="U", must_be_copyable=True, must_be_droppable=True)
        x = Tok("ConstParam(x@1)", __class__="ConstParam", __classes__=cp_cls.mro(), idx=1, name="x", ty=bound(0, "U"), from_comptime_arg=False)
        mapping = {"U": U, "x": x}
        parent_T = Tok("TypeParam(T@0)", __class__="TypeParam", __classes__=tp_cls.mro(), idx=0, name="T", must_be_copyable=False, must_be_droppable=False,
                       __methods__={"to_bound": lambda r, a: Tok("arg_T")})
        self_defn = Tok("struct_S", params=[parent_T], __methods__={"check_instantiate": lambda r, a: Tok("S[T]")}, __ident__=1)
        pctx = Tok("parsing_ctx", param_var_mapping=mapping, __ident__=1)
        env = {hps[0]: Tok("self_arg", arg="self"), hps[1]: self_defn, hps[2]: pctx, "TypeParam": mk_param("type", tp_cls), "ConstParam": mk_param("const", cp_cls),
               "check_function_arg": lambda nd, e, env: Tok("func_input"), "SelfParamsShadowedError": lambda nd, e, env: Tok("SelfParamsShadowedError")}
        for p_ in hps[3:]:
            env[p_] = "InputFlags.NoFlags"
        out = PyEval(idx, hf.module.name, max_depth=6).run(hf.node.body, env)
        if out[0] == "raise":
            raise Raised(str(out[1]), str(out[1]))
        after = pctx.attrs["param_var_mapping"]
        new_U, new_x = after.get("U"), after.get("x")
        x_ty = new_x.attrs.get("ty") if isinstance(new_x, Tok) else None
        refers_to = x_ty.attrs.get("idx") if isinstance(x_ty, Tok) else None
        shifted_by = x_ty.attrs.get("shifted_by") if isinstance(x_ty, Tok) else None
        ok = isinstance(new_U, Tok) and new_U.attrs.get("idx") == 1 and isinstance(new_x, Tok) and new_x.attrs.get("idx") == 2 \
            and (refers_to == new_U.attrs.get("idx") or shifted_by is not None)
        ctx.check(ok, "R-C13.7", key, hf.where,
                  {"method_parameters": "U, x: U", "parent_parameters": "T", "index_of_U_after": new_U.attrs.get("idx") if isinstance(new_U, Tok) else None,
                   "index_of_x_after": new_x.attrs.get("idx") if isinstance(new_x, Tok) else None, "x_is_typed_by_the_parameter_with_index": refers_to},
                  "a method's own parameters are moved behind the parent type's parameters, but the references inside a const parameter's type are "
                  "not: `x: U` ends up typed by one of the PARENT's parameters")
    except (Unsupported, Raised) as e:
        ctx.undecided("R-C13.7", key, hf.where, str(e))
