"""R-C24.3 (semantic form)  the body of a `with` block is built under the enclosing flags AND its own modifiers.

`CFGBuilder.visit_With` is interpreted from its syntax tree with recorder tokens for the modified-block node, the expression
builder, the modifier parser and the inner CFG builder, for every pair (flags of the enclosing CFG, flags of the block's own
modifiers) over all subsets of {Control, Dagger, Power} (8 x 8), with one and with two `with` items.

Decided: the inner `CFGBuilder().build(...)` receives exactly  enclosing | own  as the unitary flags of the body; every
`with` item's modifier is pushed onto the node (in order) before the flags are read; the built CFG is stored on the node and
the node is appended to the current block.
"""

from __future__ import annotations

import itertools

from ..absint.astmodel import N, VisitorEval
from ..absint.flagabs import FlagDomain, FlagV
from ..absint.minieval import Unsupported
from ..absint.pyeval import Raised, Tok, with_kwargs
from ..report import Ctx


def run(ctx: Ctx, dom: FlagDomain) -> bool:
    idx = ctx.idx
    vw = idx.method("CFGBuilder", "visit_With")
    key = f"{vw.qualname}#unitary_flags"
    ps = [a.arg for a in vw.node.args.args]
    build_init = idx.method("CFGBuilder", "build")
    build_params = [a.arg for a in build_init.node.args.args][1:]
    bad = []
    n = 0
    try:
        for F, M, n_items in itertools.product(dom.all_values(), dom.all_values(), (1, 2)):
            n += 1
            log: list = []
            pushed: list = []
            new_node = Tok("modified_block", __ident__=1)
            new_node.attrs["__methods__"] = {
                "push_modifier": lambda r, a, pushed=pushed, log=log: (pushed.append(a[0]), log.append("push"))[0] and None,
                "flags": lambda r, a, log=log, M=M: (log.append("flags"), M)[1],
            }
            built: dict = {}

            @with_kwargs
            def m_build(r, a, kw, built=built, log=log):
                log.append("build")
                vals = dict(zip(build_params, a))
                vals.update(kw)
                built.update(vals)
                built["__cfg__"] = Tok("inner_cfg", __ident__=1)
                return built["__cfg__"]

            bb = Tok("bb", statements=[], __ident__=1)
            items = [Tok(f"withitem{i}", context_expr=N("Name", id=f"m{i}"), optional_vars=None, __ident__=1) for i in range(n_items)]
            node = N("With", items=items, body=[N("Pass")], _order=("items", "body"))
            me = Tok("builder", cfg=Tok("outer_cfg", unitary_flags=F, __ident__=1), globals=Tok("globals"), __classes__=vw.cls.mro(), __ident__=1)
            me.attrs["__methods__"] = {
                "_validate_modified_block": lambda r, a: None,
                "_handle_withitem": lambda r, a: Tok(f"modifier_of({a[0].name})", __ident__=1),
            }
            env = {
                ps[0]: me, ps[1]: node, ps[2]: bb, ps[3]: Tok("jumps"),
                "check_modifiers_enabled": lambda nd, e, env: None,
                "ModifiedBlock": lambda nd, e, env: new_node,
                "CFG": lambda nd, e, env: Tok("empty_cfg"),
                "ast.iter_fields": lambda nd, e, env: [],
                "dict": lambda nd, e, env: {},
                "ExprBuilder.build": lambda nd, e, env: (e.ev(nd.args[0], env), e.ev(nd.args[2], env)),
                "CFGBuilder": lambda nd, e, env: Tok("inner_builder", __methods__={"build": m_build}),
                "set_location_from": lambda nd, e, env: None,
            }
            ev = VisitorEval(idx, vw.module.name, flags=dom)
            case = {"enclosing_flags": F.bits, "own_modifier_flags": M.bits, "with_items": n_items}
            try:
                out = ev.run(vw.node.body, env)
                if out[0] == "raise":
                    raise Raised(str(out[1]), str(out[1]))
            except Raised as e:
                bad.append({**case, "problem": f"raises {e.cls or e}"})
                continue
            got = built.get("unitary_flags")
            problems = []
            if not isinstance(got, FlagV) or got.bits != (F.bits | M.bits):
                problems.append(f"the body is built with flags {got!r}, should be {F.bits | M.bits:#b} (enclosing | own)")
            if [p.name for p in pushed] != [f"modifier_of({it.name})" for it in items]:
                problems.append("not every with-item's modifier is pushed onto the block (in order)")
            if "flags" in log and "push" in log and log.index("flags") < max(i for i, x in enumerate(log) if x == "push"):
                problems.append("the block's flags are read before all modifiers are pushed")
            if new_node.attrs.get("cfg") is not built.get("__cfg__") or built.get("__cfg__") is None:
                problems.append("the built body is not stored on the block node")
            if new_node not in bb.attrs["statements"]:
                problems.append("the block node is not appended to the current basic block")
            if problems:
                bad.append({**case, "problems": problems[:3]})
    except Unsupported as e:
        ctx.undecided("R-C24.3", key, vw.where, str(e))
        return False
    ctx.check(not bad, "R-C24.3", key, vw.where, {"cases": n, "counterexamples": bad[:3], "n_counterexamples": len(bad)},
              "the body of a nested `with` block is checked against its own modifiers only; flags required by the enclosing "
              "context (outer `with` or function flags) are lost")
    return True
