"""R-C06.2 (comprehensions)  the body of a comprehension runs repeatedly: an outer non-copyable value may be borrowed in it, never consumed.

`BBLinearityChecker._check_comprehension` is interpreted as a whole (one generator without guards, the real `Scope` methods; the
visit of the element expression is a recorder that leaves in the scopes exactly what the real visitors leave) for an outer qubit q
and an element expression that
  only borrows q  /  only consumes q  /  borrows q and then consumes it  (after a borrow the place is re-assigned in the inner scope,
  so the consumption is recorded there).
Specification: rejected (Guppy error) iff the element expression consumes q; a body that only borrows is accepted and q is handed
back to the outer scope.
"""

from __future__ import annotations

from ..absint.minieval import Unsupported
from ..absint.pyeval import Raised, Tok
from ..report import Ctx
from .c06_aggregate import LC
from .c06_place import FlagEval

CASES = ("borrows q", "consumes q", "borrows q, then consumes it")


def run(ctx: Ctx) -> bool:
    idx = ctx.idx
    chk = idx.find_class("BBLinearityChecker", LC)
    scope_cls = idx.find_class("Scope", LC)
    f = chk.find_method("_check_comprehension")
    key = f"{chk.qualname}._check_comprehension#outer-value-borrowed-never-consumed"
    if f is None:
        ctx.undecided("R-C06.2", key, chk.where, "no comprehension check")
        return False
    ps = [a.arg for a in f.node.args.args]
    bad = []
    try:
        for case in CASES:
            qty = Tok("qubit_ty", copyable=False, droppable=False, __ident__=1)
            cty = Tok("int_ty", copyable=True, droppable=True, __ident__=1)
            q = Tok("q", __class__="Variable", id="q", name="q", ty=qty, defined_at=Tok("def_q"), flags=set(), __ident__=1)
            q.attrs["root"] = q
            it_place = Tok("%it", __class__="Variable", id="%it", name="%it", ty=cty, defined_at=Tok("def_it"), flags=set(), __ident__=1)
            tgt_place = Tok("t", __class__="Variable", id="t", name="t", ty=cty, defined_at=Tok("def_t"), flags=set(), __ident__=1)
            outer = Tok("outer_scope", __classes__=scope_cls.mro(), vars={"q": q}, parent_scope=None, used_local={}, used_parent={}, __ident__=1)
            inner = Tok("inner_scope", __classes__=scope_cls.mro(), vars={"%it": it_place, "t": tgt_place}, parent_scope=outer, used_local={}, used_parent={}, __ident__=1)
            elt = Tok("element_expr", __ident__=1)
            handed_back: list = []

            def use(kind, node="body_node"):
                return Tok(f"use_{kind}", node=Tok(node), kind=f"UseKind.{kind}", __truth__=True)

            def m_visit(r, a, case=case, inner=inner, outer=outer, q=q, elt=elt):
                if a[0] is not elt:
                    return None
                if case.startswith("borrows"):
                    # borrow: recorded as a use of the parent's place; when the borrow ends the place is assigned again, locally
                    inner.attrs["used_parent"]["q"] = use("BORROW")
                    outer.attrs["used_local"]["q"] = use("BORROW")
                    inner.attrs["vars"]["q"] = Tok("q_after_borrow", __class__="Variable", id="q", name="q", ty=q.attrs["ty"], defined_at=Tok("borrow_site"), flags=set(), __ident__=1)
                    if case.endswith("consumes it"):
                        inner.attrs["used_local"]["q"] = use("CONSUME", "consume_node")
                else:
                    inner.attrs["used_parent"]["q"] = use("CONSUME", "consume_node")
                    outer.attrs["used_local"]["q"] = use("CONSUME", "consume_node")
                return None

            me = Tok("checker", scope=outer, __classes__=chk.mro(), func_inputs={}, func_name="f", __ident__=1)

            def m_new_scope(r, a, inner=inner):
                r.attrs["scope"] = inner
                return inner

            me.attrs["__methods__"] = {"visit": m_visit, "new_scope": m_new_scope, "_check_assign_targets": lambda r, a: None,
                                       "_reassign_single_inout_arg": lambda r, a, hb=handed_back: hb.append(a[0])}
            gen = Tok("generator", iter_assign=Tok("iter_assign", value=Tok("iter_value"), targets=[Tok("iter_target")]), iter=Tok("iter_node", __class__="PlaceNode", place=it_place),
                      next_call=Tok("next_call"), target=Tok("target_node"), ifs=[], used_outer_places=[], __ident__=1)

            def mk_err(name):
                return lambda nd, e, env: Tok(name, __methods__={"add_sub_diagnostic": lambda r, a: None})

            env = {ps[0]: me, ps[1]: [gen], ps[2]: elt, "leaf_places": lambda nd, e, env: [e.ev(nd.args[0], env)],
                   "InoutReturnSentinel": lambda nd, e, env: Tok("inout_return_sentinel"),
                   "Use": lambda nd, e, env: Tok("use", node=e.ev(nd.args[0], env), kind=e.ev(nd.args[1], env), __truth__=True),
                   **{nm: mk_err(nm) for nm in ("ComprAlreadyUsedError", "PlaceNotUsedError", "AlreadyUsedError")}}
            try:
                out = FlagEval(idx, LC, max_depth=10).run(f.node.body, env)
                raised = str(out[1]) if out[0] == "raise" else None
            except Raised as e:
                raised = e.cls or str(e)
            want_reject = "consumes" in case
            if (raised is not None) != want_reject or (want_reject and "Guppy" not in str(raised)):
                bad.append({"element_expression": case, "outcome": f"rejected ({raised})" if raised else "accepted",
                            "should_be": "rejected: q would be consumed in every iteration" if want_reject else "accepted"})
            elif not want_reject and not handed_back:
                bad.append({"element_expression": case, "problem": "the borrowed value is not handed back to the outer scope"})
    except Unsupported as e:
        ctx.undecided("R-C06.2", key, f.where, str(e))
        return False
    ctx.check(not bad, "R-C06.2", key, f.where, {"cases": len(CASES), "counterexamples": bad},
              "`array((peek(q), eat(q)) for _ in range(3))` is accepted: the outer qubit is borrowed, then consumed in every iteration, and "
              "is still usable after the comprehension (a qubit wire with two consumers)")
    return True
