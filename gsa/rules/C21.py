"""C21 comptime agrees with regular Guppy functions -- operator-dispatch clause only.

R-C21.1  every `__X__` of DunderMixin forwards to `self._get_method("__X__")` (same name)
         and passes its operand(s) through unchanged.
R-C21.2  every dunder of expr_checker.binary_table / unary_table that some Guppy std type
         implements exists on DunderMixin with the matching decorator
         (@binary_operation / @unary_operation); the mocked builtins int/float/len forward
         to the same-named dunder and the mock dict maps each name to the same-named mock.
R-C21.3  end to end from the module's own code (c21_reflected.py): the module-level statements that build `binary_table` /
         `reverse_binary_table` are interpreted on a model of the checker's operator table, then `binary_operation(f)` as a whole
         for a forward and a reflected dunder x {direct method succeeds, raises a Guppy error, raises something else} x {partner
         method succeeds, raises}: direct method first with (self, other); on failure the partner of the SAME operator, called
         ON other WITH self (operands are traced objects of one class: `NotImplemented` is no way out); GuppyTypeError if both fail.
Not decided: the results of tracing.
"""

from __future__ import annotations

import ast

from ..index import AnalysisError, body_without_docstring, calls_in, dotted, walk_no_nested
from ..report import Ctx

LEVEL = "other"
EXPLANATION = (
    "Table/forwarding agreement for the comptime operator dispatch: each DunderMixin.__X__ must delegate to the "
    "Guppy method of the same name with the same operands; the operator tables of the type checker, the std "
    "library's dunder implementations and the mixin must agree; the reflected-operator fallback must look the "
    "name up in the right table and swap operands. Decides the dispatch clause of C21, not traced results."
)


def _get_tables(ctx: Ctx):
    m = ctx.idx.module("guppylang_internals.checker.expr_checker")
    out = {}
    for name in ("unary_table", "binary_table"):
        v = ctx.idx.module_constant(m.name, name)
        if not isinstance(v, ast.Dict):
            raise AnalysisError(f"expr_checker.{name} is not a dict display")
        rows = []
        for k, val in zip(v.keys, v.values):
            if not isinstance(val, ast.Tuple) or not all(isinstance(e, ast.Constant) for e in val.elts):
                raise AnalysisError(f"expr_checker.{name}: row {ast.unparse(val)} is not a tuple of constants")
            rows.append((dotted(k), tuple(e.value for e in val.elts)))
        out[name] = rows
    return out


GUPPY_TYPE_DECORATORS = {"extend_type", "custom_type", "struct", "type"}


def _is_guppy_type(c) -> bool:
    """Class registered as a Guppy type (its methods become Guppy methods)."""
    for d in c.node.decorator_list:
        n = dotted(d.func if isinstance(d, ast.Call) else d).split(".")[-1]
        if n in GUPPY_TYPE_DECORATORS:
            return True
    return False


def run(ctx: Ctx) -> None:
    idx = ctx.idx
    mixin = idx.find_class("DunderMixin", "guppylang_internals.tracing.object")
    ctx.saw("classes", mixin.qualname)
    tables = _get_tables(ctx)
    unary_names = {r[1][0] for r in tables["unary_table"]}
    bin_left = {r[1][0] for r in tables["binary_table"]}
    bin_right = {r[1][1] for r in tables["binary_table"]}
    ctx.floor("R-C21.2", "binary_table rows", len(tables["binary_table"]), 19)
    ctx.floor("R-C21.2", "unary_table rows", len(tables["unary_table"]), 3)

    # ---------------- R-C21.1 forwarding agreement
    n = 0
    for name, f in sorted(mixin.methods.items()):
        if not (name.startswith("__") and name.endswith("__")):
            continue
        n += 1
        ctx.saw("functions", f.qualname)
        key = f"{mixin.qualname}.{name}#forward"
        body = body_without_docstring(f.node)
        params = [a.arg for a in f.node.args.args]
        fact = {"body": ast.unparse(body[0])[:120] if body else ""}
        # expected shape: return self._get_method("<name>")(<params[1:]>)
        ok = False
        target = None
        if len(body) == 1 and isinstance(body[0], ast.Return) and isinstance(body[0].value, ast.Call):
            outer = body[0].value
            inner = outer.func
            if (isinstance(inner, ast.Call) and isinstance(inner.func, ast.Attribute)
                    and inner.func.attr == "_get_method" and dotted(inner.func.value) == params[0]
                    and len(inner.args) == 1 and isinstance(inner.args[0], ast.Constant)):
                target = inner.args[0].value
                passed = [dotted(a) for a in outer.args]
                fact.update({"forwards_to": target, "passes": passed, "params": params[1:]})
                ok = target == name and passed == params[1:] and not outer.keywords
        if target is None:
            ctx.undecided("R-C21.1", key, f.where, "not the `return self._get_method(<const>)(...)` shape")
            continue
        ctx.check(ok, "R-C21.1", key, f.where, fact,
                  f"comptime `{name}` dispatches to `{target}` (or reorders/drops operands): the traced operator "
                  f"computes something else than the same operator in a regular @guppy function")
    ctx.floor("R-C21.1", "DunderMixin dunder methods", n, 40)

    # ---------------- R-C21.2 table completeness
    std_dunders: dict[str, list[str]] = {}
    for f in idx.iter_funcs(("guppylang.std",)):
        nm = f.node.name
        if nm.startswith("__") and nm.endswith("__") and f.cls is not None and _is_guppy_type(f.cls):
            std_dunders.setdefault(nm, []).append(f.cls.name)
    ctx.floor("R-C21.2", "std dunder names", len(std_dunders), 25)
    for nm in sorted(unary_names | bin_left | bin_right):
        key = f"{mixin.qualname}#{nm}"
        if nm not in std_dunders:
            ctx.ok("R-C21.2", key, mixin.where, {"in_std": False, "note": "no Guppy std type implements it; nothing to agree with"})
            continue
        m = mixin.methods.get(nm)
        want = "unary_operation" if nm in unary_names else "binary_operation"
        decos = m.decorator_names() if m else []
        ctx.check(m is not None and want in decos, "R-C21.2", key, (m.where if m else mixin.where),
                  {"defined_on_mixin": m is not None, "decorators": decos, "wanted": want, "std_types": sorted(set(std_dunders[nm]))[:6]},
                  f"operator method `{nm}` works in @guppy functions (std types implement it) but comptime objects "
                  f"lack it or lack the `{want}` fallback wrapper")
    # mocked builtins
    mock_mod = idx.module("guppylang_internals.tracing.builtins_mock")
    mb = idx.find_func("mock_builtins", mock_mod.name)
    mock_dict = None
    for node in walk_no_nested(mb.node):
        if isinstance(node, ast.Assign) and isinstance(node.value, ast.Dict) and all(isinstance(k, ast.Constant) for k in node.value.keys):
            mock_dict = node.value
            break
    if mock_dict is None:
        # the table may live at module level (`_MOCK = {...}`) or be built with dict(name=value)
        for node in mock_mod.tree.body:
            val = getattr(node, "value", None)
            if isinstance(node, (ast.Assign, ast.AnnAssign)) and isinstance(val, ast.Dict) and val.keys and all(isinstance(k, ast.Constant) and isinstance(k.value, str) for k in val.keys) \
                    and {k.value for k in val.keys} & {"int", "float", "len"}:
                mock_dict = val
                break
    if mock_dict is None:
        for node in ast.walk(mb.node):
            if isinstance(node, ast.Call) and isinstance(node.func, ast.Name) and node.func.id == "dict" and node.keywords and not node.args:
                mock_dict = ast.Dict(keys=[ast.Constant(value=k.arg) for k in node.keywords], values=[k.value for k in node.keywords])
                break
    if mock_dict is None:
        raise AnalysisError("mock_builtins: mock dict display not found")
    pairs = {k.value: dotted(v) for k, v in zip(mock_dict.keys, mock_dict.values)}
    ctx.check(all(k == v for k, v in pairs.items()) and set(pairs) >= {"int", "float", "len"}, "R-C21.2",
              f"{mb.qualname}#mock-names", mb.where, {"mock": pairs},
              "a builtin is shadowed by the mock of a *different* builtin during tracing")
    for bname, dunder in (("int", "__int__"), ("float", "__float__"), ("len", "__len__")):
        # the mock is either a class with __new__ or a function
        node = None
        c = idx.classes.get(f"{mock_mod.name}.{bname}")
        if c is not None and "__new__" in c.methods:
            node = c.methods["__new__"]
        elif f"{mock_mod.name}.{bname}" in idx.funcs:
            node = idx.funcs[f"{mock_mod.name}.{bname}"]
        if node is None:
            raise AnalysisError(f"builtins_mock.{bname} vanished")
        called = [c2.func.attr for c2 in calls_in(node.node) if isinstance(c2.func, ast.Attribute) and c2.func.attr.startswith("__")]
        fallback = [dotted(c2.func) for c2 in calls_in(node.node) if dotted(c2.func).startswith("builtins.")]
        ctx.check(called == [dunder] and fallback == [f"builtins.{bname}"], "R-C21.2", f"{node.qualname}#forward", node.where,
                  {"dunder_calls": called, "fallback": fallback},
                  f"mocked `{bname}()` does not forward traced objects to `{dunder}` / plain values to builtins.{bname}")
    from . import c21_mocks
    c21_mocks.run(ctx, mock_mod)  # sibling agreement of the three mocks, interpreted

    # ---------------- R-C21.3 reflected fallback
    obj_mod = idx.module("guppylang_internals.tracing.object")
    from . import c21_reflected
    if not c21_reflected.run(ctx):
        # fallback: the shape of the two derived tables and of the wrapper (table test, swapped reflected call, ordered forward call)
        for tname, want_key, want_first in (("binary_table", "method", "reverse_method"), ("reverse_binary_table", "reverse_method", "method")):
            v = idx.module_constant(obj_mod.name, tname)
            key = f"{obj_mod.name}.{tname}#orientation"
            if not isinstance(v, ast.DictComp) or len(v.generators) != 1:
                ctx.undecided("R-C21.3", key, obj_mod.rel, "not a single-generator dict comprehension")
                continue
            g = v.generators[0]
            tgt = [dotted(e) for e in g.target.elts] if isinstance(g.target, ast.Tuple) else []
            src = ast.unparse(g.iter)
            k = dotted(v.key)
            first = dotted(v.value.elts[0]) if isinstance(v.value, ast.Tuple) and v.value.elts else ""
            # positions: tuple of expr_checker.binary_table is (left, right, display)
            pos = {nm: i for i, nm in enumerate(tgt)}
            ok = (src.endswith("binary_table.values()") and len(tgt) == 3 and k in pos and first in pos
                  and ((tname == "binary_table" and pos[k] == 0 and pos[first] == 1)
                       or (tname == "reverse_binary_table" and pos[k] == 1 and pos[first] == 0)))
            ctx.check(ok, "R-C21.3", key, f"{obj_mod.rel}", {"key": k, "value_first": first, "unpack": tgt, "source": src},
                      "the forward/reverse operator tables used by the comptime fallback are keyed the wrong way round")
        bo = idx.find_func("binary_operation", obj_mod.name)
        wrapped = next((n for n in ast.walk(bo.node) if isinstance(n, ast.FunctionDef) and n is not bo.node), None)
        key = f"{bo.qualname}#reflected-fallback"
        if wrapped is None:
            ctx.undecided("R-C21.3", key, bo.where, "no inner wrapper function")
        else:
            wp = [a.arg for a in wrapped.args.args]
            fact: dict = {"wrapper_params": wp}
            # (a) direction of the table lookup
            dir_ok = None
            for n in ast.walk(wrapped):
                if isinstance(n, ast.If) and isinstance(n.test, ast.Compare) and len(n.test.ops) == 1 and isinstance(n.test.ops[0], ast.In):
                    tbl = dotted(n.test.comparators[0])
                    if tbl in ("binary_table", "reverse_binary_table"):
                        then_tbls = {dotted(s.value) for b in n.body for s in ast.walk(b) if isinstance(s, ast.Subscript)}
                        else_tbls = {dotted(s.value) for b in n.orelse for s in ast.walk(b) if isinstance(s, ast.Subscript)}
                        other_tbl = "reverse_binary_table" if tbl == "binary_table" else "binary_table"
                        fact.update({"test_table": tbl, "then": sorted(then_tbls), "else": sorted(else_tbls)})
                        dir_ok = tbl in then_tbls and other_tbl not in then_tbls and (not n.orelse or (other_tbl in else_tbls and tbl not in else_tbls))
            # (b) operands swapped on the reflected call:  other.__getattr__(reverse_method)(self)
            swap_ok = None
            for c in ast.walk(wrapped):
                if (isinstance(c, ast.Call) and isinstance(c.func, ast.Call) and isinstance(c.func.func, ast.Attribute)
                        and c.func.func.attr in ("__getattr__", "_get_method")):
                    recv = dotted(c.func.func.value)
                    args = [dotted(a) for a in c.args]
                    fact.update({"reflected_receiver": recv, "reflected_args": args})
                    if len(wp) == 2:
                        swap_ok = recv == wp[1] and args == [wp[0]]
            # (c) forward attempt passes (self, other) in order
            fwd_ok = None
            for c in ast.walk(wrapped):
                if isinstance(c, ast.Call) and isinstance(c.func, ast.Name) and c.func.id == bo.node.args.args[0].arg:
                    fwd = [dotted(a) for a in c.args]
                    fact["forward_args"] = fwd
                    fwd_ok = fwd == wp
            if None in (dir_ok, swap_ok, fwd_ok):
                ctx.undecided("R-C21.3", key, bo.where, f"fallback shape not recognised: {fact}")
            else:
                ctx.check(dir_ok and swap_ok and fwd_ok, "R-C21.3", key, bo.where, fact,
                          "the reflected-operator fallback looks the method up in the wrong table or does not swap operands")
    ctx.assumptions.append("std dunder implementations are found as methods named __x__ inside classes under guppylang/std")

    # ---------------- R-C21.4 write-back after a borrowing call re-points every traced leaf
    from ..flow import CFG
    upv = idx.find_func("update_packed_value", "guppylang_internals.tracing.unpacking")
    ctx.saw("functions", upv.qualname)
    match = next((n for n in walk_no_nested(upv.node) if isinstance(n, ast.Match)), None)
    if match is None:
        ctx.undecided("R-C21.4", f"{upv.qualname}#leaf-arm", upv.where, "no match statement")
    else:
        leaf = [c for c in match.cases if isinstance(c.pattern, (ast.MatchClass, ast.MatchAs))
                and "GuppyObject" in ast.unparse(c.pattern) and "GuppyStructObject" not in ast.unparse(c.pattern)]
        if not leaf:
            ctx.undecided("R-C21.4", f"{upv.qualname}#leaf-arm", upv.where, "no `case GuppyObject()` arm")
        for c in leaf:
            g = CFG(body=c.body)

            def repoints(n):
                a = n.ast
                return (isinstance(a, ast.Assign) and any(isinstance(t, ast.Attribute) and t.attr == "_wire" for t in a.targets)
                        and any(isinstance(x, ast.Call) and isinstance(x.func, ast.Attribute) and x.func.attr == "_use_wire" for x in ast.walk(a.value)))

            def resets_used(n):
                a = n.ast
                return isinstance(a, ast.Assign) and any(isinstance(t, ast.Attribute) and t.attr == "_used" for t in a.targets) \
                    and isinstance(a.value, ast.Constant) and a.value.value is None
            allp = g.every_path_to_exit_passes(repoints)
            allu = g.every_path_to_exit_passes(resets_used)
            ctx.check(allp and allu, "R-C21.4", f"{upv.qualname}#leaf-repointed-on-all-paths", f"{upv.module.rel}:{c.pattern.lineno}",
                      {"wire_updated_on_all_paths": allp, "used_flag_reset_on_all_paths": allu},
                      "after a call that borrows a comptime value, some traced leaf keeps its pre-call wire: the comptime function "
                      "does not see the callee's update although the same body as a @guppy function does")
        # container arms must recurse into every element (loop without early success-exit)
        n_rec = 0
        for c in match.cases:
            for loop in [n for b in c.body for n in walk_no_nested(b) if isinstance(n, ast.For)]:
                rec = [x for st in loop.body for x in ast.walk(st) if isinstance(x, ast.Call) and dotted(x.func) == "update_packed_value"]
                if not rec:
                    continue
                n_rec += 1
                early_true = [r for st in loop.body for r in walk_no_nested(st) if isinstance(r, ast.Return)
                              and isinstance(r.value, ast.Constant) and r.value.value is True]
                brk = [r for st in loop.body for r in walk_no_nested(st) if isinstance(r, ast.Break)]
                ctx.check(not early_true and not brk, "R-C21.4", f"{upv.qualname}#container-arm-visits-every-element[{n_rec}]",
                          f"{upv.module.rel}:{loop.lineno}", {"pattern": ast.unparse(c.pattern)[:40], "early_success_exits": len(early_true) + len(brk)},
                          "the write-back after a borrowing call stops before all elements of a tuple/struct/list were re-pointed")
        ctx.floor("R-C21.4", "container arms of update_packed_value", n_rec, 3)

    # ---------------- R-C21.5 comptime Python values are never looked up by ==/hash
    gofp = idx.find_func("guppy_object_from_py", "guppylang_internals.tracing.unpacking")
    ctx.saw("functions", gofp.qualname)
    vparam = gofp.node.args.args[0].arg
    aliases = {vparam}
    for n in walk_no_nested(gofp.node):
        if isinstance(n, ast.match_case) and isinstance(n.pattern, ast.MatchAs) and n.pattern.pattern is None and n.pattern.name:
            aliases.add(n.pattern.name)
    keyed = []
    for n in walk_no_nested(gofp.node):
        if isinstance(n, ast.Subscript) and isinstance(n.slice, ast.Name) and n.slice.id in aliases:
            keyed.append(f"{ast.unparse(n)}@{n.lineno}")
        if isinstance(n, ast.Compare) and len(n.ops) == 1 and isinstance(n.ops[0], (ast.In, ast.NotIn)) and isinstance(n.left, ast.Name) \
                and n.left.id in aliases and not isinstance(n.comparators[0], (ast.Tuple, ast.List, ast.Set)):
            keyed.append(f"{ast.unparse(n)}@{n.lineno}")
        if isinstance(n, ast.Call) and isinstance(n.func, ast.Attribute) and n.func.attr in ("get", "setdefault", "add", "pop", "index", "count") \
                and n.args and isinstance(n.args[0], ast.Name) and n.args[0].id in aliases:
            keyed.append(f"{ast.unparse(n)[:60]}@{n.lineno}")
    ctx.check(not keyed, "R-C21.5", f"{gofp.qualname}#no-equality-keyed-lookup-of-python-values", gofp.where,
              {"value_names": sorted(aliases), "keyed_lookups": keyed},
              "a Python constant is looked up by ==/hash (1 == 1.0 == True): a comptime `x + 1` can reuse a float or bool constant "
              "loaded earlier, unlike the same expression in a @guppy function")
