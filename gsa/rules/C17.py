"""C17 integer literals are range-checked -- accept/reject clause.

R-C17.1  `_int_bounds_check` interpreted on boundary integers: raises exactly outside
         [-2^63, 2^63-1] (signed) / [0, 2^64-1] (unsigned), width folded from
         NumericType.INT_WIDTH.
R-C17.2  `python_value_to_guppy_type` interpreted on (value, hint) pairs -- scalars, tuples
         and lists: an int is accepted at nat iff hint is nat, value >= 0 and <= 2^64-1,
         else at int iff in the signed range; bool is bool; every element of a tuple/list
         constant is range-checked.
R-C17.3  negative literals are folded to constants before checking (`-9223372036854775808`); `desugar_comprehension` interpreted:
         iterator, guard and element all go through the folding expression builder (c17_positions.py).
R-C17.4  lowering uses the type's signedness and width: `python_value_to_hugr` interpreted on int values at nat / int, bare
         and inside tuple / list constants, with recording constructors (c17_lowering.py; match-arm shape only as fallback).
R-C17.5  all constant entry points reach the range-checked function.
R-C17.6  integers written as type arguments (`array[int, N]`, literal or `comptime(n)`): `arg_from_ast` interpreted on 12 values --
         accepted as that nat constant iff 0 <= N <= 2^64 - 1, rejected with a Guppy error otherwise (c17_typearg.py).
Not decided: the value the compiled program observes.
"""

from __future__ import annotations

import ast

from ..absint.minieval import Opaque, Unsupported
from ..absint.pyeval import PyEval, Tok
from ..flow import CFG, calls_any
from ..index import AnalysisError, call_name, calls_in, dotted, walk_no_nested
from ..report import Ctx

LEVEL = "other"
EXPLANATION = (
    "The two range-check functions are interpreted from their syntax trees (own interpreter, nothing imported) on every "
    "boundary integer (each bound and its neighbours, zero, +-1, a 200-bit value) for both signednesses, as scalars and "
    "inside tuple/list constants at every position; exact for comparison-only code whose constants fold to the probed "
    "bounds (every integer constant that folds inside the function is added to the probe set). Plus structural rules for "
    "literal folding, lowering and entry points."
)

EC = "guppylang_internals.checker.expr_checker"
S_MIN, S_MAX = -(1 << 63), (1 << 63) - 1
U_MAX = (1 << 64) - 1


def probes(extra: set[int]) -> list[int]:
    base = {0, 1, -1, 2, S_MIN, S_MAX, U_MAX, 1 << 200, -(1 << 200), 12345}
    base |= extra
    out = set()
    for b in base:
        out |= {b - 1, b, b + 1}
    return sorted(out)


def folded_constants(ev: PyEval, fn: ast.FunctionDef) -> set[int]:
    out: set[int] = set()
    for n in ast.walk(fn):
        if isinstance(n, (ast.BinOp, ast.UnaryOp, ast.Constant)):
            try:
                v = ev.ev(n, {})
            except Exception:  # noqa: BLE001
                continue
            if isinstance(v, int) and not isinstance(v, bool) and abs(v) < (1 << 300):
                out.add(v)
    return out


def run(ctx: Ctx) -> None:
    idx = ctx.idx
    ibc = idx.find_func("_int_bounds_check", EC)
    pv = idx.find_func("python_value_to_guppy_type", EC)
    ctx.saw("functions", ibc.qualname)
    ctx.saw("functions", pv.qualname)
    ev = PyEval(idx, EC)

    # ------------------------------------------------------------ R-C17.1
    ps = [a.arg for a in ibc.node.args.args]
    if len(ps) < 3:
        raise AnalysisError("_int_bounds_check signature changed")
    # local folding of the function's own constants (bit widths, bounds) to extend the probe set
    extra = set()
    try:
        env0 = {ps[0]: 0, ps[1]: Tok("node"), ps[2]: True}
        for signed in (True, False):
            e2 = {ps[0]: 0, ps[1]: Tok("node"), ps[2]: signed}
            ev.run(ibc.node.body, e2)
            extra |= {v for v in e2.values() if isinstance(v, int) and not isinstance(v, bool) and abs(v) < (1 << 300)}
    except Unsupported:
        pass
    P = probes(extra)
    bad = []
    und = None
    for signed in (True, False):
        lo, hi = (S_MIN, S_MAX) if signed else (0, U_MAX)
        for v in P:
            try:
                out = ev.run_function(ibc, {ps[0]: v, ps[1]: Tok("node"), ps[2]: signed})
            except Unsupported as e:
                und = str(e)
                break
            raised = out[0] == "raise"
            want = not (lo <= v <= hi)
            if raised != want:
                bad.append({"value": str(v) if abs(v) > 10**6 else v, "signed": signed, "rejected": raised, "should_reject": want})
    key = f"{ibc.qualname}#range"
    if und:
        ctx.undecided("R-C17.1", key, ibc.where, und)
    else:
        ctx.check(not bad, "R-C17.1", key, ibc.where, {"probes": len(P) * 2, "extra_constants_from_code": sorted(str(x) for x in extra)[:8], "counterexamples": bad[:6]},
                  "an integer just inside the 64-bit range is rejected or one just outside is accepted")

    # ------------------------------------------------------------ R-C17.2
    nat, int_, flt, bool_, str_ = Tok("nat"), Tok("int"), Tok("float"), Tok("bool"), Tok("string")

    def farr(el, n=None):
        return Tok("frozenarray", elem=el)

    hooks = {
        "nat_type": lambda n, e, en: nat, "int_type": lambda n, e, en: int_, "float_type": lambda n, e, en: flt,
        "bool_type": lambda n, e, en: bool_, "string_type": lambda n, e, en: str_, "NoneType": lambda n, e, en: Tok("none"),
        "TupleType": lambda n, e, en: Tok("tuple", elems=tuple(e.ev(n.args[0], en))),
        "frozenarray_type": lambda n, e, en: Tok("frozenarray", elem=e.ev(n.args[0], en)),
        "is_frozenarray_type": lambda n, e, en: isinstance(e.ev(n.args[0], en), Tok) and e.ev(n.args[0], en).name == "frozenarray",
        "get_element_type": lambda n, e, en: e.ev(n.args[0], en).attrs["elem"],
        "unify": lambda n, e, en: ({} if e.ev(n.args[0], en) == e.ev(n.args[1], en) else None),
    }
    for t in (nat, int_, flt, bool_, str_):
        t.attrs["__methods__"] = {"substitute": lambda recv, args: recv}

    class TyEval(PyEval):
        def call(self, node, env):
            fn = ast.unparse(node.func)
            if fn == "isinstance" and len(node.args) == 2 and dotted(node.args[1]) == "TupleType":
                v = self.ev(node.args[0], env)
                return isinstance(v, Tok) and v.name == "tuple"
            if fn.endswith(".fresh"):
                return Tok("existential")
            return super().call(node, env)

        def attr(self, value, name, node, env):
            if isinstance(value, Tok) and value.name == "tuple" and name == "element_types":
                return list(value.attrs["elems"])
            return super().attr(value, name, node, env)

    tev = TyEval(idx, EC)
    pps = [a.arg for a in pv.node.args.args]

    def typ(v, hint):
        env = {pps[0]: v, pps[1]: Tok("node"), pps[2]: Tok("globals"), pps[3]: hint, **hooks}
        return tev.run_function(pv, env)

    def want_scalar(v, hint):
        if isinstance(v, bool):
            return ("return", bool_)
        if hint == nat and v >= 0:
            return ("return", nat) if v <= U_MAX else ("raise", None)
        return ("return", int_) if S_MIN <= v <= S_MAX else ("raise", None)

    bad = []
    und = None
    n_cases = 0
    scal = [v for v in P if abs(v) < (1 << 70) or v in (1 << 200, -(1 << 200))]
    try:
        for hint in (None, nat, int_, flt):
            for v in [*scal, True, False]:
                n_cases += 1
                out, want = typ(v, hint), want_scalar(v, hint)
                if out[0] != want[0] or (want[0] == "return" and out[1] != want[1]):
                    bad.append({"value": str(v), "hint": repr(hint), "got": f"{out[0]} {out[1]!r}", "want": f"{want[0]} {want[1]!r}"})
        # containers: a single bad element at any position must be rejected; good ones accepted with the right element type
        good_i, bad_i = [0, 5, S_MAX, S_MIN], [S_MAX + 1, S_MIN - 1, 1 << 200]
        good_n, bad_n = [0, 7, U_MAX], [U_MAX + 1]
        for length in (1, 2, 3):
            for pos in range(length):
                for elem_hint, goods, bads in ((None, good_i, bad_i), (nat, good_n, bad_n)):
                    for b in bads:
                        vals = [goods[(i + 1) % len(goods)] for i in range(length)]
                        vals[pos] = b
                        for container, hint in (("list", farr(elem_hint) if elem_hint else None),
                                                ("tuple", Tok("tuple", elems=tuple([elem_hint] * length)) if elem_hint else None)):
                            n_cases += 1
                            v = list(vals) if container == "list" else tuple(vals)
                            out = typ(v, hint)
                            if out[0] != "raise":
                                bad.append({"value": f"{container}{[str(x) for x in vals]}", "hint": repr(hint), "got": f"{out[0]} {out[1]!r}", "want": "rejected (element out of range)"})
                    vals = [goods[i % len(goods)] for i in range(length)]
                    for container, hint in (("list", farr(elem_hint) if elem_hint else None),
                                            ("tuple", Tok("tuple", elems=tuple([elem_hint] * length)) if elem_hint else None)):
                        n_cases += 1
                        v = list(vals) if container == "list" else tuple(vals)
                        out = typ(v, hint)
                        el = nat if elem_hint == nat else int_
                        ok = out[0] == "return" and isinstance(out[1], Tok) and (
                            (container == "list" and out[1].name == "frozenarray" and out[1].attrs.get("elem") == el)
                            or (container == "tuple" and out[1].name == "tuple" and tuple(out[1].attrs.get("elems", ())) == tuple([el] * length)))
                        if not ok:
                            bad.append({"value": f"{container}{[str(x) for x in vals]}", "hint": repr(hint), "got": f"{out[0]} {out[1]!r}", "want": f"accepted with element type {el!r}"})
        # a tuple hint of another length must not make elements escape the check
        for hint_len in (1, 2):
            for b in bad_i:
                vals = (0, 1, b)
                n_cases += 1
                out = typ(vals, Tok("tuple", elems=tuple([int_] * hint_len)))
                if out[0] != "raise":
                    bad.append({"value": f"tuple{[str(x) for x in vals]}", "hint": f"tuple of {hint_len} ints", "got": f"{out[0]} {out[1]!r}",
                                "want": "rejected (element out of range; the shorter hint must not hide it)"})
        # a negative element under a nat hint falls back to int: mixed list is incoherent, not silently nat
        out = typ([1, -1], farr(nat))
        n_cases += 1
        if out[0] == "return" and isinstance(out[1], Tok) and out[1].attrs.get("elem") == nat:
            bad.append({"value": "[1, -1]", "hint": "frozenarray[nat]", "got": "accepted as nat elements", "want": "rejected or not nat"})
    except Unsupported as e:
        und = str(e)
    key = f"{pv.qualname}#accept-reject-table"
    if und:
        ctx.undecided("R-C17.2", key, pv.where, und)
    else:
        ctx.check(not bad, "R-C17.2", key, pv.where, {"cases": n_cases, "counterexamples": bad[:6], "n_counterexamples": len(bad)},
                  "a Python integer (literal or comptime value, possibly inside a tuple/list constant) is accepted at a type whose range "
                  "does not contain it, rejected although it fits, or typed nat/int against the rule")

    # ------------------------------------------------------------ R-C17.3 negative literal folding
    vu = idx.method("ExprBuilder", "visit_UnaryOp")
    # interpreted: `-<int literal>` must come back as ONE constant holding the negated value (so that -2^63 is range-checked as
    # -2^63, not as 2^63 negated afterwards); anything else goes to the generic traversal
    from ..absint.astmodel import N
    from ..absint.pyeval import Raised
    fold_bad, fold_und = [], None
    vps = [a_.arg for a_ in vu.node.args.args]
    for label, mk, want in (("-9223372036854775808", lambda: N("UnaryOp", op=N("USub"), operand=N("Constant", value=1 << 63)), -(1 << 63)),
                            ("-5", lambda: N("UnaryOp", op=N("USub"), operand=N("Constant", value=5)), -5),
                            ("-1.5", lambda: N("UnaryOp", op=N("USub"), operand=N("Constant", value=1.5)), -1.5),
                            ("-x", lambda: N("UnaryOp", op=N("USub"), operand=N("Name", id="x")), "generic"),
                            ("+5", lambda: N("UnaryOp", op=N("UAdd"), operand=N("Constant", value=5)), "generic"),
                            ("-'s'", lambda: N("UnaryOp", op=N("USub"), operand=N("Constant", value="s")), "generic")):
        node_t = mk()
        self_t = Tok("expr_builder", __classes__=vu.cls.mro(), __methods__={"generic_visit": lambda r, a_: "generic"}, __ident__=1)
        try:
            r = PyEval(idx, vu.module.name).run(vu.node.body, {vps[0]: self_t, vps[1]: node_t, "with_loc": lambda n_, e_, en_: e_.ev(n_.args[1], en_)})
        except Unsupported as e:
            fold_und = f"{label}: {e}"
            break
        except Raised as e:
            fold_bad.append({"expression": label, "problem": f"raises {e}"})
            continue
        got = r[1] if r[0] == "return" else r[0]
        if want == "generic":
            ok = got == "generic"
        else:
            ok = isinstance(got, Tok) and got.attrs.get("__class__") == "Constant" and got.attrs.get("value") == want and type(got.attrs.get("value")) is type(want)
        if not ok:
            fold_bad.append({"expression": label, "result": repr(got)[:60] + (f" value={got.attrs.get('value')!r}" if isinstance(got, Tok) else ""), "should_be": f"Constant({want})" if want != "generic" else "generic traversal"})
    if fold_und is None:
        ctx.check(not fold_bad, "R-C17.3", f"{vu.qualname}#folds-negative-int-literals", vu.where, {"cases": 6, "counterexamples": fold_bad},
                  "`-9223372036854775808` is checked as 9223372036854775808 (out of range) and negated afterwards")
    else:
        ctx.note(f"R-C17.3 visit_UnaryOp not interpretable ({fold_und}); pattern-shape form used")
        folded = False
        facts = {}
        for m in walk_no_nested(vu.node):
            if isinstance(m, ast.match_case):
                txt = ast.unparse(m.pattern)
                if "USub" in txt and "Constant" in txt:
                    neg = any(isinstance(s, ast.Assign) and isinstance(s.value, ast.UnaryOp) and isinstance(s.value.op, ast.USub) for b in m.body for s in ast.walk(b))
                    facts = {"pattern": txt[:80], "negates": neg}
                    folded = neg and ("int" in txt)
        if not facts:
            ctx.undecided("R-C17.3", f"{vu.qualname}#folds-negative-int-literals", vu.where, f"not interpretable ({fold_und}) and no `case USub(), Constant(...)` arm to look at")
        else:
            ctx.check(folded, "R-C17.3", f"{vu.qualname}#folds-negative-int-literals", vu.where, facts,
                      "`-9223372036854775808` is checked as 9223372036854775808 (out of range) and negated afterwards")

    from . import c17_positions
    c17_positions.run(ctx)  # R-C17.3: comprehension iterators / guards / elements all go through the folding builder

    # ------------------------------------------------------------ R-C17.4 lowering by signedness
    from . import c17_lowering
    if not c17_lowering.run(ctx):
        # fallback (not interpretable): the two match arms construct UnsignedIntVal / IntVal with width=NumericType.INT_WIDTH
        ph = idx.find_func("python_value_to_hugr", "guppylang_internals.compiler.expr_compiler")
        pairs = {}
        for m in walk_no_nested(ph.node):
            if isinstance(m, ast.match_case) and dotted(getattr(m.pattern, "value", None) or ast.Name(id="")).endswith(("Kind.Nat", "Kind.Int")):
                k = dotted(m.pattern.value).split(".")[-1]
                for r in ast.walk(ast.Module(body=m.body, type_ignores=[])):
                    if isinstance(r, ast.Return) and isinstance(r.value, ast.Call):
                        width = [ast.unparse(kw.value) for kw in r.value.keywords if kw.arg == "width"]
                        pairs[k] = (dotted(r.value.func).split(".")[-1], width[0] if width else (ast.unparse(r.value.args[1]) if len(r.value.args) > 1 else None))
        ctx.check(pairs.get("Nat", ("",))[0] == "UnsignedIntVal" and pairs.get("Int", ("",))[0] == "IntVal"
                  and all(p[1] == "NumericType.INT_WIDTH" for p in pairs.values()) and len(pairs) == 2, "R-C17.4",
                  f"{ph.qualname}#signedness", ph.where, {"lowering": pairs},
                  "an accepted nat/int constant is lowered with the wrong signedness or width")

    # ------------------------------------------------------------ R-C17.5 entry points
    entry = [("ExprChecker", "visit_Constant"), ("ExprSynthesizer", "visit_Constant"), ("ExprChecker", "visit_ComptimeExpr"), ("ExprSynthesizer", "visit_ComptimeExpr")]
    for cls, meth in entry:
        f = idx.method(cls, meth)
        g = CFG(f.node)
        ok = g.every_path_to_exit_passes(calls_any({"python_value_to_guppy_type"}))
        ctx.check(ok, "R-C17.5", f"{f.qualname}#reaches-range-check", f.where, {"all_accepting_paths": ok},
                  "a constant can be accepted on a path that never calls the range-checking typing function")
    # (that integers are range-checked on every arm and that True/False are typed bool, not int, is decided by R-C17.2's table;
    #  the arm-shape form is the fallback when that table could not be evaluated)
    if und:
        # the two int arms of python_value_to_guppy_type call the check before returning
        arms = [m for m in walk_no_nested(pv.node) if isinstance(m, ast.match_case) and isinstance(m.pattern, ast.MatchClass) and dotted(m.pattern.cls) == "int"]
        ctx.floor("R-C17.5", "int arms", len(arms), 2)
        order = [dotted(m.pattern.cls) if isinstance(m.pattern, ast.MatchClass) else "" for m in walk_no_nested(pv.node) if isinstance(m, ast.match_case)]
        ctx.check("bool" in order and order.index("bool") < order.index("int"), "R-C17.5", f"{pv.qualname}#bool-before-int", pv.where, {"arm_order": [o for o in order if o]},
                  "True/False would be typed as integers (bool is a subclass of int)")

    # ------------------------------------------------------------ R-C17.6 integers in type-argument position
    from . import c17_typearg
    c17_typearg.run(ctx)
