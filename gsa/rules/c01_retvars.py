"""R-C01.4  insert_return_vars, by abstract interpretation.

`insert_return_vars(cfg)` is interpreted on symbolic CFGs: 0-2 return values, exit input rows of
length 0-2, 1-2 predecessors of the exit with output rows of length 0-2.  `Signature`, `Variable`,
`return_var` and `type_to_row` are recorders / trivial models.

Decided: afterwards the exit block's input row is (return variables ++ old row); every
predecessor's only output row is (the same return variables, same order ++ its old row); the
predecessors' input rows and the exit's output rows are unchanged.  Otherwise the exit block and
its predecessors disagree about the values on the edge (invalid HUGR).
"""

from __future__ import annotations

import itertools

from ..absint.minieval import Unsupported
from ..absint.pyeval import PyEval, Raised, Tok
from ..report import Ctx


def run(ctx: Ctx) -> None:
    idx = ctx.idx
    f = idx.find_func("insert_return_vars", "guppylang_internals.compiler.cfg_compiler")
    ctx.saw("functions", f.qualname)
    key = f"{f.qualname}#exit-and-predecessors-agree"
    bad = []
    n = 0
    for n_ret, n_exit, n_pred in itertools.product((0, 1, 2), (0, 1, 2), (1, 2)):
        for pred_len in (0, 2):
            n += 1
            sig = lambda i, o: Tok("sig", input_row=i, output_rows=o)  # noqa: E731
            exit_row = [f"e{i}" for i in range(n_exit)]
            preds = [Tok(f"pred{j}", sig=sig([f"in{j}"], [[f"p{j}_{i}" for i in range(pred_len)]]), __ident__=1) for j in range(n_pred)]
            exit_bb = Tok("exit", sig=sig(list(exit_row), ["EXIT_OUT"]), predecessors=preds, __ident__=1)
            cfg = Tok("cfg", exit_bb=exit_bb, output_ty=[f"rty{i}" for i in range(n_ret)], __ident__=1)
            env = {
                f.node.args.args[0].arg: cfg,
                "Signature": lambda node, ev, env: Tok("sig", input_row=ev.ev(node.args[0], env), output_rows=ev.ev(node.args[1], env)),
                "Variable": lambda node, ev, env: ("retvar", ev.ev(node.args[0], env), ev.ev(node.args[1], env)),
                "return_var": lambda node, ev, env: f"%ret{ev.ev(node.args[0], env)}",
                "type_to_row": lambda node, ev, env: list(ev.ev(node.args[0], env)),
            }
            ev = PyEval(idx, f.module.name)
            try:
                ev.run(f.node.body, env)
            except Unsupported as e:
                ctx.undecided("R-C01.4", key, f.where, str(e))
                return
            except Raised as e:
                bad.append({"returns": n_ret, "problem": f"raises {e}"})
                continue
            rets = [("retvar", f"%ret{i}", f"rty{i}") for i in range(n_ret)]
            es = exit_bb.attrs["sig"].attrs
            probs = []
            if es["input_row"] != rets + exit_row or es["output_rows"] != ["EXIT_OUT"]:
                probs.append({"exit_input_row": repr(es["input_row"]), "want": repr(rets + exit_row)})
            for j, p in enumerate(preds):
                ps = p.attrs["sig"].attrs
                want = [rets + [f"p{j}_{i}" for i in range(pred_len)]]
                if ps["output_rows"] != want or ps["input_row"] != [f"in{j}"]:
                    probs.append({"predecessor": j, "output_rows": repr(ps["output_rows"]), "want": repr(want), "input_row": repr(ps["input_row"])})
            if probs:
                bad.append({"returns": n_ret, "exit_row": exit_row, "predecessors": n_pred, "problems": probs[:2]})
    ctx.check(not bad, "R-C01.4", key, f.where, {"cases": n, "counterexamples": bad[:3]},
              "the exit block expects return values that (some of) its predecessors do not output, or in another position")


def run_twice(ctx: Ctx) -> None:
    """R-C01.4 (second instance)  lowering the same checked CFG twice leaves the signatures as the first lowering left them.

    All monomorphic instances of a function share one checked CFG, so `compile_cfg` runs on the same object once per instance.
    `compile_cfg` is interpreted twice in a row on one symbolic CFG (container / builder / `compile_bb` are recorders,
    `insert_return_vars`, `is_return_var`, `return_var` are followed): after the second run the exit's input row and every
    predecessor's output row are what they were after the first run (return variables present exactly once).
    """
    idx = ctx.idx
    f = idx.find_func("compile_cfg", "guppylang_internals.compiler.cfg_compiler")
    key = f"{f.qualname}#lowering-the-same-cfg-twice-keeps-the-signatures"
    ps = [a.arg for a in f.node.args.args]
    bad = []
    n = 0
    try:
        for n_ret, n_exit, n_pred in itertools.product((0, 1, 2), (0, 1), (1, 2)):
            n += 1
            mk_var = lambda nm: Tok(nm, __class__="Variable", __bases__=("Place",), name=nm, ty=Tok(f"ty_{nm}", __methods__={"to_hugr": lambda r, a: "hugr_ty"}), __ident__=1)  # noqa: E731
            sig = lambda i, o: Tok("sig", input_row=i, output_rows=o)  # noqa: E731
            preds = [Tok(f"pred{j}", sig=sig([], [[mk_var(f"p{j}")]]), successors=[], __ident__=1) for j in range(n_pred)]
            exit_bb = Tok("exit", sig=sig([mk_var(f"e{i}") for i in range(n_exit)], []), predecessors=preds, successors=[], __ident__=1)
            for p in preds:
                p.attrs["successors"] = [exit_bb]
            cfg = Tok("cfg", exit_bb=exit_bb, entry_bb=preds[0], bbs=[*preds, exit_bb], output_ty=[Tok(f"rty{i}", __methods__={"to_hugr": lambda r, a: "hugr_ty"}) for i in range(n_ret)], __ident__=1)
            builder = Tok("builder", _exit_op=Tok("exit_op"), parent_op=Tok("parent_op"), parent_node=Tok("parent_node"),
                          hugr=Tok("hugr", __methods__={"_update_node_outs": lambda r, a: Tok("parent_node")}), __methods__={"branch": lambda r, a: None}, __ident__=1)
            container = Tok("container", __methods__={"add_cfg": lambda r, a, builder=builder: builder}, __ident__=1)
            env = {
                ps[0]: cfg, ps[1]: container, ps[2]: [], ps[3]: Tok("ctx"),
                "Signature": lambda node, ev, env: Tok("sig", input_row=ev.ev(node.args[0], env), output_rows=ev.ev(node.args[1], env)),
                "Variable": lambda node, ev, env: Tok(ev.ev(node.args[0], env), __class__="Variable", __bases__=("Place",), name=ev.ev(node.args[0], env),
                                                     ty=ev.ev(node.args[1], env), __ident__=1),
                "type_to_row": lambda node, ev, env: list(ev.ev(node.args[0], env)),
                "compile_bb": lambda node, ev, env: Tok("block", __getitem__=lambda i: Tok(f"port{i}")),
            }
            snaps = []
            for _ in (1, 2):
                out = PyEval(idx, f.module.name, max_depth=6).run(f.node.body, dict(env))
                if out[0] == "raise":
                    raise Raised(str(out[1]), str(out[1]))
                snaps.append(([v.name for v in exit_bb.attrs["sig"].attrs["input_row"]],
                              [[[v.name for v in row] for row in p.attrs["sig"].attrs["output_rows"]] for p in preds]))
            rets = [f"%ret{i}" for i in range(n_ret)]
            want = (rets + [f"e{i}" for i in range(n_exit)], [[rets + [f"p{j}"]] for j in range(n_pred)])
            if snaps[0] != want or snaps[1] != want:
                bad.append({"return_values": n_ret, "exit_row_length": n_exit, "predecessors": n_pred, "after_first_lowering": snaps[0], "after_second_lowering": snaps[1],
                            "should_be_both_times": want})
    except Unsupported as e:
        ctx.undecided("R-C01.4", key, f.where, str(e))
        return
    except Raised as e:
        ctx.violation("R-C01.4", key, f.where, {"problem": f"raises {e}"}, "compile_cfg fails on a well-formed checked CFG")
        return
    ctx.check(not bad, "R-C01.4", key, f.where, {"cases": n, "counterexamples": bad[:3], "n_counterexamples": len(bad)},
              "a function that is lowered more than once (one checked CFG shared by several monomorphic instances) gets its return "
              "variables prepended again: a block passes more values than the exit block declares (invalid HUGR / internal error)")
