"""R-C01.4  insert_return_vars, by abstract interpretation.

`insert_return_vars(cfg)` is interpreted on symbolic CFGs: 0-2 return values, exit input rows of
length 0-2, 1-2 predecessors of the exit with output rows of length 0-2.  `Signature`, `Variable`,
`return_var` and `type_to_row` are recorders / trivial models.

Decided: afterwards the exit block's input row is (return variables ++ old row); every
predecessor's only output row is (the same return variables, same order ++ its old row); the
predecessors' input rows and the exit's output rows are unchanged.  Otherwise the exit block and
its predecessors disagree about the values on the edge (invalid HUGR).
"""

from __future__ import annotations

import itertools

from ..absint.minieval import Unsupported
from ..absint.pyeval import PyEval, Raised, Tok
from ..report import Ctx


def run(ctx: Ctx) -> None:
    idx = ctx.idx
    f = idx.find_func("insert_return_vars", "guppylang_internals.compiler.cfg_compiler")
    ctx.saw("functions", f.qualname)
    key = f"{f.qualname}#exit-and-predecessors-agree"
    bad = []
    n = 0
    for n_ret, n_exit, n_pred in itertools.product((0, 1, 2), (0, 1, 2), (1, 2)):
        for pred_len in (0, 2):
            n += 1
            sig = lambda i, o: Tok("sig", input_row=i, output_rows=o)  # noqa: E731
            exit_row = [f"e{i}" for i in range(n_exit)]
            preds = [Tok(f"pred{j}", sig=sig([f"in{j}"], [[f"p{j}_{i}" for i in range(pred_len)]]), __ident__=1) for j in range(n_pred)]
            exit_bb = Tok("exit", sig=sig(list(exit_row), ["EXIT_OUT"]), predecessors=preds, __ident__=1)
            cfg = Tok("cfg", exit_bb=exit_bb, output_ty=[f"rty{i}" for i in range(n_ret)], __ident__=1)
            env = {
                f.node.args.args[0].arg: cfg,
                "Signature": lambda node, ev, env: Tok("sig", input_row=ev.ev(node.args[0], env), output_rows=ev.ev(node.args[1], env)),
                "Variable": lambda node, ev, env: ("retvar", ev.ev(node.args[0], env), ev.ev(node.args[1], env)),
                "return_var": lambda node, ev, env: f"%ret{ev.ev(node.args[0], env)}",
                "type_to_row": lambda node, ev, env: list(ev.ev(node.args[0], env)),
            }
            ev = PyEval(idx, f.module.name)
            try:
                ev.run(f.node.body, env)
            except Unsupported as e:
                ctx.undecided("R-C01.4", key, f.where, str(e))
                return
            except Raised as e:
                bad.append({"returns": n_ret, "problem": f"raises {e}"})
                continue
            rets = [("retvar", f"%ret{i}", f"rty{i}") for i in range(n_ret)]
            es = exit_bb.attrs["sig"].attrs
            probs = []
            if es["input_row"] != rets + exit_row or es["output_rows"] != ["EXIT_OUT"]:
                probs.append({"exit_input_row": repr(es["input_row"]), "want": repr(rets + exit_row)})
            for j, p in enumerate(preds):
                ps = p.attrs["sig"].attrs
                want = [rets + [f"p{j}_{i}" for i in range(pred_len)]]
                if ps["output_rows"] != want or ps["input_row"] != [f"in{j}"]:
                    probs.append({"predecessor": j, "output_rows": repr(ps["output_rows"]), "want": repr(want), "input_row": repr(ps["input_row"])})
            if probs:
                bad.append({"returns": n_ret, "exit_row": exit_row, "predecessors": n_pred, "problems": probs[:2]})
    ctx.check(not bad, "R-C01.4", key, f.where, {"cases": n, "counterexamples": bad[:3]},
              "the exit block expects return values that (some of) its predecessors do not output, or in another position")
