"""R-C29.2 (semantic form)  `wrap` is total and keeps every word.

`diagnostic.wrap` is interpreted from its syntax tree with `textwrap.wrap` replaced by a model that has textwrap's
contract -- no line for a paragraph without words (empty or blanks only), otherwise the paragraph's words in order,
greedily filled into lines of at most `width` columns (longer words alone on a line) -- on a family of texts: empty, blanks
only, one word, several paragraphs, empty paragraphs in between, trailing newline, blank-only paragraphs, long words.

Decided, for every text, width and indent pair: the call returns normally (no failing `[first, *rest] = []`), the result is
a non-empty list of strings, the words of the text appear in it exactly once each and in order, the first line starts with
`initial_indent` and every other line with `subsequent_indent`.
"""

from __future__ import annotations

import itertools

from ..absint.minieval import Unsupported
from ..absint.pyeval import PyEval, Raised
from ..report import Ctx

DG = "guppylang_internals.diagnostic"

TEXTS = ["", " ", "   ", "word", "two words", "a b c d e f g h", "first paragraph\nsecond one", "a\n\nb", "a\n", "\n", "\n\n", "a\n \nb", "  \n  ",
         "trailing blanks   ", "x\n   ", "averyveryverylongwordthatdoesnotfit next", "tab\tseparated words"]


def _model(paragraph: str, width: int) -> list[str]:
    words = paragraph.split()
    lines: list[str] = []
    cur = ""
    for w in words:
        if not cur:
            cur = w
        elif len(cur) + 1 + len(w) <= width:
            cur += " " + w
        else:
            lines.append(cur)
            cur = w
    if cur:
        lines.append(cur)
    return lines


def run(ctx: Ctx) -> bool:
    idx = ctx.idx
    wrap = idx.find_func("wrap", DG)
    key = f"{wrap.qualname}#total-and-keeps-every-word"
    a = wrap.node.args
    pos = [x.arg for x in a.posonlyargs + a.args]
    bad = []
    n = 0
    try:
        for text, width, (ii, si) in itertools.product(TEXTS, (8, 80), (("", ""), (" ", "      "))):
            n += 1
            seen_kwargs: list = []

            def h_tw(node, e, env, seen_kwargs=seen_kwargs):
                vals = [e.ev(x, env) for x in node.args]
                kws = {}
                for k in node.keywords:
                    v = e.ev(k.value, env)
                    if k.arg is None and isinstance(v, dict):
                        kws.update(v)
                    elif k.arg:
                        kws[k.arg] = v
                seen_kwargs.append(kws)
                if not isinstance(vals[0], str):
                    raise Unsupported("textwrap.wrap on a non-string")
                w = vals[1] if len(vals) > 1 else kws.get("width", 70)
                return _model(vals[0], w)

            env = {pos[0]: text, pos[1]: width, "textwrap.wrap": h_tw}
            names = pos[2:] + [k.arg for k in a.kwonlyargs]
            for nm in names:
                if "initial" in nm:
                    env[nm] = ii
                elif "subsequent" in nm:
                    env[nm] = si
            if a.kwarg:
                env[a.kwarg.arg] = {}
            ev = PyEval(idx, DG, max_depth=5)
            case = {"text": text, "width": width, "indents": [ii, si]}
            try:
                out = ev.run(wrap.node.body, env)
                if out[0] == "raise":
                    raise Raised(str(out[1]), str(out[1]))
            except Raised as e:
                bad.append({**case, "problem": f"raises {e.cls or e}"})
                continue
            res = out[1] if out[0] == "return" else None
            if not (isinstance(res, list) and res and all(isinstance(x, str) for x in res)):
                bad.append({**case, "problem": f"returns {res!r}"[:80]})
                continue
            words = " ".join(res).split()
            ok_words = words == text.split()
            ok_ind = res[0].startswith(ii) and all(x.startswith(si) for x in res[1:])
            if not (ok_words and ok_ind):
                bad.append({**case, "result": res[:4], "words_kept": ok_words, "indents_applied": ok_ind})
    except Unsupported as e:
        ctx.undecided("R-C29.2", key, wrap.where, str(e))
        return False
    ctx.check(not bad, "R-C29.2", key, wrap.where, {"cases": n, "counterexamples": bad[:3], "n_counterexamples": len(bad)},
              "wrapping a label or message fails (e.g. `[first, *rest] = []` for a text of blanks only), loses or repeats words, or drops the indents")
    return True
