"""R-C01.7  the branch sum passes every live value into the conditional exactly once (`choose_vars_for_tuple_sum`, interpreted).

`choose_vars_for_tuple_sum(unit_sum, output_vars, dfg)` is interpreted from its syntax tree with recorder tokens for the
data-flow container and the HUGR conditional builder, on rows over three droppable places -- disjoint rows, overlapping
rows, equal rows, an empty row, the same place appearing as two different objects with the same id, three successors.

Decided: the conditional gets the predicate and then ONE wire per distinct place (a place that is live on several successors is
not fed in once per row: for a non-copyable value such as an array that would consume its port several times); in case i the
tag operation gets, in the order of row i, exactly the case inputs that carry row i's places; the conditional is returned.
"""

from __future__ import annotations

from ..absint.minieval import Unsupported
from ..absint.pyeval import PyEval, Raised, Tok
from ..report import Ctx

CC = "guppylang_internals.compiler.cfg_compiler"


def _place(pid: str, copy: int = 0) -> Tok:
    ty = Tok(f"ty_{pid}", droppable=True, copyable=False, __methods__={"to_hugr": lambda r, a: Tok("hugr_ty")}, __ident__=1)
    return Tok(f"{pid}#{copy}", id=pid, name=pid, ty=ty, __ident__=1)


def run(ctx: Ctx) -> bool:
    idx = ctx.idx
    f = idx.find_func("choose_vars_for_tuple_sum", CC)
    key = f"{f.qualname}#each-place-enters-the-conditional-once"
    ps = [a.arg for a in f.node.args.args]
    a, b, c = _place("a"), _place("b"), _place("c")
    a2 = _place("a", 1)  # another object for the same place
    families = [
        ("disjoint rows", [[a], [b]]), ("overlapping rows", [[a, b], [b, c]]), ("equal rows", [[a, b], [a, b]]), ("an empty row", [[], [a]]),
        ("same place, two objects", [[a, b], [a2, c]]), ("three successors", [[a], [b, a], [c, b, a]]), ("other order in the second row", [[a, b, c], [c, a]]),
    ]
    bad = []
    try:
        for desc, rows in families:
            rec: dict = {"cases": {}}

            def add_conditional(r, args, rec=rec):
                rec["inputs"] = list(args)
                cond = Tok("conditional", __ident__=1)

                def add_case(rr, x, rec=rec, cond=cond):
                    i = x[0]
                    ins = [Tok(f"case{i}.in{j}", carries=w, __ident__=1) for j, w in enumerate(rec["inputs"][1:])]
                    case = Tok(f"case{i}", __ident__=1)
                    case.attrs["__methods__"] = {
                        "inputs": lambda r3, y, ins=ins: list(ins),
                        "add_op": lambda r3, y, i=i, rec=rec: (rec["cases"].__setitem__(i, list(y[1:])), Tok(f"tag{i}", __ident__=1))[1],
                        "set_outputs": lambda r3, y, i=i, rec=rec: rec.setdefault("outputs_set", []).append(i),
                    }
                    return case
                cond.attrs["__methods__"] = {"add_case": add_case}
                rec["cond"] = cond
                return cond

            dfg = Tok("dfg", ctx=Tok("ctx"), builder=Tok("builder", __methods__={"add_conditional": add_conditional}, __ident__=1),
                      __getitem__=lambda p: Tok(f"wire({p.attrs['id']})", place=p.attrs["id"], __ident__=1), __ident__=1)
            unit = Tok("unit_sum", __ident__=1)
            ev = PyEval(idx, CC, max_depth=6)
            try:
                out = ev.run_function(f, {ps[0]: unit, ps[1]: [list(r) for r in rows], ps[2]: dfg})
            except Raised as e:
                bad.append({"rows": desc, "problem": f"raises {e.cls or e}"})
                continue
            problems = []
            ins = rec.get("inputs")
            if ins is None:
                problems.append("no conditional is built")
            else:
                if not ins or ins[0] is not unit:
                    problems.append("the predicate is not the first input of the conditional")
                carried = [w.attrs.get("place") if isinstance(w, Tok) else repr(w) for w in ins[1:]]
                distinct = []
                for r in rows:
                    for p in r:
                        if p.attrs["id"] not in distinct:
                            distinct.append(p.attrs["id"])
                if sorted(carried) != sorted(distinct):
                    problems.append(f"the conditional gets the places {carried}; every live place must enter exactly once: {distinct}")
                for i, r in enumerate(rows):
                    got = rec["cases"].get(i)
                    got_places = [x.attrs["carries"].attrs.get("place") if isinstance(x, Tok) and isinstance(x.attrs.get("carries"), Tok) else repr(x) for x in got] if got is not None else None
                    if got_places != [p.attrs["id"] for p in r]:
                        problems.append(f"case {i} tags {got_places}, successor {i} expects {[p.attrs['id'] for p in r]}")
                if sorted(rec.get("outputs_set", [])) != list(range(len(rows))):
                    problems.append("not every case sets its outputs")
                if not (out[0] == "return" and out[1] is rec.get("cond")):
                    problems.append("the conditional is not what is returned")
            if problems:
                bad.append({"rows": desc, "problems": problems[:3]})
    except Unsupported as e:
        ctx.undecided("R-C01.7", key, f.where, str(e))
        return False
    ctx.check(not bad, "R-C01.7", key, f.where, {"cases": len(families), "counterexamples": bad[:3]},
              "a value that is live on several successors of a branch is passed into the branch conditional more than once (a non-copyable "
              "value would be consumed twice: invalid HUGR), or a successor gets other values than its row lists")
    return True
