"""R-C22.3 (semantic form)  a comptime value hands out its wire once unless it is copyable -- `GuppyObject._use_wire`, interpreted.

`_use_wire` is interpreted as a whole from its syntax tree on an object token for every combination of
{used before or not} x {copyable or not} x {droppable or not}; the calling frame, the path helper and the tracing state (with its
registry of unused non-droppable objects) are recorder tokens.

Decided: GuppyComptimeError iff the value was used before and is not copyable -- and then nothing is changed; otherwise the
object's own wire is returned, the use is recorded (`_used` is truthy afterwards; what it says is diagnostic text only), and for a
non-droppable value its entry leaves the leak registry (for a droppable one the registry is not touched).
"""

from __future__ import annotations

import itertools

from ..absint.minieval import Unsupported
from ..absint.pyeval import PyEval, Raised, Tok
from ..report import Ctx

OBJ = "guppylang_internals.tracing.object"


def run(ctx: Ctx) -> bool:
    idx = ctx.idx
    go = idx.find_class("GuppyObject", OBJ)
    uw = go.methods.get("_use_wire")
    key = f"{uw.qualname}#wire-handed-out-once-unless-copyable"
    ps = [a.arg for a in uw.node.args.args]
    bad = []
    n = 0
    try:
        for used, copyable, droppable in itertools.product((False, True), repeat=3):
            n += 1
            wire = Tok("own_wire", __ident__=1)
            earlier = Tok("earlier_use", module="m.py", lineno=3, called_func=None, __truth__=True, __ident__=1)
            ty = Tok("ty", copyable=copyable, droppable=droppable, __str__="T", __ident__=1)
            registry = {} if droppable else {"obj1": "entry"}
            me = Tok("obj", _used=earlier if used else None, _ty=ty, _wire=wire, _id="obj1", __classes__=go.mro(), __ident__=1)
            state = Tok("state", unused_undroppable_objs=registry, __ident__=1)
            called = Tok("called_func", name="g", __ident__=1)
            made: list = []

            def h_use(nd, e, env, made=made):
                vals = [e.ev(x, env) for x in nd.args] + [e.ev(k.value, env) for k in nd.keywords]
                t = Tok("new_use", args=vals, __truth__=True, __ident__=1)
                made.append(t)
                return t

            env = {ps[0]: me, ps[1]: called, "get_calling_frame": lambda nd, e, env: Tok("frame", f_code=Tok("code", co_filename="caller.py"), f_lineno=7, __ident__=1),
                   "get_tracing_state": lambda nd, e, env, state=state: state, "ObjectUse": h_use,
                   "Path": lambda nd, e, env: Tok("path", name="m.py"), "normalize_ipython_dummy_files": lambda nd, e, env: e.ev(nd.args[0], env)}
            ev = PyEval(idx, OBJ, max_depth=6)
            try:
                out = ev.run(uw.node.body, env)
                raised = str(out[1]) if out[0] == "raise" else None
                ret = out[1] if out[0] == "return" else None
            except Raised as e:
                raised, ret = e.cls or str(e), None
            want_raise = used and not copyable
            case = {"used_before": used, "copyable": copyable, "droppable": droppable}
            if (raised is not None) != want_raise or (want_raise and "GuppyComptimeError" not in str(raised)):
                bad.append({**case, "outcome": raised or "wire returned", "should": "raise GuppyComptimeError" if want_raise else "return the wire"})
                continue
            problems = []
            if want_raise:
                if me.attrs["_used"] is not earlier or registry != ({} if droppable else {"obj1": "entry"}):
                    problems.append("the rejected use changes the object or the leak registry")
            else:
                if ret is not wire:
                    problems.append(f"returns {ret!r}, not the object's wire")
                rec = me.attrs["_used"]
                if rec is None or rec is earlier and not used or not ev.truth(rec):
                    problems.append("the use is not recorded (a second use of a non-copyable value would go unnoticed)")
                if registry != {}:
                    problems.append("the entry of a non-droppable value stays in the leak registry although the value was used")
            if problems:
                bad.append({**case, "problems": problems})
    except Unsupported as e:
        ctx.undecided("R-C22.3", key, uw.where, str(e))
        return False
    ctx.check(not bad, "R-C22.3", key, uw.where, {"cases": n, "counterexamples": bad[:4], "n_counterexamples": len(bad)},
              "a non-copyable comptime value that was already used can be used again (its wire is handed out twice), a copyable one is "
              "rejected, a use is not recorded, or a used qubit stays in the leak registry")
    return True


def run_setattr(ctx: Ctx) -> bool:
    """R-C22.2 (semantic form)  a frozen struct object rejects every field store -- `GuppyStructObject.__setattr__`, interpreted.

    The method is interpreted on a struct-object token with two fields for {the name is a field or not} x {frozen or not}:
    frozen and a field -> GuppyComptimeError and the stored values are untouched;  not frozen and a field -> exactly that field
    now holds the new value;  not a field -> an error (AttributeError) and nothing is stored, frozen or not.
    """
    idx = ctx.idx
    so = idx.find_class("GuppyStructObject", OBJ)
    f = so.methods.get("__setattr__")
    key = f"{f.qualname}#frozen-rejects-field-stores"
    ps = [a.arg for a in f.node.args.args]
    bad = []
    try:
        for is_field, frozen in itertools.product((True, False), repeat=2):
            old_a, old_b, new = Tok("old_a", __ident__=1), Tok("old_b", __ident__=1), Tok("new_value", __ident__=1)
            values = {"a": old_a, "b": old_b}
            me = Tok("struct_obj", _field_values=values, _frozen=frozen, _ty=Tok("S", __str__="S"), __classes__=so.mro(), __ident__=1)
            name = "a" if is_field else "zzz"
            ev = PyEval(idx, OBJ, max_depth=6)
            try:
                out = ev.run(f.node.body, {ps[0]: me, ps[1]: name, ps[2]: new})
                raised = str(out[1]) if out[0] == "raise" else None
            except Raised as e:
                raised = e.cls or str(e)
            case = {"name_is_a_field": is_field, "frozen": frozen}
            after = me.attrs["_field_values"]
            if is_field and not frozen:
                if raised or not isinstance(after, dict) or after.get("a") is not new or after.get("b") is not old_b or set(after) != {"a", "b"}:
                    bad.append({**case, "outcome": raised or f"fields afterwards: { {k: getattr(v, 'name', v) for k, v in after.items()} }", "should": "store the value in field a only"})
            else:
                want_exc = "GuppyComptimeError" if is_field else None
                unchanged = isinstance(after, dict) and after.get("a") is old_a and after.get("b") is old_b and set(after) == {"a", "b"}
                if raised is None or (want_exc and want_exc not in str(raised)) or not unchanged:
                    bad.append({**case, "outcome": raised or "accepted", "fields_unchanged": unchanged,
                                "should": "raise GuppyComptimeError, fields unchanged" if is_field else "raise (no such attribute), fields unchanged"})
    except Unsupported as e:
        ctx.undecided("R-C22.2", key, f.where, str(e))
        return False
    ctx.check(not bad, "R-C22.2", key, f.where, {"cases": 4, "counterexamples": bad},
              "a frozen struct object (owned comptime argument) can have a field overwritten in place, or the rejection is not a GuppyComptimeError")
    return True
