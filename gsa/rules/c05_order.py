"""R-C05.6  desugarings in the checker that put operands into another order than Python evaluates them.

The compilers evaluate the arguments of a call node left to right (R-C05.4).  Two desugarings of the
type checker build call nodes whose argument order is not the source order:

 a. reflected operators.  `_synthesize_binary` falls back to `right.__rop__(left)` by synthesising a call with
    the argument list `[right_expr, left_expr]`.  For std methods implemented with `ReversingChecker` that call is
    turned back into `left.__op__(right)` (arguments `[other, self]` = source order).  A reflected method that is an
    ordinary Guppy function keeps the swapped list: the right operand is evaluated first.
    Instances: every `__rX__` (X a binary operator of the checker's operator table) defined on a std type and not
    wrapped by ReversingChecker.
 b. subscripts on values that are not places.  `SubscriptAccessAndDrop(item, item_expr, getitem_expr)` is compiled
    as "bind item_expr, then evaluate getitem_expr"; the checker fills item_expr from the subscript's index and
    getitem_expr from a call on the subscripted value -- Python evaluates the value first.
"""

from __future__ import annotations

import ast

from ..index import call_name, calls_in, dotted, walk_no_nested
from ..report import Ctx

EC = "guppylang_internals.checker.expr_checker"


def run(ctx: Ctx) -> None:
    idx = ctx.idx
    syn = idx.find_class("ExprSynthesizer", EC)
    sb = syn.methods.get("_synthesize_binary")
    # ---- a. reflected fallback
    swapped_call = None
    if sb is not None:
        ps = [a.arg for a in sb.node.args.args]  # self, left_expr, right_expr, op, node
        for c in calls_in(sb.node):
            if call_name(c) == "synthesize_call" and c.args and isinstance(c.args[0], ast.List) and len(c.args[0].elts) == 2:
                a0, a1 = (dotted(e) for e in c.args[0].elts)
                if len(ps) >= 3 and a0 == ps[2] and a1 == ps[1]:
                    swapped_call = c
    if sb is None:
        ctx.undecided("R-C05.6", f"{syn.qualname}._synthesize_binary#reflected-fallback", syn.where, "_synthesize_binary not found")
    elif swapped_call is None:
        ctx.ok("R-C05.6", f"{sb.qualname}#reflected-fallback-keeps-source-order", sb.where, {"swapped_argument_list": False})
    else:
        # operator table: class -> (op, rop, name)
        rops: set[str] = set()
        mod = idx.module(EC)
        for st in mod.tree.body:
            tgt = st.target if isinstance(st, ast.AnnAssign) else (st.targets[0] if isinstance(st, ast.Assign) else None)
            if isinstance(tgt, ast.Name) and tgt.id == "binary_table" and isinstance(getattr(st, "value", None), ast.Dict):
                for v in st.value.values:
                    if isinstance(v, ast.Tuple) and len(v.elts) >= 2 and isinstance(v.elts[1], ast.Constant):
                        rops.add(v.elts[1].value)
        ctx.floor("R-C05.6", "reflected operator names in binary_table", len(rops), 8)
        n = 0
        plain = []
        for c in idx.classes.values():
            if not c.module.name.startswith("guppylang.std"):
                continue
            if not any(any(k in ast.unparse(d) for k in ("extend_type", "custom_type", "guppy.struct", "guppy.type", "struct")) for d in c.node.decorator_list):
                continue  # Python-level helper classes (annotation sugar), not Guppy types
            for name, f in sorted(c.methods.items()):
                if name not in rops:
                    continue
                n += 1
                if not any("ReversingChecker" in ast.unparse(d) for d in f.node.decorator_list):
                    plain.append(f"{c.name}.{name}")
        ctx.floor("R-C05.6", "reflected operator methods on std types", n, 10)
        ctx.check(not plain, "R-C05.6", f"{sb.qualname}#reflected-fallback-keeps-source-order", f"{sb.module.rel}:{swapped_call.lineno}",
                  {"fallback_call": ast.unparse(swapped_call)[:90], "reflected_methods_examined": n,
                   "methods_that_keep_the_swapped_argument_list": plain[:30]},
                  "`x OP y` resolved through the right operand's reflected method becomes a call with y first in the argument list, so y's side "
                  "effects happen before x's -- unless the method is implemented with ReversingChecker, which restores the source order "
                  "(e.g. float * angle -> angle.__rmul__, int < float -> float.__gt__)")
    # ---- b. subscript on a non-place value
    vs = syn.methods.get("visit_Subscript")
    ec = idx.find_class("ExprCompiler", "guppylang_internals.compiler.expr_compiler")
    cv = ec.methods.get("visit_SubscriptAccessAndDrop")
    key = f"{syn.qualname}.visit_Subscript#value-before-index(SubscriptAccessAndDrop)"
    if vs is None or cv is None:
        ctx.undecided("R-C05.6", key, syn.where, "visit_Subscript / visit_SubscriptAccessAndDrop not found")
        return
    ctor = next((c for c in calls_in(vs.node) if call_name(c) == "SubscriptAccessAndDrop"), None)
    node_param = vs.node.args.args[1].arg
    # provenance of a local: which of node.value / node.slice does its defining expression mention (transitively)?
    defs: dict[str, list[ast.expr]] = {}
    for st in walk_no_nested(vs.node):
        if isinstance(st, ast.Assign):
            for t in st.targets:
                elts = t.elts if isinstance(t, (ast.Tuple, ast.List)) else [t]
                for nm in elts:
                    if isinstance(nm, ast.Name):  # plain local targets only (not `node.value = …`)
                        defs.setdefault(nm.id, []).append(st.value)

    def prov(e: ast.AST, depth: int = 0) -> set[str]:
        out = set()
        for x in ast.walk(e):
            if isinstance(x, ast.Attribute) and isinstance(x.value, ast.Name) and x.value.id == node_param and x.attr in ("value", "slice"):
                out.add(x.attr)
            elif isinstance(x, ast.Name) and depth < 3:
                for d in defs.get(x.id, ()):
                    out |= prov(d, depth + 1)
        return out

    if ctor is None:
        ctx.undecided("R-C05.6", key, vs.where, "SubscriptAccessAndDrop is not constructed here")
        return
    kw = {k.arg: k.value for k in ctor.keywords if k.arg}
    p_item, p_get = prov(kw.get("item_expr", ast.Constant(value=None))), prov(kw.get("getitem_expr", ast.Constant(value=None)))
    # compile order of the two parts
    order = sorted((c.lineno, c.col_offset, ast.unparse(c.args[0]).split(".")[-1]) for c in calls_in(cv.node)
                   if isinstance(c.func, ast.Attribute) and c.func.attr == "visit" and c.args and ast.unparse(c.args[0]).split(".")[-1] in ("item_expr", "getitem_expr"))
    first = order[0][2] if order else None
    inverted = first == "item_expr" and "slice" in p_item and "value" in p_get and "value" not in p_item
    ctx.check(not inverted, "R-C05.6", key, vs.where,
              {"item_expr_comes_from": sorted(p_item), "getitem_expr_comes_from": sorted(p_get), "compiled_first": first},
              "`mk()[idx()]` (subscript on a value that is not a place) evaluates the index before the subscripted value")
