"""R-C24.2 / R-C24.8 (semantic form)  the call check of the unitary checker, end to end.

The visitors of `BBUnitaryChecker` for global, local (indirect) and tensor calls are interpreted from their syntax trees --
all helpers followed, the NodeVisitor protocol supplied by the interpreter, UnitaryFlags arithmetic evaluated on the folded
enum -- on token trees of call nodes:

  acceptance  every context flag set F x callee flag set G (8 x 8) x argument lists of length 0..2 with qubit / classical
              arguments:  the call is rejected (GuppyTypeError) iff some argument holds a qubit and F is not a subset of G
  traversal   an acceptable call (callee has all flags) whose argument list -- at position 1 or 2, next to a qubit or a
              classical argument, before or after it -- or whose callee expression contains a nested call that is NOT
              acceptable: the nested call must be found and rejected; with an acceptable nested call nothing is raised.

So an argument that is skipped by short-circuiting (`any(generator)`, `a and b`), an unvisited callee expression of an
indirect call, or a missing flag test all show as a wrong verdict.
"""

from __future__ import annotations

import itertools

from ..absint.astmodel import N, VisitorEval
from ..absint.flagabs import FlagDomain, FlagV
from ..absint.minieval import Unsupported
from ..absint.pyeval import Raised, Tok
from ..report import Ctx

UC = "guppylang_internals.checker.unitary_checker"


def _ty(has_qubit: bool) -> Tok:
    return Tok("qubit_ty" if has_qubit else "int_ty", has_qubit=has_qubit)


def _fn_ty(flags: FlagV) -> Tok:
    return Tok(f"fn_ty[{flags.bits}]", __class__="FunctionType", unitary_flags=flags, has_qubit=False)


def _arg(has_qubit: bool) -> Tok:
    return N("PlaceNode", place=Tok("place", __class__="Variable"), __type__=_ty(has_qubit), _order=())


def _call(kind: str, flags: FlagV, args: list, func=None) -> Tok:
    fty = _fn_ty(flags)
    if kind == "GlobalCall":
        return N("GlobalCall", def_id=Tok("def_id", ty=fty), args=args, __type__=_ty(False), _order=("args",))
    if kind == "TensorCall":
        return N("TensorCall", func=func or N("Name", id="tensor_fn", __type__=fty), args=args, tensor_ty=fty, __type__=_ty(False), _order=("func", "args"))
    f = func or N("Name", id="local_fn", __type__=fty)
    if func is not None:
        f.attrs["__type__"] = fty
    return N("LocalCall", func=f, args=args, __type__=_ty(False), _order=("func", "args"))


def run(ctx: Ctx, dom: FlagDomain) -> bool:
    idx = ctx.idx
    checker = idx.find_class("BBUnitaryChecker", UC)
    key_acc = f"{checker.qualname}#call-acceptance-table"
    key_trav = f"{checker.qualname}#nested-calls-are-checked"
    engine = Tok("ENGINE", __methods__={"get_parsed": lambda r, a: Tok("callable_def", __class__="CallableDef", ty=a[0].attrs["ty"])}, __ident__=1)
    hooks = {
        "get_type": lambda node, e, env: e.ev(node.args[0], env).attrs["__type__"],
        "contain_qubit_ty": lambda node, e, env: e.ev(node.args[0], env).attrs["has_qubit"],
        "contains_subscript": lambda node, e, env: None,
    }

    def check(flags: FlagV, node: Tok):
        ev = VisitorEval(idx, UC, flags=dom)
        ev.__dict__["_modconst"] = {"ENGINE": engine}
        self_tok = Tok("checker", flags=flags, __classes__=checker.mro(), __visitor__=True, __ident__=1)
        try:
            ev.visit_node(self_tok, node, dict(hooks))
        except Raised as e:
            return e.cls or str(e)
        return None

    full = FlagV(dom.mask)
    none = FlagV(0)
    kinds = ("GlobalCall", "LocalCall", "TensorCall")
    bad_acc, bad_trav = [], []
    n_acc = n_trav = 0
    try:
        arg_lists = [(), (True,), (False,), (True, False), (False, True), (False, False)]
        for kind, F, G, qs in itertools.product(kinds, dom.all_values(), dom.all_values(), arg_lists):
            n_acc += 1
            got = check(F, _call(kind, G, [_arg(q) for q in qs]))
            want = any(qs) and (F.bits & G.bits != F.bits)
            if (got is not None) != want or (want and "Guppy" not in str(got)):
                bad_acc.append({"call": kind, "context_flags": F.bits, "callee_flags": G.bits, "args_hold_qubit": list(qs), "outcome": got or "accepted",
                                "should_be": "rejected" if want else "accepted"})
        ctx.check(not bad_acc, "R-C24.2", key_acc, checker.where, {"cases": n_acc, "flag_bits": dom.members, "counterexamples": bad_acc[:4], "n_counterexamples": len(bad_acc)},
                  "a qubit call is accepted although the callee lacks a flag the context requires (or rejected although it has them all, or although "
                  "no argument holds a qubit)")
        # ---- traversal: a nested unacceptable call must be found wherever it sits
        ctxs = [FlagV(b) for b in sorted({dom.members["Dagger"], dom.members["Control"], dom.mask})]
        for kind, F, inner_kind, where, other_q, inner_ok in itertools.product(kinds, ctxs, kinds, ("arg0", "arg1", "callee"), (False, True), (False, True)):
            if where == "callee" and kind == "GlobalCall":
                continue  # a global call names its callee by definition id: there is no callee expression
            n_trav += 1
            inner = _call(inner_kind, full if inner_ok else none, [_arg(True)])
            if where == "callee" and kind == "TensorCall":
                # the callee of a tensor call is a tuple expression whose elements may be calls
                tup = N("Tuple", elts=[inner, N("Name", id="g", __type__=_fn_ty(full))], __type__=_ty(False))
                outer = _call(kind, full, [_arg(other_q)], func=tup)
            elif where == "callee":
                outer = _call(kind, full, [_arg(other_q)], func=inner)
            else:
                args = [_arg(other_q), inner] if where == "arg1" else [inner, _arg(other_q)]
                outer = _call(kind, full, args)
            got = check(F, outer)
            want = not inner_ok
            if (got is not None) != want:
                bad_trav.append({"outer_call": kind, "context_flags": F.bits, "nested_call": inner_kind, "nested_call_sits_in": where, "other_argument_holds_qubit": other_q,
                                 "nested_call_acceptable": inner_ok, "outcome": got or "accepted", "should_be": "rejected" if want else "accepted"})
        ctx.check(not bad_trav, "R-C24.8", key_trav, checker.where, {"cases": n_trav, "counterexamples": bad_trav[:4], "n_counterexamples": len(bad_trav)},
                  "a non-unitary call nested in the arguments (or in the callee expression) of an acceptable call is never checked: the traversal is "
                  "short-circuited or skips that position")
    except Unsupported as e:
        ctx.undecided("R-C24.2", key_acc, checker.where, str(e))
        return False
    return True
