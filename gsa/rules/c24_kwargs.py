"""R-C24.7 (decorator part)  `@guppy(dagger=…, control=…, power=…, unitary=…)` -> flag set.

`guppylang.decorator._parse_kwargs` is interpreted on a real dict for every combination of the four
keywords being absent / True / False (3^4 = 81 dicts).  The flag enum's members are read from the
class body (gsa/absint/flagabs.py).  Decided: the returned flag set contains a keyword's flag(s)
exactly when the keyword was given a true value -- `control=False` must not set the flag -- and an
unknown keyword is rejected.
"""

from __future__ import annotations

import ast
import itertools

from ..absint.flagabs import FlagDomain, FlagV
from ..absint.minieval import Opaque, Unsupported
from ..absint.pyeval import PyEval, Raised
from ..report import Ctx


class _FlagPyEval(PyEval):
    """PyEval + the flag enum: `UnitaryFlags.X`, `UnitaryFlags["X"]`, |, &, ^, ~, `in`."""

    def __init__(self, idx, module, dom: FlagDomain):
        super().__init__(idx, module)
        self.dom = dom

    def attr(self, value, name, node, env):
        if isinstance(value, Opaque) and value.what == self.dom.name and name in self.dom.members:
            return FlagV(self.dom.members[name])
        return super().attr(value, name, node, env)

    def ev(self, e, env):
        if isinstance(e, ast.Subscript) and isinstance(e.value, ast.Name) and e.value.id == self.dom.name and e.value.id not in env:
            k = self.ev(e.slice, env)
            if isinstance(k, str) and k in self.dom.members:
                return FlagV(self.dom.members[k])
            raise Raised(f"KeyError {k!r}", "KeyError")
        return super().ev(e, env)

    def binop(self, op, a, b):
        if isinstance(a, FlagV) and isinstance(b, FlagV):
            if isinstance(op, ast.BitOr):
                return FlagV(a.bits | b.bits)
            if isinstance(op, ast.BitAnd):
                return FlagV(a.bits & b.bits)
            if isinstance(op, ast.BitXor):
                return FlagV(a.bits ^ b.bits)
        return super().binop(op, a, b)

    def truth(self, v):
        if isinstance(v, FlagV):
            return v.bits != 0
        return super().truth(v)

    def call(self, node, env):
        if isinstance(node.func, ast.Attribute) and node.func.attr in ("capitalize", "title") and not node.args:
            recv = self.ev(node.func.value, env)
            if isinstance(recv, str):
                return getattr(recv, node.func.attr)()
        if isinstance(node.func, ast.Attribute) and node.func.attr == "pop" and 1 <= len(node.args) <= 2:
            recv = self.ev(node.func.value, env)
            if isinstance(recv, dict):
                args = [self.ev(a, env) for a in node.args]
                if args[0] not in recv and len(args) == 1:
                    raise Raised(f"KeyError {args[0]!r}", "KeyError")
                return recv.pop(*args)
        if isinstance(node.func, ast.Attribute) and node.func.attr == "get" and 1 <= len(node.args) <= 2:
            recv = self.ev(node.func.value, env)
            if isinstance(recv, dict):
                args = [self.ev(a, env) for a in node.args]
                return recv.get(*args)
        fn = ast.unparse(node.func)
        if fn == "next" and len(node.args) == 2 and isinstance(node.args[0], ast.Call) and ast.unparse(node.args[0].func) == "iter":
            it = self.ev(node.args[0].args[0], env)
            if isinstance(it, (dict, list, tuple)):
                xs = list(it)
                return xs[0] if xs else self.ev(node.args[1], env)
        if fn == "bool" and len(node.args) == 1:
            return self.truth(self.ev(node.args[0], env))
        return super().call(node, env)


def run(ctx: Ctx, dom: FlagDomain) -> None:
    idx = ctx.idx
    pk = idx.find_func("_parse_kwargs", "guppylang.decorator")
    ctx.saw("functions", pk.qualname)
    key = f"{pk.qualname}#kwargs-to-flags"
    names = ["unitary", "control", "dagger", "power"]
    bitof = {"unitary": dom.mask, "control": dom.members["Control"], "dagger": dom.members["Dagger"], "power": dom.members["Power"]}
    bad = []
    n = 0
    for vals in itertools.product((None, True, False), repeat=4):
        given = {k: v for k, v in zip(names, vals) if v is not None}
        n += 1
        ev = _FlagPyEval(idx, pk.module.name, dom)
        try:
            out = ev.run(pk.node.body, {pk.node.args.args[0].arg: dict(given)})
        except Unsupported as e:
            ctx.undecided("R-C24.7", key, pk.where, str(e))
            return
        except Raised as e:
            bad.append({"kwargs": given, "got": f"raises {e}", "want": "a flag set"})
            continue
        want = 0
        for k, v in given.items():
            if v:
                want |= bitof[k]
        if out[0] != "return" or not isinstance(out[1], FlagV) or out[1].bits != want:
            bad.append({"kwargs": given, "got": repr(out[1]) if out[0] == "return" else f"{out[0]} {out[1]}", "want_bits": bin(want)})
    # an unknown keyword is rejected
    try:
        out = _FlagPyEval(idx, pk.module.name, dom).run(pk.node.body, {pk.node.args.args[0].arg: {"contrl": True}})
        if out[0] != "raise":
            bad.append({"kwargs": {"contrl": True}, "got": repr(out), "want": "TypeError (unknown keyword)"})
    except Raised:
        pass
    except Unsupported as e:
        ctx.note(f"R-C24.7 unknown-keyword case not evaluable: {e}")
    ctx.check(not bad, "R-C24.7", key, pk.where, {"cases": n + 1, "counterexamples": bad[:4], "n_counterexamples": len(bad)},
              "a @guppy(unitary/control/dagger/power=…) keyword is mapped to the wrong flag set (e.g. `control=False` sets the flag, or a true keyword is dropped)")
