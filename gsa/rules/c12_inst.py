"""R-C12.6 (semantic form)  an instantiation is valid iff every argument satisfies its parameter's bound -- by interpretation.

`check_inst` is interpreted from its syntax tree together with the real `TypeParam.check_arg` it falls back to (helpers
followed) on every instantiation of one or two type parameters:  parameter bound {none, copyable, droppable, both}  x
argument {a value (const) argument, a type that is copyable / droppable / both / neither}.

Decided: a Guppy type error is raised iff some position holds a const argument for a type parameter, or a type that lacks a
capability its parameter demands (must_be_copyable and not copyable, must_be_droppable and not droppable); later positions
are checked as well as the first.  This is also the copy/drop sibling check for the two places where the bounds are tested
(the fast path in `check_inst` and `TypeParam.check_arg`): a slip in either side shows as a wrong verdict for one of the four
capability classes.
"""

from __future__ import annotations

import itertools

from ..absint.minieval import Unsupported
from ..absint.pyeval import PyEval, Raised, Tok
from ..report import Ctx

MOD = "guppylang_internals.checker.expr_checker"
PARAM = "guppylang_internals.tys.param"


def run(ctx: Ctx) -> bool:
    idx = ctx.idx
    f = idx.find_func("check_inst", MOD)
    tp = idx.find_class("TypeParam", PARAM)
    tb = idx.find_class("TypeBase", "guppylang_internals.tys.ty")  # derived capabilities (`linear`, `affine`) are read off the repository's own properties
    key = f"{f.qualname}#rejects-exactly-the-invalid-instantiations"
    ps = [a.arg for a in f.node.args.args]
    bounds = [(c, d) for c in (False, True) for d in (False, True)]
    args = [("const", None, None)] + [("type", c, d) for c in (False, True) for d in (False, True)]
    slots = list(itertools.product(bounds, args))
    cases = [(s,) for s in slots] + [(a, b) for a in slots for b in slots]
    if ctx.tier == "quick":
        cases = [(s,) for s in slots] + [(a, b) for a in slots[::3] for b in slots] + [(a, b) for a in slots for b in slots[1::4]]
    bad = []
    n = 0
    try:
        for case in cases:
            n += 1
            params, inst = [], []
            for i, ((mc, md), (kind, cp, dr)) in enumerate(case):
                p = Tok(f"T{i}", __class__="TypeParam", __classes__=tp.mro(), must_be_copyable=mc, must_be_droppable=md, name=f"T{i}", idx=i, __ident__=1)
                p.attrs["__methods__"] = {"instantiate_bounds": lambda recv, a: recv}
                params.append(p)
                if kind == "const":
                    inst.append(Tok(f"const_arg{i}", __class__="ConstArg", const=Tok("const", ty=Tok("nat")), __match_args__=("const",), __ident__=1))
                else:
                    inst.append(Tok(f"type_arg{i}", __class__="TypeArg", ty=Tok(f"ty{i}", copyable=cp, droppable=dr, __classes__=tb.mro(), __ident__=1), __match_args__=("ty",), __ident__=1))
            fty = Tok("func_ty", __class__="FunctionType", params=params, __ident__=1)
            ev = PyEval(idx, MOD, max_depth=6)
            try:
                out = ev.run(f.node.body, {ps[0]: fty, ps[1]: inst, ps[2]: Tok("node")})
                raised = str(out[1]) if out[0] == "raise" else None
            except Raised as e:
                raised = e.cls or str(e)
            want = any(kind == "const" or (mc and not cp) or (md and not dr) for (mc, md), (kind, cp, dr) in case)
            if (raised is not None) != want or (want and "Guppy" not in str(raised)):
                bad.append({"parameters(must_be_copyable, must_be_droppable)": [list(b) for b, _ in case],
                            "arguments": ["const" if k == "const" else {"copyable": c, "droppable": d} for _, (k, c, d) in case],
                            "outcome": raised or "accepted", "should_be": "rejected" if want else "accepted"})
    except Unsupported as e:
        ctx.undecided("R-C12.6", key, f.where, str(e))
        return False
    ctx.check(not bad, "R-C12.6", key, f.where, {"cases": n, "counterexamples": bad[:4], "n_counterexamples": len(bad)},
              "validation of an instantiation stops before (or skips) some parameter, or tests a bound with the wrong capability: a call whose "
              "type argument violates its parameter's bound (e.g. a qubit for a copyable T) is accepted although no valid instantiation exists")
    return True
