"""R-C08.2 / R-C08.3 (semantic form)  `check_bb` rejects exactly the reads of variables that are not defined -- by interpretation.

`check_bb` is interpreted as a whole from its syntax tree (helpers followed) with recorder tokens for the statement checker,
the context, the signature and the checked block, for one variable `x` and every combination of the membership facts it tests:

  entry block   x is read in the entry block;  x in ass_before[entry] / in assigned_somewhere (a local) / a global / a generic parameter
                -> "not defined" iff  not assigned-before and (local or (not global and not generic))
  edges         x is live before a successor (a real one, and separately a never-taken "dummy" one);  x a local / in the
                block's scope after its statements / a global / a generic parameter / maybe-assigned at the use
                -> "not defined" iff  (local and not in scope) or (not local and not global and not generic);
                   and never for a variable that is not live before any successor

So a missing successor kind, a predicate with a dropped or inverted atom, or a guard clause that leaves the loop early shows as a
wrong verdict for some row of the table.
"""

from __future__ import annotations

import itertools

from ..absint.minieval import Unsupported
from ..absint.pyeval import PyEval, Raised, Tok
from ..report import Ctx

CC = "guppylang_internals.checker.cfg_checker"


def run(ctx: Ctx) -> bool:
    idx = ctx.idx
    cb = idx.find_func("check_bb", CC)
    ps = [a.arg for a in cb.node.args.args]
    if len(ps) < 6:
        ctx.undecided("R-C08.2", f"{cb.qualname}#entry-block-predicate", cb.where, "check_bb signature changed")
        return False

    def world(entry: bool, used_in_bb: bool, succ_kind: str | None, live: bool, ass: bool, local: bool, scope: bool, glob: bool, gen: bool, maybe: bool):
        x = "x"
        use_node = Tok("use_of_x", __ident__=1)
        bb = Tok("bb", idx=0, reachable=True, statements=[], branch_pred=None, predecessors=[], __ident__=1)
        entry_bb = bb if entry else Tok("entry_bb", __ident__=1)
        use_bb = Tok("use_bb", vars=Tok("vars", used={x: use_node}), __ident__=1)
        succ = Tok("succ", __ident__=1)
        bb.attrs["successors"] = [succ] if succ_kind == "real" else []
        bb.attrs["dummy_successors"] = [succ] if succ_kind == "dummy" else []
        bb.attrs["vars"] = Tok("vars", used={x: use_node} if used_in_bb else {})
        cfg = Tok("cfg", entry_bb=entry_bb, __ident__=1,
                  ass_before={bb: {x} if ass else set()}, maybe_ass_before={use_bb: {x} if maybe else set(), bb: set()},
                  assigned_somewhere={x} if local else {"other"}, live_before={succ: ({x: use_bb} if live else {})})
        bb.attrs["containing_cfg"] = cfg
        var_x = Tok("var_x", name=x, ty=Tok("ty"), __ident__=1)
        inputs = [var_x] if scope else []
        globals_ = {x: Tok("global_def")} if glob else {}
        generic = {x: Tok("param")} if gen else {}
        return bb, cfg, inputs, globals_, generic

    hooks = {
        "Locals": lambda node, e, env: e.ev(node.args[0], env),
        "Context": lambda node, e, env: Tok("context", globals=e.ev(node.args[0], env), locals=e.ev(node.args[1], env), generic_params=e.ev(node.args[2], env)),
        "StmtChecker": lambda node, e, env: Tok("stmt_checker", __methods__={"check_stmts": lambda r, a: []}),
        "ExprSynthesizer": lambda node, e, env: Tok("synth", __methods__={"synthesize": lambda r, a: (a[0], Tok("bool_ty"))}),
        "to_bool": lambda node, e, env: (e.ev(node.args[0], env), Tok("bool_ty")),
        "diagnose_maybe_undefined": lambda node, e, env: None,
        "Signature": lambda node, e, env: Tok("signature"),
        "CheckedBB": lambda node, e, env: Tok("checked_bb", successors=[], dummy_successors=[]),
    }

    def outcome(w):
        bb, cfg, inputs, globals_, generic = w
        env = {ps[0]: bb, ps[1]: Tok("checked_cfg"), ps[2]: inputs, ps[3]: Tok("return_ty"), ps[4]: generic, ps[5]: globals_, **hooks}
        ev = PyEval(idx, CC, max_depth=8)
        ev.lenient = True  # diagnostics are constructed on the way to a raise
        try:
            out = ev.run(cb.node.body, env)
            return str(out[1]) if out[0] == "raise" else None
        except Raised as e:
            return e.cls or str(e)

    decided = True
    # ---------------------------------------------------------------- entry block
    key = f"{cb.qualname}#entry-block-predicate"
    bad = []
    try:
        for ass, local, glob, gen in itertools.product((False, True), repeat=4):
            got = outcome(world(True, True, None, False, ass, local, True, glob, gen, False))
            want = (not ass) and (local or (not glob and not gen))
            if (got is not None) != want or (want and "GuppyError" not in str(got)):
                bad.append({"assigned_before": ass, "local": local, "global": glob, "generic_param": gen, "outcome": got or "accepted", "should_be": "not defined" if want else "accepted"})
        ctx.check(not bad, "R-C08.2", key, cb.where, {"rows": 16, "counterexamples": bad[:4]},
                  "in the first block of a function a read of a not-yet-assigned local is accepted (resolved to a global) or a defined one rejected")
    except Unsupported as e:
        ctx.undecided("R-C08.2", key, cb.where, str(e))
        decided = False
    # ---------------------------------------------------------------- edges (real and dummy)
    key = f"{cb.qualname}#edge-predicate"
    bad = []
    try:
        n = 0
        for kind, live, local, scope, glob, gen, maybe in itertools.product(("real", "dummy"), (True, False), *[(False, True)] * 5):
            if not live and (maybe or scope):
                continue
            n += 1
            got = outcome(world(False, False, kind, live, False, local, scope, glob, gen, maybe))
            want = live and ((local and not scope) or ((not local) and not glob and not gen))
            if (got is not None) != want or (want and "GuppyError" not in str(got)):
                bad.append({"successor": kind, "live_before_successor": live, "local": local, "in_scope": scope, "global": glob, "generic_param": gen, "maybe_assigned": maybe,
                            "outcome": got or "accepted", "should_be": "not defined" if want else "accepted"})
        ctx.check(not bad, "R-C08.2", key, cb.where, {"rows": n, "counterexamples": bad[:4]},
                  "a variable that a successor needs and that is not assigned on this path is accepted, or an assigned one rejected "
                  "(for a real or a never-taken successor edge)")
    except Unsupported as e:
        ctx.undecided("R-C08.2", key, cb.where, str(e))
        decided = False
    return decided
