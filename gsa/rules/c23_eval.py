"""R-C23.1 (semantic part): mock_builtins restores the user's globals exactly.

The generator is split at its single `yield` (structure: statements, then a `try` whose body
contains the yield, then the `finally` block) and the straight-line pieces are interpreted on
every initial namespace over the mocked names: each of float/int/len absent or bound by the
user, plus one unrelated binding (2^3 namespaces), for the normal and the exceptional exit.
Decided:  at the yield every mocked name is bound to something else than the user's value;
after the exit the namespace equals the initial one (same keys, same values).
"""

from __future__ import annotations

import ast
import itertools

from ..absint.minieval import Unsupported
from ..absint.pyeval import PyEval, Raised, Tok
from ..index import walk_no_nested
from ..report import Ctx


def run(ctx: Ctx, mb) -> bool:
    """Returns False when the function is not in the evaluable shape (caller falls back to its shape rules)."""
    fn = mb.node
    body = [s for s in fn.body if not (isinstance(s, ast.Expr) and isinstance(s.value, ast.Constant))]
    tries = [s for s in body if isinstance(s, ast.Try)]
    key = f"{mb.qualname}#namespace-restored-exactly"
    if len(tries) != 1 or tries[0].handlers or tries[0].orelse:
        return False
    t = tries[0]
    yi = next((i for i, s in enumerate(t.body) if isinstance(s, ast.Expr) and isinstance(s.value, ast.Yield)), None)
    if yi is None:
        return False
    pre = body[: body.index(t)] + t.body[:yi]
    post_normal = t.body[yi + 1:] + t.finalbody + body[body.index(t) + 1:]
    post_exc = t.finalbody
    fparam = fn.args.args[0].arg
    names = ["float", "int", "len"]
    bad = []
    n = 0
    for present in itertools.product((False, True), repeat=3):
        init = {"other": "user_other"}
        for nm, p in zip(names, present):
            if p:
                init[nm] = f"user_{nm}"
        for exit_kind, post in (("normal", post_normal), ("exception", post_exc)):
            n += 1
            g = dict(init)
            f = Tok("f", __globals__=g, __ident__=1)
            ev = PyEval(ctx.idx, mb.module.name)
            env = {fparam: f}
            try:
                r = ev.run(pre, env)
                if r[0] != "fall":
                    raise Unsupported(f"pre-yield part ends with {r[0]}")
                at_yield = dict(g)
                r = ev.run(post, env)
                if r[0] == "raise":
                    raise Raised(str(r[1]), str(r[1]))
            except Unsupported as e:
                ctx.undecided("R-C23.1", key, mb.where, str(e))
                return True
            except Raised as e:
                bad.append({"user_bindings": sorted(k for k in init if k != "other"), "exit": exit_kind, "problem": f"restore raises {e}"})
                continue
            not_mocked = [nm for nm in names if nm not in at_yield or at_yield[nm] == init.get(nm, object())]
            if not_mocked:
                bad.append({"user_bindings": sorted(k for k in init if k != "other"), "exit": exit_kind, "not_mocked_during_tracing": not_mocked})
            if g != init:
                bad.append({"user_bindings": sorted(k for k in init if k != "other"), "exit": exit_kind,
                            "left_behind": sorted(k for k in g if k not in init), "lost": sorted(k for k in init if k not in g),
                            "changed": sorted(k for k in init if k in g and g[k] != init[k])})
    ctx.check(not bad, "R-C23.1", key, mb.where, {"namespaces_x_exits": n, "counterexamples": bad[:4]},
              "after comptime tracing the user's module namespace differs from before: a mock stays installed, a user binding of "
              "int/float/len is lost or replaced, or the restore itself fails")
    return True
