"""R-C23.1 (semantic part): mock_builtins restores the user's globals exactly.

The generator is split at its single `yield` (structure: statements, then a `try` whose body
contains the yield, then the `finally` block) and the straight-line pieces are interpreted on
every initial namespace over the mocked names: each of float/int/len absent or bound by the
user, plus one unrelated binding (2^3 namespaces), for the normal and the exceptional exit.
Decided:  at the yield every mocked name is bound to something else than the user's value;
after the exit the namespace equals the initial one (same keys, same values).
"""

from __future__ import annotations

import ast
import itertools

from ..absint.minieval import Unsupported
from ..absint.pyeval import PyEval, Raised, Tok
from ..index import walk_no_nested
from ..report import Ctx


def _module_state(ctx: Ctx, mb) -> dict:
    """Fresh objects for the module-level containers of the mock module (literal dict/list/set displays and empty
    constructors), so that state kept at module level is shared between the traces of one scenario."""
    out = {}
    for st in mb.module.tree.body:
        tgt = st.targets[0] if isinstance(st, ast.Assign) and len(st.targets) == 1 else (st.target if isinstance(st, ast.AnnAssign) else None)
        val = getattr(st, "value", None)
        if not isinstance(tgt, ast.Name) or val is None:
            continue
        if isinstance(val, (ast.Dict, ast.List, ast.Set)) or ast.unparse(val) in ("dict()", "list()", "set()"):
            try:
                v = PyEval(ctx.idx, mb.module.name).ev(val, {}) if isinstance(val, (ast.Dict, ast.List, ast.Set)) else {"dict()": {}, "list()": [], "set()": set()}[ast.unparse(val)]
            except (Unsupported, Raised):
                continue
            out[tgt.id] = v
    return out


def _unwrap(node, e, en):
    """inspect.unwrap: follow the `__wrapped__` chain (functools.wraps)."""
    v = e.ev(node.args[0], en)
    while isinstance(v, Tok) and "__wrapped__" in v.attrs:
        v = v.attrs["__wrapped__"]
    return v


def run(ctx: Ctx, mb) -> bool:
    """Returns False when the function is not in the evaluable shape (caller falls back to its shape rules)."""
    fn = mb.node
    body = [s for s in fn.body if not (isinstance(s, ast.Expr) and isinstance(s.value, ast.Constant))]
    tries = [s for s in body if isinstance(s, ast.Try)]
    key = f"{mb.qualname}#namespace-restored-exactly"
    if len(tries) != 1 or tries[0].handlers or tries[0].orelse:
        return False
    t = tries[0]
    yi = next((i for i, s in enumerate(t.body) if isinstance(s, ast.Expr) and isinstance(s.value, ast.Yield)), None)
    if yi is None:
        return False
    pre = body[: body.index(t)] + t.body[:yi]
    post_normal = t.body[yi + 1:] + t.finalbody + body[body.index(t) + 1:]
    post_exc = t.finalbody
    fparam = fn.args.args[0].arg
    names = ["float", "int", "len"]
    bad = []
    n = 0
    for present in itertools.product((False, True), repeat=3):
        init = {"other": "user_other"}
        for nm, p in zip(names, present):
            if p:
                init[nm] = f"user_{nm}"
        for exit_kind, post in (("normal", post_normal), ("exception", post_exc)):
            n += 1
            g = dict(init)
            f = Tok("f", __globals__=g, __ident__=1)
            ev = PyEval(ctx.idx, mb.module.name)
            mstate = _module_state(ctx, mb)
            ev.__dict__["_modconst"] = mstate  # helpers called from mock_builtins see the same module-level objects
            env = {fparam: f, **mstate, "id": lambda node, e, en: id(e.ev(node.args[0], en)), "inspect.unwrap": _unwrap, "unwrap": _unwrap}
            try:
                r = ev.run(pre, env)
                if r[0] != "fall":
                    raise Unsupported(f"pre-yield part ends with {r[0]}")
                at_yield = dict(g)
                r = ev.run(post, env)
                if r[0] == "raise":
                    raise Raised(str(r[1]), str(r[1]))
            except Unsupported as e:
                ctx.undecided("R-C23.1", key, mb.where, str(e))
                return True
            except Raised as e:
                bad.append({"user_bindings": sorted(k for k in init if k != "other"), "exit": exit_kind, "problem": f"restore raises {e}"})
                continue
            not_mocked = [nm for nm in names if nm not in at_yield or at_yield[nm] == init.get(nm, object())]
            if not_mocked:
                bad.append({"user_bindings": sorted(k for k in init if k != "other"), "exit": exit_kind, "not_mocked_during_tracing": not_mocked})
            if g != init:
                bad.append({"user_bindings": sorted(k for k in init if k != "other"), "exit": exit_kind,
                            "left_behind": sorted(k for k in g if k not in init), "lost": sorted(k for k in init if k not in g),
                            "changed": sorted(k for k in init if k in g and g[k] != init[k])})
    # two traces in a row on the SAME module namespace, the user's bindings changing in between: module-level state of the
    # mock module (memo tables) is shared between the two runs, `id(x)` is a stable key per object
    # decorated comptime function: `f` is a functools.wraps wrapper living in another module than the function it wraps; whatever
    # namespace the mocks are put into, BOTH namespaces must be exactly what they were once tracing is over
    for wb, ib in itertools.product(({}, {"int": "user_int_w"}), ({}, {"int": "user_int_i"}, {"len": "user_len_i"})):
        for exit_kind, post in (("normal", post_normal), ("exception", post_exc)):
            n += 1
            gw, gi = {"other": "w_other", **wb}, {"other": "i_other", **ib}
            want_w, want_i = dict(gw), dict(gi)
            inner = Tok("inner", __globals__=gi, __ident__=3)
            f = Tok("f", __globals__=gw, __wrapped__=inner, __ident__=2)
            ev = PyEval(ctx.idx, mb.module.name)
            mstate = _module_state(ctx, mb)
            ev.__dict__["_modconst"] = mstate
            env = {fparam: f, **mstate, "id": lambda node, e, en: id(e.ev(node.args[0], en)), "inspect.unwrap": _unwrap, "unwrap": _unwrap}
            try:
                r = ev.run(pre, env)
                r = ev.run(post, env)
                if r[0] == "raise":
                    raise Raised(str(r[1]), str(r[1]))
            except Unsupported as e:
                ctx.undecided("R-C23.1", key, mb.where, f"decorated-function scenario: {e}")
                return True
            except Raised as e:
                bad.append({"scenario": "functools.wraps wrapper from another module", "exit": exit_kind, "problem": f"raises {e}"})
                continue
            for label, g, want in (("wrapper module", gw, want_w), ("wrapped function's module", gi, want_i)):
                if g != want:
                    bad.append({"scenario": "functools.wraps wrapper from another module", "namespace": label, "exit": exit_kind,
                                "user_bindings": {"wrapper": sorted(wb), "wrapped": sorted(ib)},
                                "left_behind": sorted(k for k in g if k not in want), "lost": sorted(k for k in want if k not in g),
                                "changed": sorted(k for k in want if k in g and g[k] != want[k])})
    shared_names = sorted(_module_state(ctx, mb))
    seqs = [({}, {"len": "user_len"}), ({"len": "user_len"}, {}), ({"int": "user_int"}, {"int": "user_int2", "len": "user_len"})]
    for first, second in seqs:
        shared = _module_state(ctx, mb)
        g = {"other": "user_other", **first}
        f = Tok("f", __globals__=g, __ident__=1)
        for step, binds in enumerate((first, second)):
            n += 1
            if step == 1:
                for nm in names:
                    g.pop(nm, None)
                g.update(binds)
            want = dict(g)
            ev = PyEval(ctx.idx, mb.module.name)
            ev.__dict__["_modconst"] = shared
            env = {fparam: f, **shared, "id": lambda node, e, en: id(e.ev(node.args[0], en)), "inspect.unwrap": _unwrap, "unwrap": _unwrap}
            try:
                r = ev.run(pre, env)
                r = ev.run(post_normal, env)
            except Unsupported as e:
                ctx.undecided("R-C23.1", key, mb.where, f"second-trace scenario: {e}")
                return True
            except Raised as e:
                bad.append({"sequence": [sorted(first), sorted(second)], "trace": step + 1, "problem": f"raises {e}"})
                break
            if g != want:
                bad.append({"sequence_of_user_bindings": [sorted(first), sorted(second)], "trace": step + 1, "module_level_state": shared_names,
                            "left_behind": sorted(k for k in g if k not in want), "lost": sorted(k for k in want if k not in g),
                            "changed": sorted(k for k in want if k in g and g[k] != want[k])})
                break
    ctx.check(not bad, "R-C23.1", key, mb.where, {"namespaces_x_exits": n, "counterexamples": bad[:4]},
              "after comptime tracing the user's module namespace differs from before: a mock stays installed, a user binding of "
              "int/float/len is lost or replaced, or the restore itself fails")
    return True
