"""R-C11.3 (semantic form)  the in-place patch of a checked CFG happens at most once per CFG.

The function of the CFG compiler that rewrites `cfg.exit_bb.sig` in place (found by that behaviour, not by name) is the
"patch".  For every call site of it, the statements of the calling function up to and including the one holding the call
are interpreted twice:

  fresh    the exit block's input row holds ordinary variables only          -> the patch must run exactly once
  patched  the exit block's input row already starts with a `%ret…` variable -> the patch must not run

so however the guard is spelt (`all(not …)`, `not any(…)`, a local flag, a helper), compiling the same checked function a
second time leaves its CFG as it is.
"""

from __future__ import annotations

import ast

from ..absint.minieval import Unsupported
from ..absint.pyeval import PyEval, Raised, Tok
from ..index import call_name, calls_in, walk_no_nested
from ..report import Ctx

CC = "guppylang_internals.compiler.cfg_compiler"


def _patchers(idx) -> list:
    out = []
    for f in idx.iter_funcs((CC,)):
        for n in walk_no_nested(f.node):
            tgts = n.targets if isinstance(n, ast.Assign) else ([n.target] if isinstance(n, (ast.AnnAssign, ast.AugAssign)) else [])
            if any(isinstance(t, ast.Attribute) and t.attr == "sig" and ast.unparse(t.value).endswith("exit_bb") for t in tgts):
                out.append(f)
                break
    return out


def run(ctx: Ctx) -> bool | None:
    """True: decided for every call site.  False: some site undecided (caller falls back).  None: no patch function found."""
    idx = ctx.idx
    patchers = _patchers(idx)
    if not patchers:
        return None
    names = {p.node.name for p in patchers}
    decided = True
    n_sites = 0
    for f in idx.iter_funcs(("guppylang_internals.compiler",)):
        if f in patchers:
            continue
        sites = [c for c in calls_in(f.node) if call_name(c) in names]
        for site in sites:
            n_sites += 1
            key = f"{f.qualname}#return-vars-inserted-once"
            where = f"{f.module.rel}:{site.lineno}"
            # top-level statement holding the call
            top = next((i for i, st in enumerate(f.node.body) if any(x is site for x in ast.walk(st))), None)
            if top is None:
                ctx.undecided("R-C11.3", key, where, "call site not in a top-level statement")
                decided = False
                continue
            prefix = f.node.body[: top + 1]
            params = [a.arg for a in f.node.args.posonlyargs + f.node.args.args]
            counts = {}
            und = None
            for scenario in ("fresh", "patched"):
                calls: list = []

                def hook(node, e, env, calls=calls):
                    calls.append(node.lineno)
                    return None

                var = lambda nm: Tok(f"var:{nm}", __class__="Variable", name=nm, ty=Tok("ty"), __ident__=1)  # noqa: E731
                field = Tok("field", __class__="FieldAccess", parent=var("s"), ty=Tok("ty"), __ident__=1)
                row = [var("x"), field, var("y")] if scenario == "fresh" else [var("%ret0"), var("x"), field]
                sig = Tok("sig", input_row=row, output_rows=[], __ident__=1)
                exit_bb = Tok("exit_bb", sig=sig, __ident__=1)
                cfg = Tok("cfg", exit_bb=exit_bb, __ident__=1)
                env: dict = {p: Tok(p, __ident__=1) for p in params}
                cfg_param = next((p for p in params if p == "cfg"), None)
                if cfg_param is None:
                    # the CFG may hang off a parameter (`func.cfg`): give every parameter a `.cfg`
                    for p in params:
                        env[p].attrs["cfg"] = cfg
                else:
                    env[cfg_param] = cfg
                for nm in names:
                    env[nm] = hook
                ev = PyEval(idx, f.module.name, max_depth=6)
                try:
                    ev.run(prefix, env)
                except Unsupported as e:
                    und = f"{scenario}: {e}"
                    break
                except Raised as e:
                    und = f"{scenario}: raises {e}"
                    break
                counts[scenario] = len(calls)
            if und:
                ctx.undecided("R-C11.3", key, where, und)
                decided = False
                continue
            ctx.check(counts == {"fresh": 1, "patched": 0}, "R-C11.3", key, where, {"patch_function": sorted(names), "times_patched": counts},
                      "lowering the same checked function twice inserts the dummy return variables twice (or a fresh CFG is not patched at all)")
    ctx.floor("R-C11.3", "call sites of the in-place CFG patch", n_sites, 1)
    return decided
