"""R-C13.4  FunctionType.instantiate_partial, by abstract interpretation.

The method is interpreted from its syntax tree for every argument list of length 0..3 over
{not instantiated (None), plain type argument, tuple type argument, None-type argument, const
argument}.  Parameters, arguments and the pieces of the function type are symbolic tokens whose
methods (`with_idx`, `instantiate_bounds`, `to_bound`, `transform`) record what they were called
with; the `FunctionType`, `Instantiator`, `TypeArg`, `TupleType`, `NoneType` constructors and
`dataclasses.replace` are recorders.  Decided, for every case:

  a. the remaining parameters are exactly the un-instantiated ones, in order, re-indexed 0,1,2,…;
  b. the instantiation list has one entry per old parameter: the given argument (tuple / None
     arguments rebuilt with `preserve=True`, same element types) or, for a parameter that stays,
     the bound variable of the *re-indexed* parameter (its new index, not the old one);
  c. the bounds of a remaining parameter are instantiated with the entries before it;
  d. every input type, the output type and every comptime argument are transformed with that
     instantiation; the unitary flags are carried over.
"""

from __future__ import annotations

import ast
import itertools

from ..absint.minieval import Unsupported
from ..absint.pyeval import PyEval, Raised, Tok
from ..report import Ctx

KINDS = (None, "ty", "tuple", "none", "const")


def run(ctx: Ctx) -> None:
    idx = ctx.idx
    ip = idx.method("FunctionType", "instantiate_partial", "guppylang_internals.tys.ty")
    ctx.saw("functions", ip.qualname)
    key = f"{ip.qualname}#all-small-argument-lists"
    ps = [a.arg for a in ip.node.args.args]
    bad: list = []
    n_cases = 0
    for n in range(0, 4):
        for mask in itertools.product(KINDS, repeat=n):
            n_cases += 1
            log: dict = {}

            def mk_param(i: int, new_idx: int | None = None, bounds=None) -> Tok:
                def with_idx(recv, a):
                    return mk_param(recv.attrs["orig"], a[0], recv.attrs["bounds"])

                def instantiate_bounds(recv, a):
                    return mk_param(recv.attrs["orig"], recv.attrs["idx"], list(a[0]))

                def to_bound(recv, a):
                    return Tok(f"boundarg{recv.attrs['orig']}", __class__="TypeArg", of=recv.attrs["orig"], var_idx=recv.attrs["idx"],
                               ty=Tok("boundvar", __class__="BoundTypeVar", idx=recv.attrs["idx"]), __ident__=1)

                return Tok(f"param{i}", orig=i, idx=i if new_idx is None else new_idx, bounds=bounds, __ident__=1,
                           __methods__={"with_idx": with_idx, "instantiate_bounds": instantiate_bounds, "to_bound": to_bound})

            def mk_arg(i: int, kind: str):
                if kind == "const":
                    return Tok(f"constarg{i}", __class__="ConstArg", const=Tok("c"), __ident__=1)
                if kind == "tuple":
                    return Tok(f"tuplearg{i}", __class__="TypeArg", ty=Tok("tuplety", __class__="TupleType", element_types=[f"elem{i}"], preserve=False), __ident__=1)
                if kind == "none":
                    return Tok(f"nonearg{i}", __class__="TypeArg", ty=Tok("nonety", __class__="NoneType", preserve=False), __ident__=1)
                return Tok(f"tyarg{i}", __class__="TypeArg", ty=Tok("plainty", __class__="OpaqueType"), __ident__=1)

            def transformable(name: str) -> Tok:
                return Tok(name, __ident__=1, __methods__={"transform": lambda recv, a: ("transformed", recv.name, a[0])})

            params = [mk_param(i) for i in range(n)]
            args = [None if k is None else mk_arg(i, k) for i, k in enumerate(mask)]
            self_tok = Tok("self", params=params, inputs=[Tok("inp0", ty=transformable("inty0"), __ident__=1)], output=transformable("outty"),
                           comptime_args=[transformable("cta0")], unitary_flags="FLAGS", __ident__=1,
                           __classes__=(ip.cls.mro() if ip.cls is not None else []))  # helper methods of the class (static ones included) are followed

            def kw(node, ev, env):
                return [ev.ev(a, env) for a in node.args], {k.arg: ev.ev(k.value, env) for k in node.keywords if k.arg}

            def h_functiontype(node, ev, env):
                a, k = kw(node, ev, env)
                names = ["inputs", "output", "params", "input_names", "comptime_args", "unitary_flags"]
                log["result"] = {**dict(zip(names, a)), **k}
                return Tok("result", __ident__=1)

            def h_instantiator(node, ev, env):
                a, _ = kw(node, ev, env)
                log["inst"] = list(a[0])
                return Tok("INST", __ident__=1)

            def h_typearg(node, ev, env):
                a, _ = kw(node, ev, env)
                return Tok("rebuilt_typearg", __class__="TypeArg", ty=a[0])

            def h_tuplety(node, ev, env):
                a, k = kw(node, ev, env)
                return Tok("rebuilt_tuple", __class__="TupleType", element_types=a[0], preserve=k.get("preserve", a[1] if len(a) > 1 else False))

            def h_nonety(node, ev, env):
                a, k = kw(node, ev, env)
                return Tok("rebuilt_none", __class__="NoneType", preserve=k.get("preserve", a[0] if a else False))

            def h_replace(node, ev, env):
                a, k = kw(node, ev, env)
                return ("replaced", a[0].name, k)

            env = {ps[0]: self_tok, ps[1]: args, "FunctionType": h_functiontype, "Instantiator": h_instantiator, "TypeArg": h_typearg,
                   "TupleType": h_tuplety, "NoneType": h_nonety, "replace": h_replace}
            ev = PyEval(idx, ip.module.name, max_depth=8)
            try:
                out = ev.run(ip.node.body, env)
            except Unsupported as e:
                ctx.undecided("R-C13.4", key, ip.where, f"{e} (mask {mask})")
                return
            except Raised as e:
                bad.append({"arguments": list(mask), "problem": f"raises {e}"})
                continue
            res, inst = log.get("result"), log.get("inst")
            if out[0] != "return" or res is None or inst is None:
                bad.append({"arguments": list(mask), "problem": "no FunctionType built from an Instantiator"})
                continue
            probs = []
            stay = [i for i, k in enumerate(mask) if k is None]
            rp = res.get("params")
            # a. remaining parameters
            if not (isinstance(rp, list) and [p.attrs["orig"] for p in rp] == stay and [p.attrs["idx"] for p in rp] == list(range(len(stay)))):
                probs.append({"clause": "a", "remaining": [(p.attrs["orig"], p.attrs["idx"]) for p in rp] if isinstance(rp, list) else repr(rp), "want": [(o, k) for k, o in enumerate(stay)]})
            # b. instantiation list
            if len(inst) != n:
                probs.append({"clause": "b", "instantiation_length": len(inst), "params": n})
            else:
                for j, k in enumerate(mask):
                    e = inst[j]
                    if k is None:
                        if not (isinstance(e, Tok) and e.attrs.get("of") == j and e.attrs.get("var_idx") == stay.index(j)):
                            probs.append({"clause": "b", "position": j, "entry": repr(e), "bound_index": e.attrs.get("var_idx") if isinstance(e, Tok) else None, "want_index": stay.index(j)})
                    elif k == "tuple":
                        if not (isinstance(e, Tok) and e.attrs.get("__class__") == "TypeArg" and e.attrs["ty"].attrs.get("__class__") == "TupleType"
                                and e.attrs["ty"].attrs.get("preserve") is True and e.attrs["ty"].attrs.get("element_types") == [f"elem{j}"]):
                            probs.append({"clause": "b", "position": j, "tuple_argument_not_preserved": repr(e)})
                    elif k == "none":
                        if not (isinstance(e, Tok) and e.attrs.get("__class__") == "TypeArg" and e.attrs["ty"].attrs.get("__class__") == "NoneType" and e.attrs["ty"].attrs.get("preserve") is True):
                            probs.append({"clause": "b", "position": j, "none_argument_not_preserved": repr(e)})
                    elif e is not args[j] and e != args[j]:
                        probs.append({"clause": "b", "position": j, "entry": repr(e), "want": repr(args[j])})
            # c. bounds instantiated with the prefix
            if isinstance(rp, list):
                for p in rp:
                    b = p.attrs.get("bounds")
                    if not (isinstance(b, list) and len(b) == p.attrs["orig"]):
                        probs.append({"clause": "c", "param": p.attrs["orig"], "bounds_instantiated_with": None if b is None else len(b)})
            # d. everything transformed with the instantiation, flags kept
            inps = res.get("inputs")
            if not (isinstance(inps, list) and len(inps) == 1 and inps[0][0] == "replaced" and inps[0][2].get("ty") == ("transformed", "inty0", Tok("INST", __ident__=1))):
                probs.append({"clause": "d", "inputs": repr(inps)})
            if res.get("output") != ("transformed", "outty", Tok("INST", __ident__=1)):
                probs.append({"clause": "d", "output": repr(res.get("output"))})
            if res.get("comptime_args") != [("transformed", "cta0", Tok("INST", __ident__=1))]:
                probs.append({"clause": "d", "comptime_args": repr(res.get("comptime_args"))})
            if res.get("unitary_flags") != "FLAGS":
                probs.append({"clause": "d", "unitary_flags": repr(res.get("unitary_flags"))})
            if probs:
                bad.append({"arguments": ["stays" if k is None else k for k in mask], "problems": probs[:3]})
    ctx.check(not bad, "R-C13.4", key, ip.where, {"cases": n_cases, "counterexamples": bad[:3], "n_counterexamples": len(bad)},
              "partial instantiation builds a function type whose remaining parameters, de Bruijn references, bounds, preserved tuples, "
              "comptime arguments or flags do not correspond to the original (e.g. a kept parameter is referenced by its old index)")
