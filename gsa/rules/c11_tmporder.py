"""R-C11.6  the order of generated names does not depend on how far the session's counter has run.

Hidden temporaries are named `%tmp<i>` from a counter that is never reset ("the property is stated up to that numbering").  That
is harmless only while nothing ORDERS such names by their spelling: `sort_vars` / `compare_var` fix the order in which a basic
block passes its variables on (block signatures, rows of the branch sum).  Both are interpreted on pairs of non-linear places
named `%tmp<i>`, `%tmp<j>` with i < j, for counters below and across a power of ten, and on places derived from them
(`%tmp<i>.a`, `%tmp<i>[0]`: fields / elements of a struct- or tuple-typed temporary, where the counter sits in the middle of the name).  Decided: the place created first comes
first in every case -- so the same function lowered later in a session (all counters shifted) gets the same signature order.
"""

from __future__ import annotations

import ast

from ..absint.minieval import Unsupported
from ..absint.pyeval import PyEval, Raised, Tok
from ..report import Ctx

CC = "guppylang_internals.compiler.cfg_compiler"


def run(ctx: Ctx) -> bool:
    idx = ctx.idx
    f = idx.find_func("sort_vars", CC)
    key = f"{f.qualname}#temporaries-keep-their-creation-order"

    def place(n: int) -> Tok:
        name = f"%tmp{n}"
        return Tok(name, id=name, name=name, __str__=name, ty=Tok(f"ty_{name}", copyable=True, droppable=True, linear=False, __ident__=1), __ident__=1)

    bad = []
    try:
        for i, j in ((1, 2), (3, 8), (9, 10), (8, 12), (99, 100), (95, 104), (19, 20), (999, 1000)):
            for flip in (False, True):
                row = [place(j), place(i)] if flip else [place(i), place(j)]
                got = PyEval(idx, CC).ev(ast.parse("sort_vars(__row__)", mode="eval").body, {"__row__": row})
                names = [p.name for p in got] if isinstance(got, list) else None
                if names != [f"%tmp{i}", f"%tmp{j}"]:
                    bad.append({"row": [p.name for p in row], "sorted": names, "should_be": [f"%tmp{i}", f"%tmp{j}"]})
        # places DERIVED from temporaries (fields / elements of a struct- or tuple-typed temporary) carry the counter in the middle
        for i, j in ((9, 10), (99, 100), (3, 4)):
            for suffix in (".a", "[0]", ".a.b"):
                for flip in (False, True):
                    pi, pj = place(i), place(j)
                    for q in (pi, pj):
                        nm = q.name + suffix
                        q.name = nm
                        q.attrs.update(id=nm, name=nm, __str__=nm)
                    row = [pj, pi] if flip else [pi, pj]
                    got = PyEval(idx, CC).ev(ast.parse("sort_vars(__row__)", mode="eval").body, {"__row__": row})
                    names = [p.name for p in got] if isinstance(got, list) else None
                    if names != [f"%tmp{i}{suffix}", f"%tmp{j}{suffix}"]:
                        bad.append({"row": [p.name for p in row], "sorted": names, "should_be": [f"%tmp{i}{suffix}", f"%tmp{j}{suffix}"]})
    except (Unsupported, Raised) as e:
        ctx.undecided("R-C11.6", key, f.where, str(e))
        return False
    ctx.check(not bad, "R-C11.6", key, f.where, {"pairs": 16 + 18, "counterexamples": bad[:4], "n_counterexamples": len(bad)},
              "two temporaries change their relative order when the session counter crosses a power of ten (`%tmp10` < `%tmp9` as strings): the "
              "inputs of a basic block are ordered differently when the same function is compiled again later in the session -- a different Hugr")
    return True
