"""C07 borrowed arguments reflect the callee's updates -- write-back pairing clause.

R-C07.1  every call compiler (local / global / tensor / barrier), interpreted with recorder tokens on function types with 0..2
         inputs over {owned, borrowed} and 0..1 results: the write-back is invoked once per call, after the call operation,
         with the call's own argument nodes, the outputs after the regular results and the call's function type; the result
         packs the regular results (c07_calls.py; CFG must-call pairing only as fallback).
R-C07.2  `_update_inout_ports`, interpreted on all argument lists up to length 3 over
         {not borrowed, borrowed place, borrowed subscripted place, borrowed non-place}:
         the k-th borrowed input receives the k-th extra output port, places are rebound to
         it, subscripted places additionally compile their `__setitem__` write-back with the
         updated element, and no port is left over.
R-C07.3  the HUGR signature returns exactly the borrowed inputs after the regular outputs
         (and omits comptime inputs), on all small input lists.
R-C07.4  the index of a subscripted place is compiled once and reused for the write-back: `ExprCompiler.visit_PlaceNode` and
         `StmtCompiler._assign_place` interpreted with a model data-flow container (index temporary bound or not, place = the
         subscript or a field below it): the index expression is compiled iff the temporary is unbound, a bound temporary
         keeps its wire, getitem / store / setitem happen in order (c07_subscript.py; the guarded-store shape as fallback).
R-C07.5  comptime tracing writes borrowed values back: `trace_call` interpreted on argument lists of length <= 3 over
         {owned, borrowed} with recorder tokens: update_packed_value once per borrowed argument, in order, with the post-call
         wire and the variable's type; a failed update raises GuppyComptimeError (c07_trace.py).
R-C07.7  `update_packed_value` interpreted on Guppy-object leaves, tuples, struct objects, lists and plain Python numbers: every
         leaf gets the wire of its own component and is available again; a plain value that cannot be updated in place is
         replaced by an object for that element, not for the whole container (c07_update.py).
Not decided: which value the caller observes at run time.
"""

from __future__ import annotations

import ast
import itertools

from ..absint.minieval import Opaque, Unsupported
from ..absint.pyeval import PyEval, Raised, Tok
from ..flow import CFG, calls_any, node_calls
from ..guards import lexical_guards
from ..index import AnalysisError, call_name, calls_in, dotted, walk_no_nested
from ..report import Ctx

LEVEL = "other"
EXPLANATION = (
    "Must-call pairing of the call operation with the port write-back in every call compiler, abstract evaluation of "
    "`_update_inout_ports` and of the HUGR signature construction on all small argument lists (port k goes to the k-th "
    "borrowed input; borrowed inputs are appended to the outputs), and guard rules for single evaluation of subscript indices."
)

EC = "guppylang_internals.compiler.expr_compiler"


def run(ctx: Ctx) -> None:
    idx = ctx.idx
    comp = idx.find_class("ExprCompiler", EC)
    ctx.saw("classes", comp.qualname)

    # ------------------------------------------------------------ R-C07.1
    from . import c07_calls
    if not c07_calls.run(ctx):
        # fallback (a call compiler could not be interpreted): must-call pairing of the call operation with the write-back on the CFG
        sites = ["visit_GlobalCall", "visit_LocalCall", "_compile_tensor_with_leftovers", "visit_BarrierExpr"]
        for m in sites:
            f = comp.methods.get(m)
            if f is None:
                raise AnalysisError(f"ExprCompiler.{m} vanished")
            g = CFG(f.node)
            upd = [n for n in g.nodes if any(call_name(c) == "_update_inout_ports" for c in node_calls(n))]
            call_ops = {"add_op", "compile_call"}
            # every path that adds the call op passes the write-back before leaving
            op_nodes = [n for n in g.nodes if any(call_name(c) in call_ops and ("Call" in ast.unparse(c) or call_name(c) == "compile_call" or "op" in ast.unparse(c.args[0] if c.args else c)) for c in node_calls(n))]
            ok_after = bool(upd) and all(g.exit not in g.reachable(n.id, blocked=lambda x: any(call_name(c) == "_update_inout_ports" for c in node_calls(x))) or n in upd for n in op_nodes)
            ok_dom = bool(upd) and all(g.dominated_by(u, lambda x: x in op_nodes) for u in upd)
            # arguments: the same arg list that was compiled, and the function type of this call
            args_ok = True
            facts = {}
            for u in upd:
                for c in node_calls(u):
                    if call_name(c) == "_update_inout_ports":
                        a0, a2 = ast.unparse(c.args[0]), ast.unparse(c.args[2]) if len(c.args) > 2 else ""
                        compiled = [ast.unparse(cc.args[0]) for cc in calls_in(f.node) if call_name(cc) == "_compile_call_args"]
                        facts = {"write_back_args": a0, "compiled_args": compiled, "func_ty": a2}
                        if compiled and a0 not in compiled:
                            args_ok = False
            ctx.check(ok_after and ok_dom and args_ok, "R-C07.1", f"{f.qualname}#write-back-after-call", f.where,
                      {"call_ops": len(op_nodes), "write_back_on_all_paths_after_call": ok_after, "call_before_write_back": ok_dom, **facts},
                      "after this kind of call the caller keeps using the pre-call wires of its borrowed arguments: the callee's in-place updates are lost")
        vt = comp.methods.get("visit_TensorCall")
        g = CFG(vt.node) if vt else None
        ctx.check(vt is not None and any(call_name(c) == "_compile_tensor_with_leftovers" for c in calls_in(vt.node)), "R-C07.1", f"{comp.qualname}.visit_TensorCall#delegates", vt.where if vt else comp.where, {},
                  "tensor calls bypass the write-back of borrowed arguments")

    # ------------------------------------------------------------ R-C07.2
    up = comp.methods.get("_update_inout_ports")
    if up is None:
        raise AnalysisError("_update_inout_ports vanished")
    ps = [a.arg for a in up.node.args.args]
    ev = PyEval(idx, EC)
    kinds = ("plain", "place", "subscript", "nonplace")  # plain = not borrowed
    bad = []
    und = None
    n = 0
    for length in (0, 1, 2, 3):
        for combo in itertools.product(kinds, repeat=length):
            args, inputs, expect = [], [], {}
            pending_subs: list = []
            nb = 0
            setitems_expected = []
            for i, k in enumerate(combo):
                flags = set() if k == "plain" else {"Inout"}
                inputs.append(Tok(f"inp{i}", flags=flags, ty=Tok(f"ty{i}", droppable=True)))
                if k in ("place", "subscript", "plain"):
                    sub = None
                    place = Tok(f"place{i}")
                    if k == "subscript":
                        sub = Tok(f"sub{i}", setitem_call=Tok(f"setitem{i}", value_var=Tok(f"valvar{i}"), call=Tok(f"setcall{i}")))
                        setitems_expected.append(f"setcall{i}")
                        pending_subs.append(sub)
                    place.attrs["__sub__"] = sub
                    args.append(Tok(f"arg{i}", __class__="PlaceNode", place=place))
                else:
                    args.append(Tok(f"arg{i}", __class__="Call"))
                if k != "plain":
                    if k in ("place", "subscript"):
                        expect[f"place{i}"] = f"port{nb}"
                    nb += 1
            ports = [Tok(f"port{j}") for j in range(nb)]
            # the real DFContainer keeps `dfg[subscript]` in sync when `dfg[place]` is assigned; model: already present
            dfg: dict = {s: Tok(f"elem_of_{s.name}") for s in pending_subs}
            visited: list[str] = []

            def h_next(node, e, env, ports=ports):
                if ports:
                    return ports.pop(0)
                if len(node.args) > 1:
                    return e.ev(node.args[1], env)
                raise Raised("StopIteration", "StopIteration")

            def h_visit(node, e, env, visited=visited, dfg=dfg):
                v = e.ev(node.args[0], env)
                visited.append(v.name if isinstance(v, Tok) else repr(v))
                return Tok("wire")

            def h_contains(node, e, env):
                p = e.ev(node.args[0], env)
                return p.attrs.get("__sub__") if isinstance(p, Tok) else None

            class _DfgKey(dict):
                pass
            self_tok = Tok("self", dfg=dfg, __classes__=[comp])
            env = {ps[0]: self_tok, ps[1]: args, ps[2]: Tok("ports_iter"), ps[3]: Tok("fty", inputs=inputs),
                   "next": h_next, "self.visit": h_visit, "contains_subscript": h_contains, "InputFlags": Tok("InputFlags", Inout="Inout", Comptime="Comptime")}
            n += 1
            try:
                out = ev.run_function(up, env)
            except Unsupported as e:
                und = f"{combo}: {e}"
                break
            got = {k.name: v.name for k, v in dfg.items() if isinstance(k, Tok) and k.name.startswith("place") and isinstance(v, Tok)}
            leftovers = len(ports)
            sub_ok = all(s in visited for s in setitems_expected) and all(
                isinstance(dfg.get(next((a.attrs["place"].attrs["__sub__"].attrs["setitem_call"].attrs["value_var"] for a in args if a.name == f"arg{i}"), None)), Tok)
                for i, k in enumerate(combo) if k == "subscript")
            if out[0] == "raise" or got != expect or leftovers or not sub_ok:
                bad.append({"inputs": combo, "outcome": out[0], "rebound": got, "expected": expect, "ports_left": leftovers, "setitem_compiled": visited, "subscript_ok": sub_ok})
        if und:
            break
    key = f"{up.qualname}#port-assignment"
    if und:
        ctx.undecided("R-C07.2", key, up.where, und)
    else:
        ctx.check(not bad, "R-C07.2", key, up.where, {"cases": n, "counterexamples": bad[:3]},
                  "after a call some borrowed argument is bound to the wrong returned port (or none), or the write-back into a subscripted "
                  "element is skipped: the caller does not see the callee's update")

    # ------------------------------------------------------------ R-C07.3
    ft = idx.find_class("FunctionType", "guppylang_internals.tys.ty")
    th = ft.methods.get("_to_hugr_function_type")
    if th is None:
        raise AnalysisError("FunctionType._to_hugr_function_type vanished")
    ev2 = PyEval(idx, "guppylang_internals.tys.ty")
    bad = []
    und = None
    n = 0
    for length in (0, 1, 2, 3):
        for combo in itertools.product(("plain", "inout", "comptime"), repeat=length):
            inputs = [Tok(f"in{i}", flags={"Inout"} if k == "inout" else ({"Comptime"} if k == "comptime" else set()),
                          ty=Tok(f"t{i}", __methods__={"to_hugr": (lambda r, a, i=i: f"h{i}")})) for i, k in enumerate(combo)]
            out_tys = [Tok("o0", __methods__={"to_hugr": lambda r, a: "ho0"})]
            captured = {}

            def h_ft(node, e, env, captured=captured):
                for kw in node.keywords:
                    captured[kw.arg] = e.ev(kw.value, env)
                return Tok("hugr_fn")
            env = {"self": Tok("self", inputs=inputs, output=Tok("out"), __classes__=ft.mro()), th.node.args.args[1].arg: Tok("ctx"),
                   "type_to_row": lambda node, e, env: out_tys, "ht.FunctionType": h_ft, "InputFlags": Tok("InputFlags", Inout="Inout", Comptime="Comptime")}
            n += 1
            try:
                ev2.run_function(th, env)
            except Unsupported as e:
                und = f"{combo}: {e}"
                break
            want_in = [f"h{i}" for i, k in enumerate(combo) if k != "comptime"]
            want_out = ["ho0"] + [f"h{i}" for i, k in enumerate(combo) if k == "inout"]
            if captured.get("input") != want_in or captured.get("output") != want_out:
                bad.append({"inputs": combo, "hugr_inputs": captured.get("input"), "hugr_outputs": captured.get("output"), "want_in": want_in, "want_out": want_out})
        if und:
            break
    key = f"{th.qualname}#borrowed-inputs-are-returned"
    if und:
        ctx.undecided("R-C07.3", key, th.where, und)
    else:
        ctx.check(not bad, "R-C07.3", key, th.where, {"cases": n, "counterexamples": bad[:3]},
                  "the HUGR signature of a function does not hand its borrowed inputs back (in order, after the regular outputs)")

    # ------------------------------------------------------------ R-C07.4 subscript index compiled once
    from . import c07_subscript
    if not c07_subscript.run(ctx):
        # fallback: the guarded-store shape (`if subscript.item not in self.dfg: self.dfg[subscript.item] = ...`)
        for cls_name, meth, hint in (("ExprCompiler", "visit_PlaceNode", EC), ("StmtCompiler", "_assign_place", "guppylang_internals.compiler.stmt_compiler")):
            f = idx.method(cls_name, meth, hint)
            stores = [n for n in walk_no_nested(f.node) if isinstance(n, ast.Assign) and any(isinstance(t, ast.Subscript) and ast.unparse(t.slice) == "subscript.item" for t in n.targets)]
            ok = bool(stores)
            for s in stores:
                gs = lexical_guards(f.node, s) or []
                ok = ok and any(ast.unparse(e).replace(" ", "") == "subscript.itemnotinself.dfg" and pol for e, pol in gs)
            ctx.check(ok, "R-C07.4", f"{f.qualname}#index-compiled-once", f.where, {"stores": [ast.unparse(s)[:70] for s in stores]},
                      "the index expression of `a[i]` is compiled again for the write-back: with a side-effecting or changing index the element is "
                      "put back into a different slot than it was taken from")

    # ------------------------------------------------------------ R-C07.6 a borrowed parameter cannot be rebound
    va = idx.method("BBLinearityChecker", "visit_Assign", "guppylang_internals.checker.linearity_checker")
    loops = [n for n in walk_no_nested(va.node) if isinstance(n, ast.For) and isinstance(n.iter, ast.Call) and call_name(n.iter) == "find_nodes"]
    ok = bool(loops) and "PlaceNode" in ast.unparse(loops[0].iter.args[0]) and any("BorrowShadowedError" in ast.unparse(s) for s in loops[0].body) \
        and not any(isinstance(x, (ast.Break, ast.Return)) for s in loops[0].body for x in walk_no_nested(s))
    ctx.check(ok, "R-C07.6", f"{va.qualname}#borrowed-parameter-cannot-be-rebound", va.where, {"iterates": ast.unparse(loops[0].iter)[:80] if loops else None},
              "a borrowed parameter can be rebound inside an unpacking assignment target: the callee hands back a fresh value and the caller "
              "loses its own (with all earlier in-place updates)")

    # ------------------------------------------------------------ R-C07.5 tracing write-back
    from . import c07_trace, c07_update
    c07_update.run(ctx)  # R-C07.7: what update_packed_value does with each kind of Python value
    if not c07_trace.run(ctx):
        # fallback (trace_call not interpretable): the loop over the inputs mentions the flag test and the update helper
        tc = idx.find_func("trace_call", "guppylang_internals.tracing.function")
        loops = [n for n in walk_no_nested(tc.node) if isinstance(n, ast.For) and "func.ty.inputs" in ast.unparse(n.iter)]
        ok = False
        if loops:
            body = ast.unparse(loops[0])
            ok = "InputFlags.Inout in inp.flags" in body and "update_packed_value(" in body and not any(isinstance(x, (ast.Break, ast.Continue)) for s in loops[0].body for x in walk_no_nested(s))
        ctx.check(ok, "R-C07.5", f"{tc.qualname}#writes-back-every-borrowed-argument", tc.where, {"loops": len(loops)},
                  "a comptime function calling a Guppy function that borrows an argument keeps the pre-call wires")
