"""C05 side effects happen once each, in Python's evaluation order -- structural clauses.

R-C05.1  "each operand once, in order, short-circuit operands behind their test": the desugarings
         of the CFG builder are interpreted on *symbolic operands* (own interpreter; constructors
         and the block/branch primitives are hooks that record events: operand built in block B,
         block B branches on predicate P, link B -> B').  The recorded block graph is then *run*
         for every truth assignment of the branch predicates and the sequence of operands it
         evaluates, and the exit it reaches, are compared with Python's semantics of the source
         expression: chained comparisons (3 and 4 operands), and/or (2..4 operands), conditional
         expressions in branch position and in value position (incl. which value the result
         temporary holds), `not`.  The order in which the builder happens to construct mutually
         exclusive blocks is irrelevant.
         Desugarings in the checker that duplicate an operand (AugAssign on a subscript) are
         decided by counting the evaluation uses of the duplicated node.
R-C05.2  ordering mechanism in place: the side-effect list names results, panic, exit,
         state-result, qubit alloc/free/measure-free; `may_have_side_effect` interpreted on 20 operation tokens against a model list
         (calls always, extension / custom operations iff their qualified name is listed, nothing else); every
         compile_inner runs inside track_hugr_side_effects; the tracker itself is interpreted (c05_tracker.py): its `with`
         body builds 900 model HUGRs (sequences over nine kinds of item, nested containers included) through the patched Hugr.add_node -- in every dataflow parent the order links are exactly
         Input -> e1 -> ... -> en -> Output over the children that have or contain a side effect, containers are marked in
         their parents, nothing is linked inside a Conditional, and add_node is restored on normal exit and on exception.
R-C05.3  short-circuit forms never reach the expression compiler (the synthesiser's handlers
         for BoolOp / IfExp / NamedExpr raise internal errors; ExprBuilder lifts them).
R-C05.4  compilers visit the parts of a node in field (= evaluation) order: callee before
         arguments, elements left to right.
R-C05.6  checker desugarings that reorder operands: reflected operator fallback, subscripts on non-place values
         (c05_order.py, below).
Not decided: order edges of the emitted HUGR, behaviour after a panic.
"""

from __future__ import annotations

import ast
import itertools

from ..absint.minieval import Opaque, Unsupported
from ..absint.pyeval import PyEval, Raised, Tok
from ..flow import CFG, calls_any, in_finally, must_raise, node_calls, raised_class
from ..index import AnalysisError, call_name, calls_in, dotted, walk_no_nested
from ..report import Ctx

LEVEL = "other"
EXPLANATION = (
    "Abstract interpretation of the desugaring code over symbolic operand tokens: the interpreter walks the builder's "
    "own syntax tree, constructor calls and block primitives record events, and the recorded build events are compared "
    "with Python's evaluation order (each operand once, left to right, short-circuit operands behind their test). Plus "
    "membership/must-call rules for the side-effect ordering mechanism and a field-order rule for the compilers."
)

BLD = "guppylang_internals.cfg.builder"


class Recorder:
    """Shared event log for one interpreted desugaring."""

    def __init__(self) -> None:
        self.events: list[tuple[str, str, str]] = []  # (kind, operand/desc, block)
        self.n_bb = 0
        self.n_tmp = 0
        self.n_ctor = 0
        self.edges: list[tuple[str, str, str]] = []  # (from, to, label)
        self.blocks: dict[str, Tok] = {}

    def new_bb(self) -> Tok:
        self.n_bb += 1
        b = Tok(f"bb{self.n_bb}", statements=[], __ident__=True)
        self.blocks[b.name] = b
        return b

    def simulate(self, entry: str, truth) -> tuple[list[str], str]:
        """Run the recorded block graph for one truth assignment of the branch predicates: the operands evaluated, in
        order, and the block reached.  Two outgoing links of a block = (false successor, true successor), in link order."""
        outs: dict[str, list[str]] = {}
        for a, b, _ in self.edges:
            outs.setdefault(a, []).append(b)
        cur, seq, seen = entry, [], set()
        self.visited = []
        while True:
            if cur in seen:
                raise Unsupported("cycle in the desugared block graph")
            seen.add(cur)
            self.visited.append(cur)
            seq += [o for k, o, b in self.events if k == "build" and b == cur]
            blk = self.blocks.get(cur)
            pred = blk.attrs.get("branch_pred") if blk is not None else None
            nxt = outs.get(cur, [])
            if len(nxt) == 2 and pred is not None:
                cur = nxt[1] if truth(pred) else nxt[0]
            elif len(nxt) == 1:
                cur = nxt[0]
            else:
                return seq, cur

    def tmp_value(self, name: str):
        for b in self.blocks.values():
            for t, e in b.attrs["statements"]:
                if t == name:
                    return e
        return None


def mk_ast(cls: str, name: str, **fields) -> Tok:
    base = dict(__class__=cls, __bases__=("expr", "AST"), lineno=1, col_offset=0, end_lineno=1, end_col_offset=1)
    base.update(fields)
    return Tok(name, **base)


def operand(name: str) -> Tok:
    return mk_ast("Call", name, __ident__=True)  # an opaque side-effecting operand


def interpret_branch(idx, rec: Recorder, node: Tok, builder_cls, expr_cls, value_visitor=None):
    """Interpret BranchBuilder.visit(node, bb, true_bb, false_bb) with recording hooks."""
    class BuilderEval(PyEval):
        """`ast.X(...)` constructor calls build symbolic nodes."""

        def call(self, node_, env):
            fn = ast.unparse(node_.func)
            if fn.startswith("ast.") and isinstance(getattr(ast, fn[4:], None), type):
                kw = {k.arg: self.ev(k.value, env) for k in node_.keywords if k.arg}
                rec.n_ctor += 1
                return mk_ast(fn[4:], f"{fn[4:]}#{rec.n_ctor}", **kw)
            return super().call(node_, env)

    ev = BuilderEval(idx, BLD, max_depth=60)
    entry, tb, fb = rec.new_bb(), Tok("TRUE", statements=[], __ident__=True), Tok("FALSE", statements=[], __ident__=True)
    cfg = Tok("cfg", __ident__=True)

    def leaves(t):
        """operand tokens inside an expression token (not through tmp Names)"""
        if not isinstance(t, Tok):
            return []
        if t.name.startswith("opd"):
            return [t.name]
        out = []
        for k, v in t.attrs.items():
            if k.startswith("__") or k in ("ctx",):
                continue
            for x in (v if isinstance(v, (list, tuple)) else [v]):
                out += leaves(x)
        return out

    def h_build(node_, e, env):
        expr, bb = e.ev(node_.args[0], env), e.ev(node_.args[2], env)
        for l in leaves(expr):
            rec.events.append(("build", l, bb.name))
        return (expr, bb)

    def h_tmp_assign(node_, e, env):
        tmp, expr, bb = (e.ev(a, env) for a in node_.args[:3])
        bb.attrs["statements"].append((tmp, expr))
        return None

    def h_next(node_, e, env):
        rec.n_tmp += 1
        return f"%tmp{rec.n_tmp}"

    def h_make_var(node_, e, env):
        nm = e.ev(node_.args[0], env)
        return mk_ast("Name", f"name:{nm}:{len(rec.events)}:{rec.n_tmp}:{id(node_) % 997}", id=nm)

    def h_ctor(cls):
        def f(node_, e, env):
            kw = {k.arg: e.ev(k.value, env) for k in node_.keywords if k.arg}
            rec.n_tmp += 0
            return mk_ast(cls, f"{cls}#{len(rec.events)}#{id(node_) % 9973}#{len(kw)}", **kw)
        return f

    def h_new_bb(node_, e, env):
        b = rec.new_bb()
        for p in node_.args:
            rec.edges.append((e.ev(p, env).name, b.name, "pred"))
        return b

    def h_link(node_, e, env):
        a, b = e.ev(node_.args[0], env), e.ev(node_.args[1], env)
        rec.edges.append((a.name, b.name, "link"))
        return None

    self_tok = Tok("self", cfg=cfg, __classes__=[builder_cls], __ident__=True)

    def h_visit(node_, e, env):
        n = e.ev(node_.args[0], env)
        rest = [e.ev(a, env) for a in node_.args[1:]]
        cls = n.attrs.get("__class__")
        m = builder_cls.methods.get(f"visit_{cls}")
        target = m if m is not None else builder_cls.methods.get("generic_visit")
        params = [a.arg for a in target.node.args.args]
        new = {k: v for k, v in env.items() if callable(v)}
        new.update(dict(zip(params, [self_tok, n, *rest])))
        if e.depth > 50:
            raise Unsupported("visit depth")
        e.depth += 1
        try:
            out = e.run(target.node.body, new)
        finally:
            e.depth -= 1
        if out[0] == "raise":
            raise Raised(str(out[1]), str(out[1]))
        return out[1] if out[0] == "return" else None

    def h_set_pred(*a):
        return None

    hooks = {
        "ExprBuilder.build": h_build, "self.build": h_build, "ExprBuilder._tmp_assign": h_tmp_assign, "self._tmp_assign": h_tmp_assign,
        "next": h_next, "make_var": h_make_var, "set_location_from": lambda n, e, en: None, "with_loc": lambda n, e, en: e.ev(n.args[1], en),
        "self.cfg.new_bb": h_new_bb, "self.cfg.link": h_link, "self.cfg.dummy_link": h_link, "self.visit": h_visit, "self.visit_BoolOp": None,
        "BranchBuilder.add_branch": lambda n, e, en: h_visit(ast.Call(func=n.func, args=[n.args[0], *n.args[2:]], keywords=[]), e, en),
    }
    hooks = {k: v for k, v in hooks.items() if v is not None}
    env = dict(hooks)
    if value_visitor is not None:
        # value context: ExprBuilder.visit_X(self, node) with self.bb = entry; result = (returned node, final self.bb)
        eself = Tok("exprbuilder", cfg=cfg, bb=entry, __classes__=[expr_cls], __ident__=True)
        params = [a.arg for a in value_visitor.node.args.args]

        def h_evisit(node_, e, env_):
            # ExprBuilder.visit(child): visit_<Class> of ExprBuilder, else its generic_visit
            n = e.ev(node_.args[0], env_)
            if not isinstance(n, Tok):
                return n
            m = expr_cls.methods.get(f"visit_{n.attrs.get('__class__')}") or expr_cls.methods.get("generic_visit")
            ps_ = [a.arg for a in m.node.args.args]
            new_ = {k: v for k, v in env_.items() if callable(v)}
            new_.update({ps_[0]: eself, ps_[1]: n})
            if e.depth > 50:
                raise Unsupported("visit depth")
            e.depth += 1
            try:
                o = e.run(m.node.body, new_)
            finally:
                e.depth -= 1
            if o[0] == "raise":
                raise Raised(str(o[1]), str(o[1]))
            return o[1] if o[0] == "return" else None

        def h_nt_generic(node_, e, env_):
            # ast.NodeTransformer.generic_visit: children are visited in field order and replaced by the results
            n = e.ev(node_.args[0], env_)
            for fld in n.attrs.get("_fields", ()):
                v = n.attrs.get(fld)
                call_ = ast.parse("self.visit(__child)").body[0].value
                if isinstance(v, list):
                    n.attrs[fld] = [h_evisit(call_, e, {**env_, "__child": x}) if isinstance(x, Tok) else x for x in v]
                elif isinstance(v, Tok):
                    n.attrs[fld] = h_evisit(call_, e, {**env_, "__child": v})
            return n

        env.update({params[0]: eself, params[1]: node, "self.visit": h_evisit, "super().generic_visit": h_nt_generic})
        out = ev.run(value_visitor.node.body, env)
        res_node = out[1] if out[0] == "return" else None
        # whatever is left of the expression is evaluated where the caller puts it: in the final block, left to right
        for l in leaves(res_node):
            rec.events.append(("build", l, eself.attrs["bb"].name))
        rec.result = (res_node, eself.attrs["bb"])
        return rec
    # generic_visit of BranchBuilder: builds the node as an expression and branches on it
    call = ast.parse("self.visit(node, bb, t, f)").body[0].value
    env.update({"self": self_tok, "node": node, "bb": entry, "t": tb, "f": fb})
    ev.call(call, env)
    return rec


def run(ctx: Ctx) -> None:
    idx = ctx.idx
    bb_cls = idx.find_class("BranchBuilder", BLD)
    eb_cls = idx.find_class("ExprBuilder", BLD)
    ctx.saw("classes", bb_cls.qualname)

    def check_case(key: str, node: Tok, operands: list[str], where: str, gated: dict[str, str], meaning: str, reference=None, n_atoms: int = 0) -> None:
        rec = Recorder()
        try:
            interpret_branch(idx, rec, node, bb_cls, eb_cls)
            sem_bad = []
            if reference is not None:
                def atom_of(pred: Tok) -> int:
                    # the branch predicate is an operand itself, or a comparison identified by its right operand
                    if pred.name.startswith("opd"):
                        return int(pred.name[3:])
                    right = pred.attrs["comparators"][0]
                    if not right.name.startswith("opd"):
                        right = rec.tmp_value(right.attrs["id"])
                    if right is None or not right.name.startswith("opd"):
                        raise Unsupported(f"cannot identify predicate {pred!r}")
                    return int(right.name[3:]) - 1
                for bits in itertools.product((False, True), repeat=n_atoms):
                    got = rec.simulate("bb1", lambda pred, bits=bits: bits[atom_of(pred)])
                    want = reference(bits)
                    if (got[0], got[1]) != (want[0], "TRUE" if want[1] else "FALSE"):
                        sem_bad.append({"predicate_values": list(bits), "evaluated": got[0], "reaches": got[1],
                                        "python_evaluates": want[0], "python_result": want[1]})
        except (Unsupported, Raised, KeyError, IndexError) as e:
            ctx.undecided("R-C05.1", key, where, f"{type(e).__name__}: {e}")
            return
        if sem_bad:
            ctx.violation("R-C05.1", key, where, {"operands_in_source_order": operands, "disagreements_with_python": sem_bad[:4],
                                                  "edges": rec.edges, "assignments_tried": 2 ** n_atoms}, meaning)
            return
        builds = [(o, b) for k, o, b in rec.events if k == "build"]
        counts = {o: sum(1 for x, _ in builds if x == o) for o in operands}
        order = [o for o, _ in builds]
        first_order = [o for i, o in enumerate(order) if o not in order[:i]]
        blocks = {o: [b for x, b in builds if x == o] for o in operands}
        # an operand that Python evaluates only after an earlier test must not be built in the entry block
        gating_ok = all(all(b != "bb1" for b in blocks[o]) for o in gated)
        if reference is not None:
            # every truth assignment of the branch predicates was simulated and agreed with Python: the order in which the
            # builder happened to *construct* exclusive blocks is irrelevant
            ok = True
        else:
            ok = all(c == 1 for c in counts.values()) and first_order == operands and gating_ok
        ctx.check(ok, "R-C05.1", key, where, {"operands_in_source_order": operands, "times_built": counts, "build_order": order, "blocks": blocks,
                                               "must_be_behind_a_test": sorted(gated),
                                               "truth_assignments_simulated": 2 ** n_atoms if reference is not None else 0}, meaning)

    # ---- chained comparisons
    vc = bb_cls.methods.get("visit_Compare")
    if vc is None:
        raise AnalysisError("BranchBuilder.visit_Compare vanished")
    for n_ops in (3, 4):
        names = [f"opd{i}" for i in range(n_ops)]
        toks = [operand(n) for n in names]
        node = mk_ast("Compare", f"cmp{n_ops}", left=toks[0], ops=[Tok(f"Lt{i}", __class__="Lt") for i in range(n_ops - 1)], comparators=toks[1:])
        def ref_chain(bits, n_ops=n_ops):
            seq = ["opd0", "opd1"]
            for i, b in enumerate(bits):
                if not b:
                    return seq, False
                if i + 2 < n_ops:
                    seq.append(f"opd{i + 2}")
            return seq, True
        check_case(f"{vc.qualname}#chained[{n_ops} operands]", node, names, vc.where, {n: "earlier comparison" for n in names[2:]},
                   reference=ref_chain, n_atoms=n_ops - 1, meaning=
                   "a middle operand of `a < b < c` is evaluated twice (a call in it runs twice, a folded literal is folded twice), operands are "
                   "evaluated out of order, or a later operand is evaluated although an earlier comparison already failed")
    # ---- and / or
    vb = bb_cls.methods.get("visit_BoolOp")
    if vb is None:
        raise AnalysisError("BranchBuilder.visit_BoolOp vanished")
    for opname in ("And", "Or"):
        for n_ops in (2, 3, 4):
            names = [f"opd{i}" for i in range(n_ops)]
            node = mk_ast("BoolOp", f"{opname}{n_ops}", op=Tok(opname, __class__=opname), values=[operand(n) for n in names])
            def ref_bool(bits, opname=opname):
                seq = []
                for i, b in enumerate(bits):
                    seq.append(f"opd{i}")
                    if b == (opname == "Or"):
                        return seq, b
                return seq, opname == "And"
            check_case(f"{vb.qualname}#{opname.lower()}[{n_ops} operands]", node, names, vb.where, {n: "short circuit" for n in names[1:]},
                       reference=ref_bool, n_atoms=n_ops, meaning=
                       f"an operand of `{opname.lower()}` is evaluated twice, out of order, or not behind the short-circuit test")
    # ---- conditional expression / not
    vi = bb_cls.methods.get("visit_IfExp")
    if vi is not None:
        node = mk_ast("IfExp", "ifexp", test=operand("opd0"), body=operand("opd1"), orelse=operand("opd2"))
        check_case(f"{vi.qualname}#ifexp", node, ["opd0", "opd1", "opd2"], vi.where, {"opd1": "test", "opd2": "test"},
                   reference=lambda bits: (["opd0", "opd1"], bits[1]) if bits[0] else (["opd0", "opd2"], bits[2]), n_atoms=3, meaning=
                   "a branch of `a if c else b` is evaluated before (or regardless of) the condition, or twice")
    vu = bb_cls.methods.get("visit_UnaryOp")
    if vu is not None:
        node = mk_ast("UnaryOp", "not", op=Tok("Not", __class__="Not"), operand=operand("opd0"))
        check_case(f"{vu.qualname}#not", node, ["opd0"], vu.where, {}, reference=lambda bits: (["opd0"], not bits[0]), n_atoms=1, meaning="the operand of `not` is evaluated twice or not at all")

    # ---- conditional expression in value position (ExprBuilder.visit_IfExp): branch blocks + temporary + merge
    ve = eb_cls.methods.get("visit_IfExp")
    if ve is not None:
        key = f"{ve.qualname}#ifexp-value"
        node = mk_ast("IfExp", "ifexp", test=operand("opd0"), body=operand("opd1"), orelse=operand("opd2"))
        rec = Recorder()
        try:
            interpret_branch(idx, rec, node, bb_cls, eb_cls, value_visitor=ve)
            res, final_bb = rec.result
            bad = []
            for t in (False, True):
                seq, end = rec.simulate("bb1", lambda pred, t=t: t)
                want = ["opd0", "opd1"] if t else ["opd0", "opd2"]
                assigned = [e.name for b in rec.visited for (tmp, e) in rec.blocks[b].attrs["statements"] if isinstance(res, Tok) and tmp == res.attrs.get("id")]
                if seq != want or end != final_bb.name or assigned != [want[1]]:
                    bad.append({"condition": t, "evaluated": seq, "python_evaluates": want, "ends_in": end, "builder_continues_in": final_bb.name,
                                "result_variable_holds": assigned})
            ctx.check(not bad, "R-C05.1", key, ve.where, {"disagreements_with_python": bad, "edges": rec.edges},
                      "`a if c else b` as a value evaluates the wrong branch, both branches, or yields the other branch's value")
        except (Unsupported, Raised, KeyError, IndexError, AttributeError, TypeError) as e:
            ctx.undecided("R-C05.1", key, ve.where, f"{type(e).__name__}: {e}")

    # ---- a sub-expression that needs control flow, to the RIGHT of a sibling: ExprBuilder lifts it into earlier blocks
    class _Drive:  # a two-line driver `return self.visit(node)` run as if it were a method of ExprBuilder
        node = ast.parse("def _drive(self, node):\n    return self.visit(node)").body[0]
    def leaf(nm):
        return mk_ast("Operand", nm, __ident__=True, _fields=())
    lifted_forms = {
        "conditional expression": lambda: mk_ast("IfExp", "ifexp", test=leaf("opd1"), body=leaf("opd2"), orelse=leaf("opd3"), _fields=("test", "body", "orelse")),
    }
    for form, mk in lifted_forms.items():
        key = f"{eb_cls.qualname}#left-sibling-before-lifted-{form.replace(' ', '-')}"
        node = mk_ast("Tuple", "tuple", elts=[leaf("opd0"), mk()], _fields=("elts",))
        rec = Recorder()
        try:
            interpret_branch(idx, rec, node, bb_cls, eb_cls, value_visitor=_Drive)
            bad = []
            for t in (False, True):
                seq, _end = rec.simulate("bb1", lambda pred, t=t: t)
                want = ["opd0", "opd1", "opd2" if t else "opd3"]
                if seq != want:
                    bad.append({"condition": t, "evaluated": seq, "python_evaluates": want})
            ctx.check(not bad, "R-C05.1", key, eb_cls.where, {"expression": "(opd0, opd2 if opd1 else opd3)", "disagreements_with_python": bad, "edges": rec.edges},
                      f"in `f() + (g() if c() else h())` (any enclosing expression) the {form} is lifted into blocks that run BEFORE the "
                      "part of the expression that stays behind: operands to its left are evaluated after it")
        except (Unsupported, Raised, KeyError, IndexError, AttributeError, TypeError) as e:
            ctx.undecided("R-C05.1", key, eb_cls.where, f"{type(e).__name__}: {e}")

    # ---- custom checkers that fold a call away must keep the evaluation of its argument
    from . import c05_callable
    c05_callable.run(ctx)

    # ---- desugarings in the checker that reuse an operand
    va = idx.method("StmtChecker", "visit_AugAssign", "guppylang_internals.checker.stmt_checker")
    uses = [n for n in walk_no_nested(va.node) if isinstance(n, ast.Attribute) and ast.unparse(n) == "node.target" and isinstance(n.ctx, ast.Load)]
    guarded = any(isinstance(n, ast.If) and ("Name" in ast.unparse(n.test) or "Subscript" in ast.unparse(n.test)) for n in walk_no_nested(va.node))
    ctx.check(len(uses) <= 1 or guarded, "R-C05.1", f"{va.qualname}#target", va.where,
              {"uses_of_node.target": len(uses), "restricted_to_pure_targets": guarded},
              "`xs[f()] += 1` is rewritten to `xs[f()] = xs[f()] + 1` with the same target expression in both places: the index expression "
              "(and any call in it) is evaluated twice")

    # ------------------------------------------------------------ R-C05.2
    cc = idx.module("guppylang_internals.compiler.core")
    lst = idx.module_constant(cc.name, "EXTENSION_OPS_WITH_SIDE_EFFECTS")
    if lst is None:
        raise AnalysisError("EXTENSION_OPS_WITH_SIDE_EFFECTS vanished")
    txt = ast.unparse(lst)
    need = {"RESULT_EXTENSION.operations": "result reports", "'panic'": "panic", "'exit'": "exit", "'StateResult'": "state result",
            "'QAlloc'": "qubit allocation", "'TryQAlloc'": "conditional qubit allocation (maybe_qubit)", "'QFree'": "qubit free", "'MeasureFree'": "measurement"}
    # every operation of the quantum extension that the standard library binds (`quantum_op("X")`) and whose name says that it
    # allocates or releases a qubit must be in the list: the set is read from the std sources, not frozen here
    bound_ops = set()
    for m_ in idx.modules.values():
        if m_.name.startswith("guppylang.std.quantum"):
            for c_ in ast.walk(m_.tree):
                if isinstance(c_, ast.Call) and call_name(c_) == "quantum_op" and c_.args and isinstance(c_.args[0], ast.Constant) and isinstance(c_.args[0].value, str) \
                        and not any(k_.arg == "ext" for k_ in c_.keywords):
                    bound_ops.add(c_.args[0].value)
    for op_ in sorted(o for o in bound_ops if "Alloc" in o or "Free" in o):
        need.setdefault(f"'{op_}'", f"qubit allocation / release ({op_})")
    missing = [v for k, v in need.items() if k not in txt]
    ctx.check(not missing, "R-C05.2", f"{cc.name}.EXTENSION_OPS_WITH_SIDE_EFFECTS", cc.rel, {"missing": missing},
              "an operation kind with an observable effect is not ordered relative to the others")
    from . import c05_sideeffect_ops
    c05_sideeffect_ops.run(ctx)
    from . import c05_tracker as _c05t
    if not _c05t.run_classifier(ctx):
        # fallback: the `case ops.Call() | ops.CallIndirect(): return True` arm by its shape
        mh = idx.find_func("may_have_side_effect", cc.name)
        arms = {ast.unparse(m.pattern): m for m in walk_no_nested(mh.node) if isinstance(m, ast.match_case)}
        call_arm = next((m for p, m in arms.items() if "ops.Call()" in p and "ops.CallIndirect()" in p), None)
        ok = call_arm is not None and any(isinstance(s, ast.Return) and isinstance(s.value, ast.Constant) and s.value.value is True for s in call_arm.body)
        ctx.check(ok, "R-C05.2", f"{mh.qualname}#calls-are-side-effects", mh.where, {"arms": sorted(arms)[:6]}, "function calls are not kept in program order")
    comp = idx.method("CompilerContext", "compile", cc.name)
    inner = [c for c in calls_in(comp.node) if call_name(c) == "compile_inner"]
    ok = bool(inner)
    for c in inner:
        withs = [w for w in walk_no_nested(comp.node) if isinstance(w, ast.With) and any(x is c for b in w.body for x in ast.walk(b))]
        ok = ok and any(isinstance(it.context_expr, ast.Call) and call_name(it.context_expr) == "track_hugr_side_effects" for w in withs for it in w.items)
    ctx.check(ok, "R-C05.2", f"{comp.qualname}#bodies-compiled-under-the-tracker", comp.where, {"compile_inner_calls": len(inner)},
              "a function body is lowered without the order-edge tracker")
    tr = idx.find_func("track_hugr_side_effects", cc.name)
    from . import c05_tracker
    if not c05_tracker.run(ctx):
        # fallback (the tracker cannot be interpreted): the shape of the tracker -- patch / restore in finally, link + remember, gate
        restore = [n for n in ast.walk(tr.node) if isinstance(n, ast.Assign) and ast.unparse(n.targets[0]) == "Hugr.add_node" and dotted(n.value) == "hugr_add_node"]
        patched = [n for n in ast.walk(tr.node) if isinstance(n, ast.Assign) and ast.unparse(n.targets[0]) == "Hugr.add_node" and dotted(n.value) != "hugr_add_node"]
        ok = bool(restore) and all(in_finally(tr.node, r) for r in restore) and bool(patched)
        hs = next((n for n in ast.walk(tr.node) if isinstance(n, ast.FunctionDef) and n.name == "handle_side_effect"), None)
        links = hs is not None and any(call_name(c) == "add_order_link" for c in ast.walk(hs) if isinstance(c, ast.Call)) \
            and any(isinstance(n, ast.Assign) and "prev_node_with_side_effect[parent]" in ast.unparse(n.targets[0]) for n in ast.walk(hs))
        if hs is not None:
            # a container (Conditional / CFG / nested DFG) holding a side effect is itself a side effect of *its* parent:
            # every early return of handle_side_effect must come after the recursive call on the parent
            gh = CFG(hs)
            early = [n for n in gh.nodes if isinstance(n.ast, ast.Return)]
            rec_ok = all(gh.dominated_by(n, calls_any({"handle_side_effect"})) for n in early)
            has_rec = any(call_name(c) == "handle_side_effect" for c in ast.walk(hs) if isinstance(c, ast.Call))
            ctx.check(rec_ok and has_rec, "R-C05.2", f"{tr.qualname}.handle_side_effect#marks-enclosing-containers", tr.where,
                      {"early_returns": len(early), "all_after_recursion_on_parent": rec_ok},
                      "a conditional or loop that contains a side effect is not itself ordered against the side effects before/after it in the "
                      "enclosing block")
        wrapper = next((n for n in ast.walk(tr.node) if isinstance(n, ast.FunctionDef) and n.name == "hugr_add_node_with_order"), None)
        gated = wrapper is not None and any(isinstance(n, ast.If) and "may_have_side_effect(op)" in ast.unparse(n.test) and "handle_side_effect" in ast.unparse(n) for n in ast.walk(wrapper))
        ctx.check(ok and links and gated, "R-C05.2", f"{tr.qualname}#links-in-insertion-order-and-restores", tr.where,
                  {"restored_in_finally": ok, "links_after_previous": links, "only_side_effecting_ops": gated},
                  "side-effecting nodes are not chained in insertion order, or the patched Hugr.add_node leaks out of the compilation")

    # ------------------------------------------------------------ R-C05.3
    syn = idx.find_class("ExprSynthesizer", "guppylang_internals.checker.expr_checker")
    for nm in ("BoolOp", "IfExp", "NamedExpr", "ListComp"):
        f = syn.methods.get(f"visit_{nm}")
        lifted = (f"visit_{nm}" in eb_cls.methods) or nm == "BoolOp"  # BoolOp: ExprBuilder.generic_visit via is_short_circuit_expr
        body = [s for s in f.node.body if not (isinstance(s, ast.Expr) and isinstance(s.value, ast.Constant))] if f else []
        mr = bool(body) and must_raise(body) and all(raised_class(r)[0] == "InternalGuppyError" for r in ast.walk(f.node) if isinstance(r, ast.Raise))
        ctx.check(f is not None and mr and lifted, "R-C05.3", f"{syn.qualname}.visit_{nm}#never-checked-as-eager", f.where if f else syn.where,
                  {"must_raise_internal": mr, "lifted_by_ExprBuilder": lifted},
                  f"`{nm}` can reach the type checker as an ordinary eager expression: both operands/branches would be evaluated")
    sc = idx.find_func("is_short_circuit_expr", BLD)
    # the two classifiers, interpreted on node tokens: which expression forms need branches (must be lifted by the builder) and which
    # are therefore not allowed inside a comprehension (a single dataflow block, where both operands would be evaluated)
    from ..absint.astmodel import N as _N
    from ..absint.pyeval import PyEval as _PE2, Raised as _Rai2
    from ..absint.minieval import Unsupported as _Uns2
    forms = {"and/or": (_N("BoolOp", op=_N("And"), values=[_N("Name", id="a"), _N("Name", id="b")]), True, True),
             "a < b < c": (_N("Compare", left=_N("Name", id="a"), ops=[_N("Lt"), _N("Lt")], comparators=[_N("Name", id="b"), _N("Name", id="c")]), True, True),
             "a < b": (_N("Compare", left=_N("Name", id="a"), ops=[_N("Lt")], comparators=[_N("Name", id="b")]), False, False),
             "x if c else y": (_N("IfExp", test=_N("Name", id="c"), body=_N("Name", id="x"), orelse=_N("Name", id="y")), False, True),
             "(x := e)": (_N("NamedExpr", target=_N("Name", id="x"), value=_N("Name", id="e")), False, True),
             "f(a)": (_N("Call", func=_N("Name", id="f"), args=[_N("Name", id="a")], keywords=[]), False, False),
             "a + b": (_N("BinOp", left=_N("Name", id="a"), op=_N("Add"), right=_N("Name", id="b")), False, False),
             "a & b": (_N("BinOp", left=_N("Name", id="a"), op=_N("BitAnd"), right=_N("Name", id="b")), False, False),
             "not a": (_N("UnaryOp", op=_N("Not"), operand=_N("Name", id="a")), False, False),
             "name": (_N("Name", id="a"), False, False)}
    for fn_name, col, meaning in (("is_short_circuit_expr", 1, "and/or or chained comparisons are not recognised as short-circuit forms"),
                                  ("is_illegal_in_list_comp", 2, "a short-circuit or conditional form is allowed inside a comprehension, which is built as one dataflow "
                                                                 "block: every operand / branch is evaluated, also those Python skips")):
        fcl = idx.find_func(fn_name, BLD)
        bad_f = []
        try:
            for label, row in forms.items():
                out_ = _PE2(idx, BLD, max_depth=5).run(fcl.node.body, {fcl.node.args.args[0].arg: row[0]})
                got_ = out_[1] if out_[0] == "return" else out_
                if got_ is not row[col]:
                    bad_f.append({"expression": label, fn_name: got_ if isinstance(got_, bool) else repr(got_), "should_be": row[col]})
            ctx.check(not bad_f, "R-C05.3", f"{fcl.qualname}#classification", fcl.where, {"forms": len(forms), "counterexamples": bad_f}, meaning)
        except (_Uns2, _Rai2) as e_:
            if fn_name == "is_short_circuit_expr":
                t = ast.unparse(sc.node)
                ctx.check("ast.BoolOp" in t and "ast.Compare" in t and "len(node.comparators) > 1" in t, "R-C05.3", f"{sc.qualname}", sc.where, {}, meaning)
            else:
                ctx.undecided("R-C05.3", f"{fcl.qualname}#classification", fcl.where, str(e_))
    gv = eb_cls.methods.get("generic_visit")
    ok = gv is not None and any(isinstance(n, ast.If) and "is_short_circuit_expr(node)" in ast.unparse(n.test) and "add_branch" in ast.unparse(n) for n in walk_no_nested(gv.node))
    ctx.check(ok, "R-C05.3", f"{eb_cls.qualname}.generic_visit#lifts-short-circuit", gv.where if gv else eb_cls.where, {}, "short-circuit expressions used as values are not lowered to branches")

    # ------------------------------------------------------------ R-C05.4 field order in compilers
    nodes_mod = idx.module("guppylang_internals.nodes")
    fields_of: dict[str, list[str]] = {}
    for c in idx.classes.values():
        if c.module is nodes_mod:
            for st in c.node.body:
                if isinstance(st, ast.Assign) and dotted(st.targets[0]) == "_fields" and isinstance(st.value, ast.Tuple):
                    fields_of[c.name] = [e.value for e in st.value.elts if isinstance(e, ast.Constant)]
    for n in ("Tuple", "List", "Call", "BinOp", "Compare", "Subscript", "Attribute"):
        fields_of[n] = list(getattr(ast, n)._fields)
    comp_cls = idx.find_class("ExprCompiler", "guppylang_internals.compiler.expr_compiler")
    n_checked = 0
    for name, f in sorted(comp_cls.methods.items()):
        if not name.startswith("visit_") or name[6:] not in fields_of:
            continue
        flds = fields_of[name[6:]]
        p = f.node.args.args[1].arg if len(f.node.args.args) > 1 else None
        if p is None:
            continue
        firsts: dict[str, tuple[int, int]] = {}
        for c in calls_in(f.node):
            if call_name(c) in ("visit", "_compile_call_args", "compile") or isinstance(c.func, ast.Attribute) and c.func.attr == "visit":
                for a in ast.walk(c):
                    if isinstance(a, ast.Attribute) and dotted(a.value) == p and a.attr in flds:
                        pos = (c.lineno, c.col_offset)
                        # comprehension `[self.visit(e) for e in node.elts]`: the visit call mentions the loop var; handled below
                        firsts[a.attr] = min(firsts.get(a.attr, pos), pos)
        for comp_ in [n for n in walk_no_nested(f.node) if isinstance(n, (ast.ListComp, ast.GeneratorExp))]:
            it = comp_.generators[0].iter
            for a in ast.walk(it):
                if isinstance(a, ast.Attribute) and dotted(a.value) == p and a.attr in flds and any(call_name(c) == "visit" for c in ast.walk(comp_.elt) if isinstance(c, ast.Call)):
                    pos = (comp_.lineno, comp_.col_offset)
                    firsts[a.attr] = min(firsts.get(a.attr, pos), pos)
        if len(firsts) < 2:
            continue
        n_checked += 1
        seq = [k for k, _ in sorted(firsts.items(), key=lambda kv: kv[1])]
        want = [x for x in flds if x in firsts]
        ctx.check(seq == want, "R-C05.4", f"{f.qualname}#field-order", f.where, {"compiled_in_order": seq, "field_order": want},
                  "the parts of this node are compiled in another order than Python evaluates them (e.g. arguments before the callee): "
                  "side effects in them run out of order")
    ctx.floor("R-C05.4", "compilers with several evaluated fields", n_checked, 2)
    # nodes built by a custom checker from the ARGUMENTS of a library function (`exit(msg, signal, *args)` -> PanicExpr): the
    # node's evaluated fields must be listed in the order of the function's parameters -- that is the order in which the caller
    # wrote the operands, and the order every traversal (the compiler above, the linearity and unitary passes) follows
    plat = idx.modules.get("guppylang.std.platform")
    exit_def = next((n for n in (plat.tree.body if plat else []) if isinstance(n, ast.FunctionDef) and n.name == "exit"), None)
    pe_fields = fields_of.get("PanicExpr")
    if exit_def is None or not pe_fields:
        ctx.undecided("R-C05.4", "guppylang_internals.nodes.PanicExpr#fields-in-source-order", "guppylang-internals/src/guppylang_internals/nodes.py", "std `exit` or PanicExpr._fields not found")
    else:
        params_ = [a_.arg for a_ in exit_def.args.args] + ([exit_def.args.vararg.arg] if exit_def.args.vararg else [])
        alias = {"args": "values"}
        want_ = [alias.get(x, x) for x in params_]
        got_ = [x for x in pe_fields if x in want_]
        ctx.check(got_ == want_, "R-C05.4", "guppylang_internals.nodes.PanicExpr#fields-in-source-order", "guppylang-internals/src/guppylang_internals/nodes.py",
                  {"parameters_of_exit": params_, "evaluated_fields_of_PanicExpr": got_},
                  "the operands of `exit(msg, signal, ...)` are stored (and therefore traversed and compiled) in another order than they are written: "
                  "a result report in the message and a panic in the signal expression happen in the wrong order")

    # ------------------------------------------------------------ R-C05.6 checker desugarings that reorder operands
    from . import c05_order
    c05_order.run(ctx)

