"""C33 experimental features are gated and the gate state is restored.

R-C33.1  every check_*_enabled function is interpreted with the live module global EXPERIMENTAL_FEATURES_ENABLED False and
         True (helpers followed): it raises a GuppyError iff the flag is False; no parameter default captures the flag;
         no module imports the flag by value.  (Truth-table form of the gate body only as fallback.)
R-C33.2  every gated construct passes its gate: constructor sites of ModifiedBlock /
         DesugaredListComp / TensorCall, the list-display visitors, the `list` type
         constructor are dominated by the matching gate call; `check_nested_func_def` is interpreted on all 16 subsets of
         {two locals of the enclosing function, a parameter, a global} being live at the nested function's entry: the
         capturing-closures gate is passed iff a local is captured, before the body check, with a use of a captured variable
         (c33_closure.py; dominance shape as fallback).
R-C33.3  the two switch classes are interpreted (base classes and helpers followed, the flag as shared module state) on every
         scenario  initial {F,T} x outer {enable, disable} x inside {nothing, nested with, plain call of either switch} x each
         block left {normally, by exception}: construction sets the switch's value, __enter__ leaves it, the inner exit restores
         the outer value, the outer exit restores the initial one, __exit__ returns false.  Who-may-write: only methods of the
         switch classes and helpers called from nowhere else.  (Statement-order form only as fallback.)
"""

from __future__ import annotations

import ast

from ..absint import booltab
from ..flow import CFG, calls_any, must_raise, node_calls, node_contains, raised_class
from ..index import AnalysisError, body_without_docstring, call_name, calls_in, dotted, walk_no_nested
from ..report import Ctx

LEVEL = "other"
EXPLANATION = (
    "The four gate functions and the two switch classes are interpreted from their syntax trees with the flag as shared "
    "module state (gates: raise GuppyError iff disabled; switches: 72 nesting/exit scenarios restore the previous value), a "
    "who-must-call rule with dominance on the per-function CFG for every construction site of a gated construct, and a "
    "who-may-write rule for the flag. The diagnostic class is not mandated "
    "(tests/error/experimental_errors/capturing_closure.err pins UnsupportedError for closures)."
)

FLAG = "EXPERIMENTAL_FEATURES_ENABLED"
EXP = "guppylang_internals.experimental"

# gated construct -> gate function
CONSTRUCTOR_GATES = {
    "ModifiedBlock": "check_modifiers_enabled",
    "DesugaredListComp": "check_lists_enabled",
    "TensorCall": "check_function_tensors_enabled",
}


def run(ctx: Ctx) -> None:
    idx = ctx.idx
    mod = idx.module(EXP)
    flag_def = idx.module_constant(EXP, FLAG)
    ctx.check(isinstance(flag_def, ast.Constant) and flag_def.value is False, "R-C33.1", f"{EXP}.{FLAG}#default-off", mod.rel,
              {"default": ast.unparse(flag_def) if flag_def is not None else None},
              "experimental features must be off unless enabled")

    atom = booltab.suffix_atomizer({FLAG: "enabled"})
    gates = [f for f in idx.iter_funcs((EXP,)) if f.cls is None and f.name.startswith("check_") and f.name.endswith("_enabled")]
    ctx.floor("R-C33.1", "gate functions", len(gates), 4)
    from . import c33_semantic
    # a default value is evaluated once, when the gate is defined: `def gate(loc, _on=FLAG)` tests a stale copy (any function of the module)
    frozen_any = False
    for f in idx.iter_funcs((EXP,)):
        all_args = f.node.args.posonlyargs + f.node.args.args
        defaults = list(zip(all_args[len(all_args) - len(f.node.args.defaults):], f.node.args.defaults)) + \
            [(a, d) for a, d in zip(f.node.args.kwonlyargs, f.node.args.kw_defaults) if d is not None]
        frozen = [a.arg for a, d in defaults if any(isinstance(x, ast.Name) and x.id == FLAG for x in ast.walk(d))]
        if frozen:
            frozen_any = True
            ctx.violation("R-C33.1", f"{f.qualname}#raises-iff-disabled", f.where, {"parameters_defaulting_to_the_flag": frozen},
                          f"`{f.name}` captures the flag's value at import time (default argument): enabling or disabling experimental features later has no effect on it")
    gates_decided = (not frozen_any) and c33_semantic.gates(ctx, gates)
    for f in ([] if gates_decided or frozen_any else gates):
        ctx.saw("functions", f.qualname)
        key = f"{f.qualname}#raises-iff-disabled"
        # the flag must be the module global read at call time: not a parameter/default, not rebound locally
        params = {a.arg for a in f.node.args.args + f.node.args.kwonlyargs}
        local_binds = {t.id for n in walk_no_nested(f.node) if isinstance(n, ast.Assign) for t in n.targets if isinstance(t, ast.Name)}
        live = FLAG not in params and FLAG not in local_binds
        # a default value is evaluated once, when the gate is defined: `def gate(loc, _on=FLAG)` tests a stale copy
        all_args = f.node.args.posonlyargs + f.node.args.args
        defaults = list(zip(all_args[len(all_args) - len(f.node.args.defaults):], f.node.args.defaults)) + \
            [(a, d) for a, d in zip(f.node.args.kwonlyargs, f.node.args.kw_defaults) if d is not None]
        frozen = [a.arg for a, d in defaults if any(isinstance(x, ast.Name) and x.id == FLAG for x in ast.walk(d))]
        if frozen:
            ctx.violation("R-C33.1", key, f.where, {"parameters_defaulting_to_the_flag": frozen},
                          f"`{f.name}` captures the flag's value at import time (default argument): enabling or disabling experimental features later has no effect on it")
            continue
        body = body_without_docstring(f.node)
        verdict = None
        facts: dict = {"reads_live_global": live}
        ifs = [n for n in body if isinstance(n, ast.If)]
        for n in ifs:
            try:
                t = booltab.table(n.test, ["enabled"], atom)
            except booltab.Unsupported as e:
                facts["unsupported_test"] = str(e)
                continue
            raising_when = [env[0] for env, v in t.items() if v]  # values of `enabled` for which the body runs
            mr = must_raise(n.body)
            cls = sorted({raised_class(r)[0] for b in n.body for r in ast.walk(b) if isinstance(r, ast.Raise)})
            facts.update({"test": ast.unparse(n.test), "body_runs_when_enabled_is": raising_when, "body_must_raise": mr, "raises": cls})
            verdict = mr and raising_when == [False] and cls == ["GuppyError"] and not n.orelse
        # nothing after the if may raise when enabled / nothing before may return when disabled
        other_raises = [r for st in body if not isinstance(st, ast.If) for r in ast.walk(st) if isinstance(r, ast.Raise)]
        early_returns = [r for st in body for r in ast.walk(st) if isinstance(r, ast.Return)]
        facts.update({"other_raises": len(other_raises), "returns": len(early_returns)})
        if verdict is None:
            ctx.undecided("R-C33.1", key, f.where, f"gate body not in the recognised fragment: {facts}")
            continue
        ctx.check(bool(verdict) and live and not other_raises and not early_returns, "R-C33.1", key, f.where, facts,
                  f"`{f.name}` does not reject exactly when experimental features are disabled at check time")
    kinds = sorted({(f.name, tuple(sorted({raised_class(r)[1] for r in ast.walk(f.node) if isinstance(r, ast.Raise)}))) for f in gates})
    ctx.note(f"gate diagnostic classes (not mandated, see DESIGN R-C33.1): {kinds}")
    gate_names = {f.name for f in gates}

    # ------------------------------------------------------------ R-C33.2
    pkgs = ("guppylang_internals",)
    n_sites = 0
    # A helper that calls the gate on every path to a normal return IS a gate for its callers (`gated_function_tensor_signature`
    # checks the flag and then computes the signature): wrappers are collected to a fixpoint, per gate function.
    all_funcs = list(idx.iter_funcs(pkgs))
    _cfgs: dict = {}

    def gate_set(gate: str) -> set[str]:
        names = {gate}
        changed = True
        while changed:
            changed = False
            for wf in all_funcs:
                if wf.node.name in names or wf.node.name.startswith(("visit_", "__")):
                    continue
                if not any(call_name(c) in names for c in calls_in(wf.node)):
                    continue
                g_ = _cfgs.get(wf.qualname) or _cfgs.setdefault(wf.qualname, CFG(wf.node))
                if g_.every_path_to_exit_passes(calls_any(names)):
                    names.add(wf.node.name)
                    changed = True
        return names
    GATES = {g_: gate_set(g_) for g_ in sorted(gate_names)}
    for f in idx.iter_funcs(pkgs):
        sites = [c for c in calls_in(f.node) if call_name(c) in CONSTRUCTOR_GATES and isinstance(c.func, (ast.Name, ast.Attribute))]
        if not sites:
            continue
        g = CFG(f.node)
        for c in sites:
            cname = call_name(c)
            gate = CONSTRUCTOR_GATES[cname]
            n_sites += 1
            ctx.saw("call sites", f"{f.qualname}:{cname}")
            nodes = g.nodes_for(c)
            ok = bool(nodes) and all(g.dominated_by(n, calls_any(GATES.get(gate, {gate}))) for n in nodes)
            ctx.check(ok, "R-C33.2", f"{f.qualname}#{cname}-behind-{gate}", f"{f.module.rel}:{c.lineno}",
                      {"constructor": cname, "gate": gate, "gate_or_wrappers": sorted(GATES.get(gate, {gate})), "cfg_nodes": len(nodes)},
                      f"a `{cname}` can be produced on a path that never called `{gate}`: the experimental construct is accepted while disabled")
    ctx.floor("R-C33.2", "constructor sites of gated constructs", n_sites, 4)

    # list displays and the list type constructor: every normal path calls the gate
    must_gate = [("ExprChecker", "visit_List"), ("ExprSynthesizer", "visit_List"), ("_ListTypeDef", "check_instantiate")]
    for cls, meth in must_gate:
        f = idx.method(cls, meth)
        ctx.saw("functions", f.qualname)
        g = CFG(f.node)
        ok = g.every_path_to_exit_passes(calls_any(GATES.get("check_lists_enabled", {"check_lists_enabled"})))
        # and the gate comes first: no other call before it on any path (a rejection for another reason is fine,
        # but an *acceptance path* must pass the gate, which is what is checked)
        ctx.check(ok, "R-C33.2", f"{f.qualname}#all-paths-call-check_lists_enabled", f.where, {"all_normal_paths": ok},
                  "a list expression/type can be accepted on a path that never called check_lists_enabled")
    # ExprBuilder.visit_ListComp must gate too (constructor rule covers the node; keep the visitor as a floor anchor)
    idx.method("ExprBuilder", "visit_ListComp")
    # CFGBuilder.visit_With: gate first
    vw = idx.method("CFGBuilder", "visit_With")
    g = CFG(vw.node)
    ctx.check(g.every_path_to_exit_passes(calls_any(GATES.get("check_modifiers_enabled", {"check_modifiers_enabled"}))), "R-C33.2",
              f"{vw.qualname}#all-paths-call-check_modifiers_enabled", vw.where, {},
              "a `with` modifier block can be accepted on a path that never called check_modifiers_enabled")

    # capturing closures
    cn = idx.find_func("check_nested_func_def", "guppylang_internals.checker.func_checker")
    ctx.saw("functions", cn.qualname)
    from . import c33_closure
    if not c33_closure.run(ctx):
        # fallback: the gate call is guarded by a test of the captured-variable map and dominates the sinks (shape)
        g = CFG(cn.node)
        # the variable holding the captured variables: the dict passed on / tested; find `captured` by the gate's guard
        gate = "check_capturing_closures_enabled"
        gate_calls = [c for c in calls_in(cn.node) if call_name(c) == gate]
        ctx.floor("R-C33.2", "capturing-closure gate calls in check_nested_func_def", len(gate_calls), 1)
        from ..guards import lexical_guards
        cap_names = set()
        for c in gate_calls:
            for e, pol in lexical_guards(cn.node, c) or []:
                if isinstance(e, ast.Name) and pol:
                    cap_names.add(e.id)
                if isinstance(e, ast.Compare) and isinstance(e.left, ast.Call) and dotted(e.left.func) == "len" and pol:
                    cap_names.add(dotted(e.left.args[0]))
        if not cap_names:
            ctx.undecided("R-C33.2", f"{cn.qualname}#closure-gate", cn.where, "gate is not guarded by a test of the captured-variable map")
        else:
            # the guard variable must be the captured-variable map that is used afterwards (flows into the result)
            cap = sorted(cap_names)[0]
            uses_after = [n for n in walk_no_nested(cn.node) if isinstance(n, ast.Name) and n.id == cap and isinstance(n.ctx, ast.Load)]

            def empty_branch(n, lab):  # leaving the test through the "nothing captured" edge is exempt
                if n.kind != "test" or n.ast is None:
                    return False
                t = n.ast
                if isinstance(t, ast.Name) and t.id == cap:
                    return lab == "F"
                if isinstance(t, ast.UnaryOp) and isinstance(t.op, ast.Not) and dotted(t.operand) == cap:
                    return lab == "T"
                return False

            sinks = [n for n in g.nodes if n.kind in ("stmt", "test") and any(call_name(c) in ("check_cfg", "CheckedNestedFunctionDef") for c in node_calls(n))]
            ctx.floor("R-C33.2", "check_cfg/CheckedNestedFunctionDef sinks in check_nested_func_def", len(sinks), 2)
            bad = [n.ast.lineno for n in sinks if not g.dominated_by(n, calls_any({gate}), edge_blocked=empty_branch)]
            ctx.check(not bad and len(uses_after) >= 3, "R-C33.2", f"{cn.qualname}#captured-implies-gate", cn.where,
                      {"captured_var": cap, "uses_of_captured_var": len(uses_after), "sinks": len(sinks), "sinks_reachable_without_gate": bad},
                      "a nested function that captures variables is checked without passing the capturing-closures gate")

    # ------------------------------------------------------------ R-C33.3
    classes = [c for c in idx.classes.values() if c.module.name == EXP and c.name.endswith("_experimental_features")]
    ctx.floor("R-C33.3", "context manager classes", len(classes), 2)
    written = {}
    proto_decided = c33_semantic.protocol(ctx)
    for c in ([] if proto_decided else classes):
        ctx.saw("classes", c.qualname)
        init, ex, en = c.methods.get("__init__"), c.methods.get("__exit__"), c.methods.get("__enter__")
        if init is None or ex is None or en is None:
            ctx.violation("R-C33.3", f"{c.qualname}#protocol", c.where, {"has": sorted(c.methods)}, "not usable as a context manager that restores")
            continue
        # __init__: global decl, save (self.X = FLAG) strictly before overwrite (FLAG = const)
        stmts = body_without_docstring(init.node)
        save_i = over_i = None
        saved_attr = None
        const = None
        for i, st in enumerate(stmts):
            if isinstance(st, ast.Assign) and len(st.targets) == 1:
                t = st.targets[0]
                if isinstance(t, ast.Attribute) and dotted(t.value) == "self" and dotted(st.value) == FLAG and save_i is None:
                    save_i, saved_attr = i, t.attr
                if isinstance(t, ast.Name) and t.id == FLAG:
                    over_i = i if over_i is None else over_i
                    const = st.value
        has_global = any(isinstance(st, ast.Global) and FLAG in st.names for st in init.node.body)
        ok_init = save_i is not None and over_i is not None and save_i < over_i and has_global and isinstance(const, ast.Constant)
        ctx.check(ok_init, "R-C33.3", f"{c.qualname}.__init__#save-before-overwrite", init.where,
                  {"save_stmt_index": save_i, "overwrite_stmt_index": over_i, "global_decl": has_global,
                   "writes": ast.unparse(const) if const is not None else None},
                  "the previous setting is read after it was overwritten (or the write hits a local): exit cannot restore it")
        written[c.name] = const.value if isinstance(const, ast.Constant) else None
        # __exit__: unconditional restore of the same attribute, falsy return
        g = CFG(ex.node)

        # locals of __exit__ bound exactly once (`previous = self.original`) stand for their value
        once: dict[str, list] = {}
        for n_ in walk_no_nested(ex.node):
            if isinstance(n_, ast.Assign) and len(n_.targets) == 1 and isinstance(n_.targets[0], ast.Name) and n_.targets[0].id != FLAG:
                once.setdefault(n_.targets[0].id, []).append(n_.value)

        def through_local(e):
            while isinstance(e, ast.Name) and len(once.get(e.id, ())) == 1:
                e = once[e.id][0]
            return e

        def restores(n, attr=saved_attr):
            a = n.ast
            if not (n.kind == "stmt" and isinstance(a, ast.Assign) and len(a.targets) == 1 and isinstance(a.targets[0], ast.Name) and a.targets[0].id == FLAG):
                return False
            v = through_local(a.value)
            return isinstance(v, ast.Attribute) and dotted(v.value) == "self" and v.attr == attr
        has_global_ex = any(isinstance(st, ast.Global) and FLAG in st.names for st in ex.node.body)
        all_paths = g.every_path_to_exit_passes(restores)
        rets = [r for r in walk_no_nested(ex.node) if isinstance(r, ast.Return) and r.value is not None
                and not (isinstance(r.value, ast.Constant) and not r.value.value)]
        ctx.check(all_paths and has_global_ex and not rets, "R-C33.3", f"{c.qualname}.__exit__#restores-unconditionally", ex.where,
                  {"restore_on_all_paths": all_paths, "global_decl": has_global_ex, "truthy_returns": [ast.unparse(r) for r in rets],
                   "restores_from": f"self.{saved_attr}"},
                  "leaving the block (normally or by exception) does not put the previous setting back, or swallows the exception")
        # __enter__ must not touch the flag again
        touches = [n for n in walk_no_nested(en.node) if isinstance(n, ast.Name) and n.id == FLAG and isinstance(n.ctx, ast.Store)]
        ctx.check(not touches, "R-C33.3", f"{c.qualname}.__enter__#no-second-write", en.where, {"writes": len(touches)},
                  "__enter__ rewrites the flag after __init__ saved it: nested use restores the wrong value")
    want = {"enable_experimental_features": True, "disable_experimental_features": False}
    if not proto_decided:
        ctx.check(all(written.get(k) is v for k, v in want.items()), "R-C33.3", f"{EXP}#enable-writes-True-disable-writes-False", mod.rel,
                  {"written": written}, "enable/disable write the wrong constant")
    # who may write the flag: the switch classes (with their base classes) and private helpers only they call
    writers, allowed = c33_semantic.flag_writers(idx)
    ctx.check(writers <= allowed, "R-C33.3", "who-may-write#EXPERIMENTAL_FEATURES_ENABLED", mod.rel,
              {"writers": sorted(writers), "not_part_of_the_switch_protocol": sorted(writers - allowed)},
              "the gate flag is written outside the enable/disable context managers (no restore pairing)")
    # readers: a module that does `from experimental import EXPERIMENTAL_FEATURES_ENABLED` binds a stale copy
    stale = [m.name for m in idx.modules.values() if m.name != EXP and m.imports.get(FLAG, "").endswith(FLAG)]
    ctx.check(not stale, "R-C33.1", "no-stale-copy#EXPERIMENTAL_FEATURES_ENABLED", mod.rel, {"modules_importing_the_flag_by_value": stale},
              "a module imports the flag by value; it never sees enable/disable")
