"""R-C24.4 (semantic form)  a daggered function contains neither loops nor assignments -- `check_invalid_under_dagger`, interpreted.

The function is interpreted from its syntax tree (module-level helpers and constants followed) on function bodies written as
token trees -- a call statement, `for`, `while`, the three assignment kinds, each also nested inside an `if`, and inside a
nested function definition -- for every flag set; the repository's AST search helpers (`find_nodes`, `loop_in_ast`) are
modelled by their contract (pre-order search that does not descend into nested function definitions).

Decided: a GuppyError is raised iff Dagger is among the flags and some statement of the body contains (as found by that search)
a loop or one of the three assignment statement kinds.
"""

from __future__ import annotations

import ast
import itertools

from ..absint.astmodel import N, VisitorEval, is_ast
from ..absint.flagabs import FlagDomain
from ..absint.minieval import Unsupported
from ..absint.pyeval import Raised, Tok
from ..report import Ctx

UC = "guppylang_internals.checker.unitary_checker"


def _search(node, pred, skip=("FunctionDef",)):
    out = []

    def go(n, first):
        if not is_ast(n):
            return
        if pred(n):
            out.append(n)
        if first or n.attrs["__class__"] not in skip:
            for f in n.attrs["_fields"]:
                v = n.attrs.get(f)
                for x in (v if isinstance(v, list) else [v]):
                    go(x, False)
    go(node, True)
    return out


def run(ctx: Ctx, dom: FlagDomain) -> bool:
    idx = ctx.idx
    f = idx.find_func("check_invalid_under_dagger", UC)
    key = f"{f.qualname}#rejects-loops-and-assignments"
    ps = [a.arg for a in f.node.args.args]
    D = dom.members["Dagger"]

    def call_stmt():
        return N("Expr", value=N("Call", func=N("Name", id="h"), args=[N("Name", id="q")], keywords=[]))

    plain = {
        "call": (call_stmt, False),
        "for": (lambda: N("For", target=N("Name", id="i"), iter=N("Name", id="xs"), body=[call_stmt()], orelse=[]), True),
        "while": (lambda: N("While", test=N("Name", id="c"), body=[call_stmt()], orelse=[]), True),
        "assign": (lambda: N("Assign", targets=[N("Name", id="x")], value=N("Constant", value=1)), True),
        "annotated assign": (lambda: N("AnnAssign", target=N("Name", id="x"), annotation=N("Name", id="int"), value=N("Constant", value=1)), True),
        "augmented assign": (lambda: N("AugAssign", target=N("Name", id="x"), op=N("Add"), value=N("Constant", value=1)), True),
    }
    bodies = []
    for name, (mk, bad) in plain.items():
        bodies.append((name, [mk()], bad))
        bodies.append((f"{name} after a call", [call_stmt(), mk()], bad))
        bodies.append((f"{name} inside an if", [N("If", test=N("Name", id="c"), body=[mk()], orelse=[])], bad))
        bodies.append((f"{name} inside a nested function", [N("FunctionDef", name="g", body=[mk()], decorator_list=[])], False))
    bad_cases = []
    n = 0
    try:
        for (desc, body, invalid), F in itertools.product(bodies, dom.all_values()):
            n += 1
            fn_def = N("FunctionDef", name="f", body=body, decorator_list=[])

            def h_find(node, e, env):
                # the matcher may be a lambda or a named (module-level) predicate: it is applied through the interpreter
                root = e.ev(node.args[1], env)
                probe = ast.Call(func=node.args[0], args=[ast.Name(id="__candidate__", ctx=ast.Load())], keywords=[])
                ast.fix_missing_locations(probe)

                direct = e.ev(node.args[0], env)

                def pred(x):
                    r = direct(x) if callable(direct) else e.ev(probe, {**env, "__candidate__": x})
                    if not isinstance(r, bool):
                        raise Unsupported(f"find_nodes matcher gives {r!r}")
                    return r
                return _search(root, pred)

            env = {ps[0]: fn_def, ps[1]: F, "find_nodes": h_find,
                   "loop_in_ast": lambda node, e, env: _search(e.ev(node.args[0], env), lambda x: x.attrs["__class__"] in ("For", "While"))}
            ev = VisitorEval(idx, UC, flags=dom)
            try:
                out = ev.run(f.node.body, env)
                raised = str(out[1]) if out[0] == "raise" else None
            except Raised as e:
                raised = e.cls or str(e)
            invalid = any(_search(st, lambda x: x.attrs["__class__"] in ("For", "While", "Assign", "AnnAssign", "AugAssign")) for st in body)
            want = bool(F.bits & D) and invalid
            if (raised is not None) != want or (want and "GuppyError" not in str(raised)):
                bad_cases.append({"body": desc, "flags": F.bits, "outcome": raised or "accepted", "should_be": "rejected" if want else "accepted"})
    except Unsupported as e:
        ctx.undecided("R-C24.4", key, f.where, str(e))
        return False
    ctx.check(not bad_cases, "R-C24.4", key, f.where, {"cases": n, "counterexamples": bad_cases[:4], "n_counterexamples": len(bad_cases)},
              "a daggered function may contain a loop or one of the assignment statement kinds (or a function without Dagger is rejected)")
    return True
