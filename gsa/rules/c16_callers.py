"""R-C16.2 (semantic form)  implicit coercion is attempted only as the fallback of a failed unification.

Every function that calls `try_coerce_to` is interpreted from its syntax tree with `unify` and `try_coerce_to` replaced
by recorders, on the four combinations  unification {succeeds, fails} x coercion {possible, impossible}  (the actual type
is an unparametrised, fully solved type).  Decided, for each caller:

  unification succeeds -> `try_coerce_to` is not called; the original node is returned with unify's substitution
  unification fails    -> `try_coerce_to` is called exactly once, with the caller's actual and expected type in that order
                          (first and second parameter of both functions) and the caller's node;
       coercion possible   -> its result is returned, with an empty substitution and instantiation
       coercion impossible -> a Guppy type error is raised
"""

from __future__ import annotations

import itertools

from ..absint.minieval import Unsupported
from ..absint.pyeval import PyEval, Raised, Tok
from ..index import call_name, calls_in
from ..report import Ctx

EC = "guppylang_internals.checker.expr_checker"
NAME = "try_coerce_to"


def run(ctx: Ctx) -> bool | None:
    """True: every caller decided.  False: some caller undecided.  None: no caller found."""
    idx = ctx.idx
    callers = [f for f in idx.iter_funcs(("guppylang_internals", "guppylang")) if f.name != NAME and any(call_name(c) == NAME for c in calls_in(f.node))]
    if not callers:
        return None
    decided = True
    for f in callers:
        key = f"{f.qualname}#coerce-only-after-unify-failed"
        params = [a.arg for a in f.node.args.posonlyargs + f.node.args.args]
        if len(params) < 4:
            ctx.undecided("R-C16.2", key, f.where, "caller has fewer than four parameters (actual, expected, node, ctx)")
            decided = False
            continue
        bad = []
        und = None
        for unify_ok, coercible in itertools.product((True, False), (True, False)):
            act = Tok("act_ty", __class__="NumericType", unsolved_vars=frozenset(), parametrized=False, __ident__=1)
            exp = Tok("exp_ty", __class__="NumericType", unsolved_vars=frozenset(), parametrized=False, __ident__=1)
            node = Tok("node", __ident__=1)
            cx = Tok("ctx", __ident__=1)
            solution = {"solved": True}
            coerced = Tok("coerced_node", __ident__=1)
            unify_calls: list = []
            coerce_calls: list = []

            def h_unify(n, e, env, unify_calls=unify_calls, unify_ok=unify_ok, solution=solution):
                unify_calls.append([e.ev(a, env) for a in n.args])
                return dict(solution) if unify_ok else None

            def h_coerce(n, e, env, coerce_calls=coerce_calls, coercible=coercible, coerced=coerced):
                vals = [e.ev(a, env) for a in n.args]
                kws = {k.arg: e.ev(k.value, env) for k in n.keywords}
                coerce_calls.append((vals, kws))
                return coerced if coercible else None

            env = {params[0]: act, params[1]: exp, params[2]: node, params[3]: cx, "unify": h_unify, NAME: h_coerce}
            for p in params[4:]:
                env[p] = "expression"
            ev = PyEval(idx, f.module.name, max_depth=6)
            ev.lenient = True
            try:
                out = ev.run(f.node.body, env)
                outcome = ("raise", str(out[1])) if out[0] == "raise" else ("return", out[1] if out[0] == "return" else None)
            except Raised as e:
                outcome = ("raise", e.cls or str(e))
            except Unsupported as e:
                und = f"unify_ok={unify_ok}, coercible={coercible}: {e}"
                break
            case = {"unification": "succeeds" if unify_ok else "fails", "coercion": "possible" if coercible else "impossible",
                    "try_coerce_to_calls": len(coerce_calls), "outcome": outcome[0]}
            if unify_ok:
                ok = not coerce_calls and outcome[0] == "return" and isinstance(outcome[1], tuple) and len(outcome[1]) == 3 \
                    and outcome[1][0] is node and outcome[1][1] == solution
            else:
                right_args = len(coerce_calls) == 1 and _arg(coerce_calls[0], 0, "act") is act and _arg(coerce_calls[0], 1, "exp") is exp \
                    and _arg(coerce_calls[0], 2, "node") is node
                case["called_with_(actual, expected, node)"] = right_args
                if coercible:
                    ok = right_args and outcome[0] == "return" and isinstance(outcome[1], tuple) and len(outcome[1]) == 3 \
                        and outcome[1][0] is coerced and outcome[1][1] == {} and outcome[1][2] == []
                else:
                    ok = right_args and outcome[0] == "raise" and "Guppy" in str(outcome[1])
                    case["raised"] = str(outcome[1])[:60]
            if not ok:
                bad.append(case)
        if und:
            ctx.undecided("R-C16.2", key, f.where, und)
            decided = False
            continue
        ctx.check(not bad, "R-C16.2", key, f.where, {"caller": f.qualname, "cases": 4, "counterexamples": bad},
                  "implicit coercion is attempted somewhere other than the type-mismatch fallback, although unification succeeded, with actual/expected "
                  "swapped, or its result is not what the caller returns")
    ctx.floor("R-C16.2", "callers of try_coerce_to", len(callers), 1)
    return decided


def _arg(call, i, name):
    vals, kws = call
    if i < len(vals):
        return vals[i]
    return kws.get(name)
