"""C01 accepted programs lower to valid HUGR -- necessary structural clauses only.

HUGR validity of generated graphs is a property of compiler *output* and is not decided.
Decided (each is necessary for "compiles without an internal compiler error" / for
well-formed block wiring):

R-C01.1  emitted  subset-of  handled, stage by stage: every node class of nodes.py that the
         checker stage constructs has a compiler handler (ExprCompiler / StmtCompiler visitor
         that does not unconditionally raise, or a registered `_assign` overload) or travels
         inside a carrier node whose handler reads it (reviewed table); every node class the
         builder constructs has a checker handler; every stdlib expression/statement class a
         checker handler forwards has a compiler visitor.
R-C01.2  pipeline must-calls: analyze -> check_bb -> linearity -> unitary in check_cfg;
         compile: every body under the side-effect tracker, insert_drops on every path.
R-C01.3  `choose_vars_for_tuple_sum` asserts that only droppable values enter a branch sum.  (The partition of a branching
         block's outputs and the sort order are decided by R-C01.6; their comprehension-shape / text forms run only as the
         fallback when `sort_vars` cannot be interpreted.)
R-C01.6  `compile_bb`, `sort_vars` and `compare_var` interpreted as a whole on symbolic signatures (c01_outputs.py): for every
         successor, branch-sum row ++ regular outputs == the successor's row sorted "droppable first, then by name"; a
         non-entry block declares and binds its inputs in that same order, the entry block in signature order.
R-C01.7  `choose_vars_for_tuple_sum` interpreted with a recording conditional builder on overlapping / equal / empty rows: every
         live place enters the branch conditional exactly once, case i tags exactly row i's values in order (c01_sum.py).
R-C01.4  return variables are prepended consistently to the exit signature and to every
         predecessor's output row, and lowering the same checked CFG a second time (`compile_cfg` interpreted twice on one
         CFG object, as for several monomorphic instances) leaves the signatures unchanged (c01_retvars.py).
"""

from __future__ import annotations

import ast
import itertools

from ..absint.minieval import Unsupported
from ..absint.pyeval import PyEval, Raised, Tok
from ..consume import Consumption
from ..flow import CFG, calls_any, must_raise, node_calls
from ..index import AnalysisError, call_name, calls_in, dotted, walk_no_nested
from ..report import Ctx

LEVEL = "other"
EXPLANATION = (
    "Set inclusion between the node classes each pipeline stage can emit (constructor sites) and the classes the next "
    "stage handles (visitor methods, singledispatch registrations, reviewed carrier table), must-call ordering of the "
    "pipeline, and a truth table showing that the output partition of branching blocks is complete and agrees with the "
    "variable sort order. Says nothing about ports, types or regions of the emitted HUGR."
)

# node classes that never reach a visitor on their own: carrier and the reason
CARRIED = {
    "UnpackPattern": "field `pattern` of TupleUnpack/ArrayUnpack/IterableUnpack, read by the registered _assign overloads",
    "Dagger": "list `dagger` of (Checked)ModifiedBlock, read by compile_modified_block",
    "Control": "list `control` of (Checked)ModifiedBlock, read by compile_modified_block / StmtChecker.visit_ModifiedBlock",
    "Power": "list `power` of (Checked)ModifiedBlock, read by compile_modified_block / StmtChecker.visit_ModifiedBlock",
    "DesugaredGenerator": "list `generators` of the desugared comprehension nodes, read by their visitors",
    "InoutReturnSentinel": "never an AST child: only recorded as the 'use' of a borrowed variable at the exit",
    "MakeIter": "constructed by the checker for unpacking and immediately synthesised (ExprSynthesizer.visit_MakeIter turns it into calls)",
    "ExitKind": "enum, not a node",
}
STAGES = {
    "builder": ("guppylang_internals.cfg.builder",),
    "checker": ("guppylang_internals.checker", "guppylang_internals.definition", "guppylang_internals.std._internal.checker",
                "guppylang_internals.std._internal.debug", "guppylang_internals.tracing.function"),
}


def _not_a_handler(f) -> bool:
    """The visitor exists only to report an internal error (`raise InternalGuppyError(...)` as its whole body)."""
    body = [s for s in f.node.body if not (isinstance(s, ast.Expr) and isinstance(s.value, ast.Constant))]
    return len(body) == 1 and isinstance(body[0], ast.Raise) and "InternalGuppyError" in ast.unparse(body[0])


def run(ctx: Ctx) -> None:
    idx = ctx.idx
    nm = idx.module("guppylang_internals.nodes")
    node_classes = [c.name for c in idx.classes.values() if c.module is nm]
    ctx.floor("R-C01.1", "node classes in nodes.py", len(node_classes), 30)
    ec = idx.find_class("ExprCompiler", "guppylang_internals.compiler.expr_compiler")
    sc = idx.find_class("StmtCompiler", "guppylang_internals.compiler.stmt_compiler")
    syn = idx.find_class("ExprSynthesizer", "guppylang_internals.checker.expr_checker")
    chk = idx.find_class("ExprChecker", "guppylang_internals.checker.expr_checker")
    stc = idx.find_class("StmtChecker", "guppylang_internals.checker.stmt_checker")
    assign_registered = set()
    for f in idx.funcs.values():
        if f.cls is sc and f.node.name.startswith("_assign") and len(f.node.args.args) > 1 and f.node.args.args[1].annotation is not None:
            assign_registered.add(ast.unparse(f.node.args.args[1].annotation).split(".")[-1])
    emitted: dict[str, dict[str, str]] = {}
    for st, pk in STAGES.items():
        s: dict[str, str] = {}
        for f in idx.iter_funcs(pk):
            for c in calls_in(f.node, nested=True):
                n = dotted(c.func).split(".")[-1]
                if n in node_classes and n not in s:
                    s[n] = f"{f.module.rel}:{c.lineno}"
        emitted[st] = s
    ctx.floor("R-C01.1", "node classes emitted by the checker stage", len(emitted["checker"]), 20)
    ctx.floor("R-C01.1", "node classes emitted by the builder stage", len(emitted["builder"]), 8)
    for c, where in sorted(emitted["checker"].items()):
        h = ec.methods.get(f"visit_{c}") or sc.methods.get(f"visit_{c}")
        if h is not None:
            ok = not _not_a_handler(h)
            how = h.qualname
        elif c in assign_registered:
            ok, how = True, f"StmtCompiler._assign overload for {c}"
        elif c in CARRIED:
            ok, how = True, f"carried: {CARRIED[c]}"
        else:
            ok, how = False, None
        ctx.check(ok, "R-C01.1", f"checker-emits:{c}", where, {"constructed_at": where, "handled_by": how},
                  f"the checker can produce a `{c}` node that no compiler visitor accepts: an accepted program dies with an internal compiler error")
    for c, where in sorted(emitted["builder"].items()):
        h = syn.methods.get(f"visit_{c}") or chk.methods.get(f"visit_{c}") or stc.methods.get(f"visit_{c}")
        if h is not None:
            ok, how = not _not_a_handler(h), h.qualname
        elif c in CARRIED:
            ok, how = True, f"carried: {CARRIED[c]}"
        else:
            ok, how = False, None
        ctx.check(ok, "R-C01.1", f"builder-emits:{c}", where, {"constructed_at": where, "handled_by": how},
                  f"the CFG builder can produce a `{c}` node that no checker visitor accepts")
    # stdlib classes forwarded by checker handlers need a compiler visitor
    cons = Consumption(idx)
    n_fwd = 0
    for cls_, compiler in ((syn, ec), (chk, ec), (stc, sc)):
        for name, f in sorted(cls_.methods.items()):
            if not name.startswith("visit_") or not hasattr(ast, name[6:]):
                continue
            X = name[6:]
            ps = [a.arg for a in f.node.args.args]
            if len(ps) < 2:
                continue
            h = cons.handler(f, ps[1], X)
            # only direct forwards of the very node count (`return node` / `return with_type(ty, node)`); forwards
            # through helpers are too imprecise here (a helper may return a replacement)
            if h.never_returns_normally() or not any(a == "" for _, a in h.facts.forwards):
                continue
            n_fwd += 1
            v = compiler.methods.get(f"visit_{X}")
            ok = v is not None and not _not_a_handler(v)
            ctx.check(ok, "R-C01.1", f"{f.qualname}->compiler.visit_{X}", f.where, {"forwards": f"ast.{X}", "compiler_handler": v.qualname if v else None},
                      f"a type-checked `ast.{X}` node is handed to the compiler, which has no (non-raising) visitor for it")
    ctx.floor("R-C01.1", "checker handlers that forward stdlib nodes", n_fwd, 5)

    # ------------------------------------------------------------ R-C01.2
    cc = idx.find_func("check_cfg", "guppylang_internals.checker.cfg_checker")
    g = CFG(cc.node)
    bbs = [n for n in g.nodes if any(call_name(c) == "check_bb" for c in node_calls(n))]
    ok = bool(bbs) and all(g.dominated_by(n, calls_any({"analyze"})) for n in bbs) and g.every_path_to_exit_passes(calls_any({"check_cfg_linearity"})) \
        and g.every_path_to_exit_passes(calls_any({"check_cfg_unitary"}))
    lin = [n for n in g.nodes if any(call_name(c) == "check_cfg_linearity" for c in node_calls(n))]
    ok = ok and all(g.dominated_by(n, calls_any({"check_bb"})) for n in lin)
    ctx.check(ok, "R-C01.2", f"{cc.qualname}#pipeline-order", cc.where, {"check_bb_sites": len(bbs)},
              "a function body can be accepted without dataflow analysis, linearity check or unitary check having run in order")
    comp = idx.method("CompilerContext", "compile", "guppylang_internals.compiler.core")
    g = CFG(comp.node)
    ok = g.every_path_to_exit_passes(calls_any({"insert_drops"}))
    loops = [n for n in walk_no_nested(comp.node) if isinstance(n, ast.While) and "worklist" in ast.unparse(n.test)]
    ok2 = bool(loops) and any(call_name(c) == "compile_inner" for c in calls_in(loops[0]))
    drops_after = all(d.lineno > loops[0].end_lineno for d in calls_in(comp.node) if call_name(d) == "insert_drops") if loops else False
    ctx.check(ok and ok2 and drops_after, "R-C01.2", f"{comp.qualname}#worklist-then-drops", comp.where, {"insert_drops_on_all_paths": ok, "after_worklist": drops_after},
              "definitions queued for compilation are not all lowered, or drops are inserted before all bodies exist")

    # ------------------------------------------------------------ R-C01.3 output partition of branching blocks
    cb = idx.find_func("compile_bb", "guppylang_internals.compiler.cfg_compiler")
    ctx.saw("functions", cb.qualname)
    # R-C01.6 (c01_outputs): compile_bb, sort_vars and compare_var interpreted as a whole -- partition, output order and input order.
    # The shape rules below are the fallback for a tree where sort_vars cannot be interpreted.
    from . import c01_outputs
    if not c01_outputs.run(ctx):
        sum_call = next((c for c in calls_in(cb.node) if call_name(c) == "choose_vars_for_tuple_sum"), None)
        key = f"{cb.qualname}#branch-output-partition"
        if sum_call is None:
            ctx.undecided("R-C01.3", key, cb.where, "no choose_vars_for_tuple_sum call")
        else:
            ov = next((k.value for k in sum_call.keywords if k.arg == "output_vars"), None)
            inner = ov.elt if isinstance(ov, ast.ListComp) else None
            in_sum = inner.generators[0].ifs if isinstance(inner, ast.ListComp) else None
            # the `outputs = [v for v in first if ...]` that follows in the same branch
            out_assign = None
            for n in walk_no_nested(cb.node):
                if isinstance(n, ast.Assign) and dotted(n.targets[0]) == "outputs" and isinstance(n.value, ast.ListComp) and n.lineno > sum_call.lineno:
                    out_assign = n
                    break
            if not in_sum or out_assign is None or not out_assign.value.generators[0].ifs:
                ctx.undecided("R-C01.3", key, cb.where, "partition filters not found in comprehension form")
            else:
                tb = idx.find_class("TypeBase", "guppylang_internals.tys.ty")
                ev = PyEval(idx, "guppylang_internals.compiler.cfg_compiler")
                v1 = dotted(inner.generators[0].target)
                v2 = dotted(out_assign.value.generators[0].target)
                cmpv = idx.find_func("compare_var", "guppylang_internals.compiler.cfg_compiler")
                key_uses = "p1.ty.linear" in ast.unparse(cmpv.node) and "p2.ty.linear" in ast.unparse(cmpv.node)
                bad = []
                und = None
                for c, d in itertools.product((False, True), repeat=2):
                    tok = Tok("v", ty=Tok("ty", copyable=c, droppable=d, linear=not c and not d, __classes__=[tb]))
                    try:
                        a = all(ev.truth(ev.ev(t, {v1: tok})) for t in in_sum)
                        b = all(ev.truth(ev.ev(t, {v2: tok})) for t in out_assign.value.generators[0].ifs)
                    except (Unsupported, Raised) as e:
                        und = str(e)
                        break
                    if a == b or a != (c or d):
                        bad.append({"copyable": c, "droppable": d, "goes_into_branch_sum": a, "goes_into_regular_outputs": b})
                if und:
                    ctx.undecided("R-C01.3", key, cb.where, und)
                else:
                    ctx.check(not bad and key_uses, "R-C01.3", key, f"{cb.module.rel}:{sum_call.lineno}",
                              {"branch_sum_filter": [ast.unparse(t) for t in in_sum], "regular_output_filter": [ast.unparse(t) for t in out_assign.value.generators[0].ifs],
                               "sort_key_uses_linear": key_uses, "counterexamples": bad},
                              "when the successors of a branching block need different variables, a variable of some copy/drop class is put into "
                              "neither (or both) of the branch sum and the regular outputs: the successor block receives the wrong number of "
                              "values (invalid HUGR) or a value is lost")
        # inputs of non-entry blocks and outputs of non-exit jumps use the same order
        txt = ast.unparse(cb.node)
        ok = "inputs = sort_vars(bb.sig.input_row)" in txt and "outputs = sort_vars(outputs)" in txt
        ctx.check(ok, "R-C01.3", f"{cb.qualname}#same-order-for-outputs-and-successor-inputs", cb.where, {},
                  "a block outputs its variables in another order than its successor expects them")
    cvs = idx.find_func("choose_vars_for_tuple_sum", "guppylang_internals.compiler.cfg_compiler")
    # the guard of the branch sum: a LINEAR place (neither copyable nor droppable) is live in every successor or in none, so it never
    # belongs into one variant of the sum -- the assertion is evaluated on one-variable rows of each copy/drop class
    asserts = [n for n in walk_no_nested(cvs.node) if isinstance(n, ast.Assert)]
    pname = cvs.node.args.args[1].arg if len(cvs.node.args.args) > 1 else "output_vars"
    verdicts = {}
    und = None
    for c, d in itertools.product((False, True), repeat=2):
        tok = Tok("v", ty=Tok("ty", copyable=c, droppable=d, linear=not c and not d))
        try:
            # the function is run up to (and including) its last assertion, so that locals the assertion reads are bound
            last = max(i for i, st in enumerate(cvs.node.body) if any(x is a for a in asserts for x in ast.walk(st)))
            ev_a = PyEval(idx, cvs.module.name)
            ev_a.check_asserts = True
            params_a = [x.arg for x in cvs.node.args.args]
            env_a = {p_: Tok(p_) for p_ in params_a}
            env_a[pname] = [[tok]]
            out_a = ev_a.run(cvs.node.body[: last + 1], env_a)
            verdicts[(c, d)] = not (out_a[0] == "raise" and "AssertionError" in str(out_a[1]))
        except Raised as e:
            verdicts[(c, d)] = "AssertionError" not in str(e.cls or e)
        except (Unsupported, ValueError) as e:
            und = str(e)
            break
    key = f"{cvs.qualname}#no-linear-place-in-branch-sum"
    if und or not asserts:
        ctx.undecided("R-C01.3", key, cvs.where, und or "no assertion on the rows of the branch sum")
    else:
        badv = [{"copyable": c, "droppable": d, "admitted": v} for (c, d), v in verdicts.items() if v != (c or d)]
        ctx.check(not badv, "R-C01.3", key, cvs.where, {"counterexamples": badv},
                  "the guard of the branch sum admits a linear place (or refuses one that may be live in only some successors)")

    # ------------------------------------------------------------ R-C01.4 return variables
    from . import c01_retvars
    c01_retvars.run(ctx)
    c01_retvars.run_twice(ctx)

    # ------------------------------------------------------------ R-C01.5 struct/tuple places
    from . import c01_places
    c01_places.run(ctx)

    # ------------------------------------------------------------ R-C01.7 the branch sum feeds every live place in once
    from . import c01_sum
    c01_sum.run(ctx)
