"""R-C13.8  every lowering of a nested function keeps its own body -- `compile_local_func_def`, interpreted twice.

A generic parent function is lowered once per monomorphic instance, and each lowering defines its own Hugr function for a nested
`def`.  When the body of the nested function is deferred (queued in `ctx.worklist` / registered in `ctx.compiled`), the queue entry
must identify WHICH of those Hugr functions it belongs to.  `compile_local_func_def` is interpreted twice on one compiler-context
token (dict-valued `compiled` and `worklist`) with the same nested definition and two different parent lowerings (fresh builder
tokens; `current_mono_args` differs), without the work list being drained in between -- which is what happens when a helper that
instantiates the parent again is popped first (LIFO).
Decided: afterwards each of the two Hugr functions either has its body compiled (`compile_cfg` was called with its builder) or is
still reachable from a pending work-list entry.  A lost one stays an empty function that the first instance calls.
"""

from __future__ import annotations

from ..absint.minieval import Unsupported
from ..absint.pyeval import PyEval, Raised, Tok
from ..report import Ctx

FC = "guppylang_internals.compiler.func_compiler"


def run(ctx: Ctx) -> bool:
    idx = ctx.idx
    f = idx.find_func("compile_local_func_def", FC)
    key = f"{f.qualname}#each-lowering-keeps-its-own-deferred-body"
    ps = [a.arg for a in f.node.args.args]
    compiled: dict = {}
    worklist: dict = {}
    cctx = Tok("ctx", compiled=compiled, worklist=worklist, current_mono_args=("n=1",), __ident__=1)
    entry = Tok("entry_bb", __ident__=1)
    cfg = Tok("cfg", live_before={entry: {}}, entry_bb=entry, input_tys=[], __ident__=1)
    fty = Tok("func_ty", input_names=["x"], __methods__={"to_hugr": lambda r, a: Tok("hugr_ty", input=[], output=[])}, __ident__=1)
    func = Tok("nested_def", __class__="CheckedNestedFunctionDef", def_id="inner_id", name="inner", ty=fty, captured={}, cfg=cfg, __ident__=1)
    builders: list = []
    compiled_bodies: list = []

    def mk_dfg(n):
        def m_define(r, a):
            b = Tok(f"hugr_function_{n}", __methods__={"inputs": lambda r2, a2: [], "set_outputs": lambda r2, a2: None}, input_node=[], __ident__=1)
            builders.append(b)
            return b
        root = Tok("module_root", __methods__={"define_function": m_define}, __ident__=1)
        bld = Tok("parent_builder", __methods__={"module_root_builder": lambda r, a: root, "load_function": lambda r, a: Tok("loaded"), "add_op": lambda r, a: Tok("op")}, __ident__=1)
        return Tok("dfg", builder=bld, __getitem__=lambda k: Tok("wire"), __ident__=1)

    def h_compiled_def(nd, e, env):
        vals = [e.ev(a, env) for a in nd.args]
        return Tok("compiled_def", args=vals, __ident__=1)

    def h_compile_cfg(nd, e, env):
        compiled_bodies.append(e.ev(nd.args[1], env))
        return []

    try:
        for n in (1, 2):
            cctx.attrs["current_mono_args"] = (f"n={n}",)
            env = {ps[0]: func, ps[1]: mk_dfg(n), ps[2]: cctx, "ht.FunctionType": lambda nd, e, env: Tok("closure_ty", input=[], output=[]),
                   "CompiledFunctionDef": h_compiled_def, "compile_cfg": h_compile_cfg, "PartialOp.from_closure": lambda nd, e, env: Tok("partial_op")}
            out = PyEval(idx, FC, max_depth=4).run(f.node.body, env)
            if out[0] == "raise":
                raise Unsupported(f"raises {out[1]}")
    except Raised as e:
        ctx.undecided("R-C13.8", key, f.where, f"raises {e.cls or e}")
        return False
    except Unsupported as e:
        ctx.undecided("R-C13.8", key, f.where, str(e))
        return False
    if len(builders) != 2:
        ctx.undecided("R-C13.8", key, f.where, f"{len(builders)} Hugr functions defined by two lowerings")
        return False

    def reachable(tok, target, depth=0) -> bool:
        if tok is target:
            return True
        if depth > 4:
            return False
        if isinstance(tok, Tok):
            return any(reachable(v, target, depth + 1) for k, v in tok.attrs.items() if not k.startswith("__"))
        if isinstance(tok, (list, tuple)):
            return any(reachable(v, target, depth + 1) for v in tok)
        return False

    lost = []
    for b in builders:
        done = any(x is b for x in compiled_bodies)
        pending = any(k in compiled and reachable(compiled[k], b) for k in worklist)
        if not done and not pending:
            lost.append(b.name)
    ctx.check(not lost, "R-C13.8", key, f.where,
              {"hugr_functions_defined": [b.name for b in builders], "work_list_entries": [repr(k) for k in worklist], "functions_whose_body_is_lost": lost},
              "a nested function inside a function that is instantiated twice (e.g. `count(1, x)` and, via a helper popped first, `count(0, x)` with "
              "`n: int @comptime`) gets two Hugr functions but one work-list entry keyed `(def_id, ())`: the first one never gets a body -- an empty "
              "function with an unconnected output that the first instance calls")
    return True
