"""R-C24.2 (derived function types)  a function type built FROM other function types carries the flags their call needs.

Two constructions hand out a new function type for code that calls existing functions:
  * a bound method used as a value (`f = p.app`): `ExprSynthesizer.visit_Attribute` builds the type of the closure over `self`
    -- calling it calls the method, so it has exactly the method's flags;
  * a function tensor `(f, g)(a, b)`: `function_tensor_signature` builds the combined type -- calling it calls every component, so
    it has the flags ALL components have (their intersection).
Both are interpreted with the `FunctionType` constructor as a recorder, on all flag sets (pairs for the tensor).  Fewer flags than
that reject valid unitary code ("such code is otherwise accepted"); more flags accept a call the context does not allow.
"""

from __future__ import annotations

import itertools

from ..absint.astmodel import VisitorEval
from ..absint.flagabs import FlagDomain, FlagV
from ..absint.minieval import Unsupported
from ..absint.pyeval import Raised, Tok
from ..report import Ctx

EC = "guppylang_internals.checker.expr_checker"
TY = "guppylang_internals.tys.ty"


def _ctor_recorder(made: list):
    def h(nd, e, env):
        pos = [e.ev(a, env) for a in nd.args]
        kw = {k.arg: e.ev(k.value, env) for k in nd.keywords if k.arg}
        for n_, v_ in zip(["inputs", "output", "params", "comptime_args", "unitary_flags"], pos):
            kw.setdefault(n_, v_)
        made.append(kw)
        return Tok("built_function_type", **kw)
    return h


def run(ctx: Ctx, dom: FlagDomain) -> bool:
    idx = ctx.idx
    ok_all = True
    # ---------------------------------------------------------------- function tensor
    f = idx.find_func("function_tensor_signature", TY)
    key = f"{f.qualname}#tensor-has-the-flags-all-components-have"
    ps = [a.arg for a in f.node.args.args]
    bad = []
    try:
        for F1, F2 in itertools.product(dom.all_values(), repeat=2):
            made: list = []
            tys = [Tok(f"fn{i}", parametrized=False, inputs=[], output=Tok("none"), unitary_flags=F, __ident__=1) for i, F in enumerate((F1, F2))]
            env = {ps[0]: tys, "FunctionType": _ctor_recorder(made), "type_to_row": lambda nd, e, env: [], "row_to_type": lambda nd, e, env: Tok("out"),
                   "replace": lambda nd, e, env: e.ev(nd.args[0], env)}
            VisitorEval(idx, TY, flags=dom).run(f.node.body, env)
            got = made[-1].get("unitary_flags") if made else None
            bits = got.bits if isinstance(got, FlagV) else (0 if got is None else None)
            if bits != (F1.bits & F2.bits):
                bad.append({"component_flags": [F1.bits, F2.bits], "tensor_flags": bits, "should_be": F1.bits & F2.bits})
        ctx.check(not bad, "R-C24.2", key, f.where, {"pairs": len(dom.all_values()) ** 2, "flag_bits": dom.members, "counterexamples": bad[:4], "n_counterexamples": len(bad)},
                  "a tensor of functions does not carry the intersection of its components' flags: `(u, u)(q1, q2)` with unitary functions is "
                  "rejected in a control context (or a tensor containing a flag-less function is accepted there)")
    except (Unsupported, Raised) as e:
        ctx.undecided("R-C24.2", key, f.where, str(e))
        ok_all = False
    # ---------------------------------------------------------------- bound method used as a value
    syn = idx.find_class("ExprSynthesizer", EC)
    va = syn.find_method("visit_Attribute")
    key = f"{syn.qualname}.visit_Attribute#bound-method-value-keeps-the-method's-flags"
    if va is None:
        ctx.undecided("R-C24.2", key, syn.where, "no visit_Attribute")
        return False
    ps = [a.arg for a in va.node.args.args]
    bad = []
    try:
        for F in dom.all_values():
            made = []
            mty = Tok("method_ty", inputs=[Tok("self_inp"), Tok("x_inp")], output=Tok("out"), params=[], comptime_args=[], unitary_flags=F, __ident__=1)
            func = Tok("method_def", ty=mty, name="app", id="app_id", __ident__=1)
            glob = Tok("globals", __methods__={"get_instance_func": lambda r, a, func=func: func}, __ident__=1)
            recv_ty = Tok("P", __class__="OpaqueType", __ident__=1)
            recv = Tok("p", __class__="PlaceNode", __ident__=1)
            me = Tok("synthesizer", ctx=Tok("ctx", globals=glob, __ident__=1), __classes__=syn.mro(), __ident__=1)
            me.attrs["__methods__"] = {"_is_python_module": lambda r, a: None, "synthesize": lambda r, a, recv=recv, recv_ty=recv_ty: (recv, recv_ty)}
            loc = Tok("loc", line=1, __methods__={"shift_left": lambda r, a: r}, __ident__=1)
            node = Tok("attr_node", __class__="Attribute", value=Tok("value_expr"), attr="app", __ident__=1)
            env = {ps[0]: me, ps[1]: node, "FunctionType": _ctor_recorder(made), "to_span": lambda nd, e, env: Tok("span", start=loc, end=loc),
                   "Span": lambda nd, e, env: Tok("span2"), "with_loc": lambda nd, e, env: e.ev(nd.args[1], env), "with_type": lambda nd, e, env: e.ev(nd.args[1], env),
                   "GlobalName": lambda nd, e, env: Tok("global_name"), "PartialApply": lambda nd, e, env: Tok("partial_apply")}
            VisitorEval(idx, EC, flags=dom).run(va.node.body, env)
            got = made[-1].get("unitary_flags") if made else "no function type built"
            bits = got.bits if isinstance(got, FlagV) else (0 if got is None else got)
            if bits != F.bits:
                bad.append({"method_flags": F.bits, "flags_of_the_bound_method_value": bits})
        ctx.check(not bad, "R-C24.2", key, va.where, {"flag_sets": len(dom.all_values()), "counterexamples": bad[:4], "n_counterexamples": len(bad)},
                  "`f = p.app; f(q)` with `app` declared unitary is rejected in a control context although `p.app(q)` is accepted: the type of the "
                  "bound method is built without the method's flags")
    except (Unsupported, Raised) as e:
        ctx.undecided("R-C24.2", key, va.where, str(e))
        ok_all = False
    return ok_all
