"""R-C32.6  no statement of a block is dropped by the statement loop -- `CFGBuilder.visit_stmts`, interpreted.

`visit_stmts` is interpreted from its syntax tree (`is_functional_annotation` followed) on every statement sequence of length
<= 3 over {plain statement, statement that jumps, the `_@functional` pseudo-decorator statement}; the per-statement visitor and
the CFG are recorders.

Decided: every sequence without a pseudo-decorator hands each of its statements to the visitor exactly once, in order; a
sequence that contains the pseudo-decorator -- wherever it stands, also as the LAST statement of the block, where it annotates
nothing -- ends in an error (the feature is not implemented), it is never accepted with the statement silently skipped.
"""

from __future__ import annotations

import itertools

from ..absint.astmodel import N
from ..absint.minieval import Unsupported
from ..absint.pyeval import PyEval, Raised, Tok
from ..report import Ctx
from .c08_build import CB, _bb


def run(ctx: Ctx) -> bool:
    idx = ctx.idx
    vs = idx.method("CFGBuilder", "visit_stmts", CB)
    key = f"{vs.qualname}#no-statement-dropped"
    ps = [a.arg for a in vs.node.args.args]
    bad = []
    n = 0
    try:
        for k in range(1, 4):
            for seq in itertools.product(("plain", "jumps", "functional"), repeat=k):
                n += 1
                visits: list = []
                counter = itertools.count()
                cfg = Tok("cfg", __ident__=1)
                cfg.attrs["__methods__"] = {"new_bb": lambda r, a, counter=counter: _bb(f"fresh{next(counter)}"), "dummy_link": lambda r, a: None}

                def visit(r, a, visits=visits):
                    visits.append(a[0].name)
                    return None if a[0].attrs.get("kind") == "jumps" else a[1]

                me = Tok("builder", cfg=cfg, __classes__=vs.cls.mro(), __ident__=1)
                me.attrs["__methods__"] = {"visit": visit}
                stmts = []
                for i, kd in enumerate(seq):
                    if kd == "functional":
                        st = N("Expr", value=N("BinOp", left=N("Name", id="_"), op=N("MatMult"), right=N("Name", id="functional")))
                        st.name = f"s{i}"
                    else:
                        st = N("Expr", value=N("Call", func=N("Name", id="g"), args=[], keywords=[]))
                        st.name = f"s{i}"
                        st.attrs["kind"] = kd
                    stmts.append(st)
                env = {ps[0]: me, ps[1]: stmts, ps[2]: _bb("start"), ps[3]: Tok("jumps")}
                ev = PyEval(idx, CB, max_depth=6)
                try:
                    out = ev.run(vs.node.body, env)
                    raised = str(out[1]) if out[0] == "raise" else None
                except Raised as e:
                    raised = e.cls or str(e)
                has_annotation = "functional" in seq
                if has_annotation and raised is None:
                    bad.append({"statements": list(seq), "outcome": "accepted", "visited": visits,
                                "problem": "the pseudo-decorator statement is skipped silently (it neither takes effect nor is rejected)"})
                elif not has_annotation and (raised is not None or visits != [f"s{i}" for i in range(len(seq))]):
                    bad.append({"statements": list(seq), "outcome": raised or "accepted", "visited": visits, "should_visit": [f"s{i}" for i in range(len(seq))]})
    except Unsupported as e:
        ctx.undecided("R-C32.6", key, vs.where, str(e))
        return False
    ctx.check(not bad, "R-C32.6", key, vs.where, {"cases": n, "counterexamples": bad[:4], "n_counterexamples": len(bad)},
              "a statement of a block is dropped without effect and without an error")
    return True
