"""R-C22.1 / R-C22.2 (semantic form)  frozen containers reject mutation, and `frozen` reaches every nested container.

frozenlist           every in-place mutator of `list` is overridden, and its body -- interpreted, helpers followed -- raises
                     GuppyComptimeError.
unpack_guppy_object  interpreted from its syntax tree (helpers followed) on the type terms
                       tuple(struct(array[2](int), int), array[1](tuple(array[3](int))), none, array[0](int), array[n](int))
                     with frozen False and True; the HUGR builder and the object constructors are recorders.  Decided: the result has
                     the shape of the type; every list in it is a frozenlist iff frozen; every struct object in it carries
                     frozen; zero-length and generic-length arrays stay Guppy objects; the wires are consumed in order.
"""

from __future__ import annotations

from ..absint.minieval import Unsupported
from ..absint.pyeval import PyEval, Raised, Tok, with_kwargs
from ..report import Ctx

UP = "guppylang_internals.tracing.unpacking"


def mutators(ctx: Ctx, fl, names) -> bool:
    idx = ctx.idx
    decided = True
    for m in names:
        f = fl.methods.get(m)
        key = f"{fl.qualname}.{m}#must-raise"
        if f is None:
            ctx.violation("R-C22.1", key, fl.where, {"overridden": False},
                          f"`{m}` is inherited from list: a value derived from an owned comptime argument can be mutated in place")
            continue
        a = f.node.args
        env = {p.arg: Tok(p.arg, __ident__=1) for p in a.posonlyargs + a.args + a.kwonlyargs}
        if a.vararg:
            env[a.vararg.arg] = []
        if a.kwarg:
            env[a.kwarg.arg] = {}
        try:
            out = PyEval(idx, f.module.name, max_depth=5).run(f.node.body, env)
            res = ("raises " + str(out[1])) if out[0] == "raise" else "returns"
        except Raised as e:
            res = "raises " + (e.cls or str(e))
        except Unsupported as e:
            ctx.undecided("R-C22.1", key, f.where, str(e))
            decided = False
            continue
        ctx.check(res.startswith("raises") and "GuppyComptimeError" in res, "R-C22.1", key, f.where, {"outcome": res},
                  f"frozenlist.{m} does not reject the mutation with GuppyComptimeError on every path")
    return decided


# ---- type terms ------------------------------------------------------------------------------------------------------------------------
def T_int():
    return Tok("int_ty", __class__="NumericType", __ident__=1)


def T_none():
    return Tok("none_ty", __class__="NoneType", __ident__=1)


def T_tuple(*elts):
    return Tok(f"tuple_ty{len(elts)}", __class__="TupleType", element_types=list(elts), __ident__=1)


def T_struct(*fields):
    return Tok(f"struct_ty{len(fields)}", __class__="StructType", fields=[Tok(f"field{i}", name=f"f{i}", ty=t) for i, t in enumerate(fields)], __ident__=1)


def T_array(elem, n):
    return Tok(f"array_ty[{n}]", __class__="OpaqueType", __array__=(elem, n), __ident__=1)


def _expected(ty, frozen):
    """Shape the result must have: nested python tuples / ('struct', frozen, [...]) / ('list', frozen, [...]) / 'obj'."""
    c = ty.attrs.get("__class__")
    if c == "NoneType":
        return None
    if c == "TupleType":
        return tuple(_expected(t, frozen) for t in ty.attrs["element_types"])
    if c == "StructType":
        return ("struct", frozen, [_expected(f.attrs["ty"], frozen) for f in ty.attrs["fields"]])
    if "__array__" in ty.attrs:
        elem, n = ty.attrs["__array__"]
        if not isinstance(n, int) or n == 0:
            return "obj"
        return ("list", frozen, [_expected(elem, frozen) for _ in range(n)])
    return "obj"


def _shape(v):
    if v is None:
        return None
    if isinstance(v, tuple):
        return tuple(_shape(x) for x in v)
    if isinstance(v, list):
        return ("list", False, [_shape(x) for x in v])
    if isinstance(v, Tok) and v.name == "frozenlist":
        items = v.attrs["items"]
        return ("list", True, [_shape(x) for x in items]) if isinstance(items, list) else ("list", True, repr(items))
    if isinstance(v, Tok) and v.name == "struct_object":
        vals = v.attrs["values"]
        return ("struct", v.attrs["frozen"], [_shape(x) for x in vals] if isinstance(vals, list) else repr(vals))
    if isinstance(v, Tok) and v.name.startswith("guppy_object"):
        return "obj"
    return repr(v)


def unpack(ctx: Ctx) -> bool:
    idx = ctx.idx
    up = idx.find_func("unpack_guppy_object", UP)
    key = f"{up.qualname}#frozen-reaches-every-container"
    ps = [a.arg for a in up.node.args.args]
    ty = T_tuple(T_struct(T_array(T_int(), 2), T_int()), T_array(T_tuple(T_array(T_int(), 3)), 1), T_none(), T_array(T_int(), 0), T_array(T_int(), Tok("generic_len", __class__="BoundConstVar")))
    bad = []
    try:
        for frozen in (False, True):
            counter = [0]

            def fresh_wires(k):
                out = []
                for _ in range(k):
                    counter[0] += 1
                    out.append(Tok(f"wire{counter[0]}", __ident__=1))
                return out

            def mk_obj(t, wire):
                o = Tok(f"guppy_object({t.name})", _ty=t, __ident__=1)
                o.attrs["__methods__"] = {"_use_wire": lambda r, a, wire=wire: wire}
                return o

            def h_add_op(recv, a):
                return Tok("unpack_node", __methods__={"outputs": lambda r, x: fresh_wires(8)}, __ident__=1)

            def h_zip(node, e, env):
                seqs = [e.ev(x, env) for x in node.args]
                seqs = [list(s.attrs["__iter__"]) if isinstance(s, Tok) and "__iter__" in s.attrs else list(s) for s in seqs]
                n = min(len(s) for s in seqs)  # the model hands out more wires than needed; strict=True would need the exact count
                return [tuple(s[i] for s in seqs) for i in range(n)]

            builder = Tok("builder", __methods__={"add_op": h_add_op}, __ident__=1)
            hooks = {
                "GuppyObject": lambda node, e, env: mk_obj(e.ev(node.args[0], env), e.ev(node.args[1], env)),
                "GuppyStructObject": lambda node, e, env: Tok("struct_object", ty=e.ev(node.args[0], env), values=e.ev(node.args[1], env),
                                                              frozen=(e.ev(node.args[2], env) if len(node.args) > 2 else next((e.ev(k.value, env) for k in node.keywords if k.arg == "frozen"), False))),
                "frozenlist": lambda node, e, env: Tok("frozenlist", items=e.ev(node.args[0], env)),
                "is_array_type": lambda node, e, env: "__array__" in e.ev(node.args[0], env).attrs,
                "get_array_length": lambda node, e, env: (lambda n: Tok("const_len", __class__="ConstValue", value=n) if isinstance(n, int) else n)(e.ev(node.args[0], env).attrs["__array__"][1]),
                "get_element_type": lambda node, e, env: e.ev(node.args[0], env).attrs["__array__"][0],
                "unpack_array": lambda node, e, env: fresh_wires(_arr_len(e, node, env)),
                "zip": h_zip,
            }
            cur_len: list = []

            def _arr_len(e, node, env):
                return cur_len[-1]

            # unpack_array needs the length of the array being unpacked: taken from the most recent get_array_length call
            def h_len(node, e, env, cur_len=cur_len):
                n = e.ev(node.args[0], env).attrs["__array__"][1]
                cur_len.append(n if isinstance(n, int) else 0)
                return Tok("const_len", __class__="ConstValue", value=n) if isinstance(n, int) else n
            hooks["get_array_length"] = h_len
            ev = PyEval(idx, UP, max_depth=16)
            env = {ps[0]: mk_obj(ty, Tok("root_wire")), ps[1]: builder, ps[2]: frozen, **hooks}
            try:
                out = ev.run_function(up, env)
            except Raised as e:
                bad.append({"frozen": frozen, "problem": f"raises {e.cls or e}"})
                continue
            if out[0] != "return":
                bad.append({"frozen": frozen, "problem": f"{out[0]} {out[1]}"})
                continue
            got, want = _shape(out[1]), _expected(ty, frozen)
            if got != want:
                bad.append({"frozen": frozen, "result": repr(got)[:300], "should_be": repr(want)[:300]})
    except Unsupported as e:
        ctx.undecided("R-C22.2", key, up.where, str(e))
        return False
    ctx.check(not bad, "R-C22.2", key, up.where, {"cases": 2, "type": "tuple(struct(array[2](int), int), array[1](tuple(array[3](int))), none, array[0](int), array[n](int))",
                                                   "counterexamples": bad},
              "nested values of an owned comptime argument are unpacked without the frozen flag and become mutable (or borrowed ones are frozen)")
    return True
