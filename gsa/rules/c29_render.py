"""R-C29.3 (semantic form)  render_diagnostic is total and prints every part, for every shape of diagnostic.

`DiagnosticsRenderer.render_diagnostic` is interpreted from its syntax tree on a family of diagnostics:

  primary span   {none, an AST node}
  label/message  each {absent, present}
  children       0, 1 or 2 sub-diagnostics, each with a span out of {none, an AST node, a single-line Span object, a multi-line
                 Span object, an empty (zero-width) Span object}, a label {absent, present} and a message {absent, present}

The truth value of a `Span` object is taken from the repository's own `Span.__bool__` / `Span.__len__` (interpreted): a
multi-line span has no length (raises), an empty one has length 0.  `wrap` is modelled as the identity on its text (its own
obligations are R-C29.1/.2), `render_snippet` as a recorder that prints its label.

Decided, for every case: the call returns normally; the title (when there is a primary span; else the message or the title),
the primary label, the message, every child's label (when the child has a span and the diagnostic has one) and every child's
message appear in the output; every span that is shown is passed to `render_snippet` exactly once.
"""

from __future__ import annotations

import itertools

from ..absint.minieval import Unsupported
from ..absint.pyeval import PyEval, Raised, Tok
from ..report import Ctx

DG = "guppylang_internals.diagnostic"
SP = "guppylang_internals.span"


def _span_truth(idx, span_cls, tok) -> object:
    """Outcome of bool(<Span object>) according to the repository's Span class: True | False | 'raise:<Class>'."""
    for meth in ("__bool__", "__len__"):
        m = span_cls.find_method(meth)
        if m is None:
            continue
        ev = PyEval(idx, SP, max_depth=6)
        try:
            out = ev.run_function(m, {m.node.args.args[0].arg: tok})
        except Raised as e:
            return f"raise:{e.cls or 'Exception'}"
        if out[0] == "raise":
            return f"raise:{out[1]}"
        if out[0] != "return" or not isinstance(out[1], (bool, int)):
            raise Unsupported(f"Span.{meth} not evaluable")
        return bool(out[1])
    return True


def run(ctx: Ctx) -> bool:
    idx = ctx.idx
    rd = idx.method("DiagnosticsRenderer", "render_diagnostic", DG)
    rcls = rd.cls
    span_cls = idx.find_class("Span", SP)
    key = f"{rd.qualname}#total-and-prints-every-part"
    ps = [a.arg for a in rd.node.args.args]

    def loc(line, col):
        return Tok(f"loc{line}:{col}", file="f.py", line=line, column=col, __str__=f"f.py:{line}:{col}")

    def span_obj(kind, n):
        if kind == "none":
            return None
        if kind == "ast":
            return Tok(f"astnode{n}", __class__="AST", __ident__=1)
        a, b = {"span": (loc(3, 4), loc(3, 9)), "multiline": (loc(3, 4), loc(5, 2)), "empty": (loc(3, 4), loc(3, 4))}[kind]
        t = Tok(f"Span#{kind}{n}", __class__="Span", __classes__=span_cls.mro(), start=a, end=b, __ident__=1)
        t.attrs["__truth__"] = _span_truth(idx, span_cls, t)
        return t

    child_spans = ("none", "ast", "span", "multiline", "empty")
    child_shapes = [(s, l, m) for s in child_spans for l in (False, True) for m in (False, True)]
    second = [("ast", True, True), ("none", False, True), ("multiline", True, False), ("empty", True, True)]
    families = [()] + [(c,) for c in child_shapes] + [(a, b) for a in child_shapes for b in second]
    if ctx.tier == "thorough":
        families = [()] + [(c,) for c in child_shapes] + [(a, b) for a in child_shapes for b in child_shapes]
    bad = []
    n = 0
    try:
        for prim, has_label, has_msg, children in itertools.product(("none", "ast"), (False, True), (False, True), families):
            n += 1
            kids = []
            for i, (s, l, m) in enumerate(children):
                kids.append(Tok(f"child{i}", span=span_obj(s, i), level=Tok("lvl", name="NOTE"), rendered_span_label=f"CHILD{i}LABEL" if l else None,
                                rendered_message=f"CHILD{i}MESSAGE" if m else None, __ident__=1))
            diag = Tok("diag", span=span_obj(prim, 9), level=Tok("lvl", name="ERROR"), rendered_title="THETITLE",
                       rendered_span_label="PRIMARYLABEL" if has_label else None, rendered_message="THEMESSAGE" if has_msg else None, children=kids, __ident__=1)
            buffer: list = []
            snippets: list = []

            def h_snippet(recv, a, buffer=buffer, snippets=snippets):
                snippets.append(a[0])
                buffer.append(f"<snippet {a[0].name} label={a[1]}>")
                return None

            def h_to_span(node, e, env):
                x = e.ev(node.args[0], env)
                if isinstance(x, Tok) and x.attrs.get("__class__") == "Span":
                    return x
                if isinstance(x, Tok):
                    return Tok(f"Span#of-{x.name}", __class__="Span", start=loc(1, 0), end=loc(1, 5), __ident__=1)
                raise Raised("to_span(None)", "AttributeError")

            self_tok = Tok("self", buffer=buffer, __classes__=rcls.mro(), __methods__={"render_snippet": h_snippet}, __ident__=1)
            env = {ps[0]: self_tok, ps[1]: diag, "wrap": lambda node, e, env: [e.ev(node.args[0], env)], "to_span": h_to_span}
            ev = PyEval(idx, DG, max_depth=6)
            case = {"primary_span": prim, "label": has_label, "message": has_msg, "children": [f"span={s} label={l} message={m}" for s, l, m in children]}
            try:
                out = ev.run(rd.node.body, env)
                if out[0] == "raise":
                    raise Raised(str(out[1]), str(out[1]))
            except Raised as e:
                bad.append({**case, "problem": f"rendering raises {e.cls or e}"})
                continue
            text = "\n".join(str(x) for x in buffer)
            want = []
            if prim == "none":
                want.append("THEMESSAGE" if has_msg else "THETITLE")
            else:
                want.append("THETITLE")
                if has_label:
                    want.append("PRIMARYLABEL")
                if has_msg:
                    want.append("THEMESSAGE")
            for i, (s, l, m) in enumerate(children):
                if m:
                    want.append(f"CHILD{i}MESSAGE")
                if l and s != "none" and prim != "none":
                    want.append(f"CHILD{i}LABEL")
            missing = [w for w in want if w not in text]
            shown_twice = [w for w in want if text.count(w) > 1]
            if missing or shown_twice:
                bad.append({**case, "not_printed": missing, "printed_twice": shown_twice})
    except Unsupported as e:
        ctx.undecided("R-C29.3", key, rd.where, str(e))
        return False
    ctx.check(not bad, "R-C29.3", key, rd.where, {"cases": n, "counterexamples": bad[:3], "n_counterexamples": len(bad)},
              "rendering a diagnostic fails, or some label or message of the diagnostic or of a sub-diagnostic is not shown")
    return True
