"""R-C12.5  solutions are threaded through multi-part checks (def-use rule).

"A call to a generic function type-checks exactly when an instantiation of its parameters
makes the arguments fit" needs more than a correct `unify`: when several parts (call
arguments, tuple elements) are checked one after the other and their solutions are merged
(`subst |= s`), the expected type of part i+1 must be taken *under the solutions found for
parts <= i* -- otherwise `same(1, True)` for `same(x: T, y: T)` solves T twice, independently,
and the merge silently keeps the last answer.

Rule: in every loop of the checker that (a) binds `s` from a `….check(part, EXPECTED, …)` call
and (b) merges it into an accumulator `S` (`S |= s` / `S = S | s` / `S.update(s)` / `S = f(S, s)`), the
expression EXPECTED -- after propagating names bound inside the loop body -- must read `S`
(typically `ty.substitute(S)`), or `S` itself must be an argument of the check call.  An
EXPECTED that was computed before the loop (or zipped in from a list computed before the loop)
does not see the solutions of earlier iterations.
"""

from __future__ import annotations

import ast

from ..index import walk_no_nested
from ..report import Ctx

MOD = "guppylang_internals.checker.expr_checker"


def _names(e: ast.AST) -> set[str]:
    return {n.id for n in ast.walk(e) if isinstance(n, ast.Name) and isinstance(n.ctx, ast.Load)}


def run(ctx: Ctx) -> None:
    idx = ctx.idx
    n_sites = 0
    for f in idx.iter_funcs((MOD,)):
        for loop in walk_no_nested(f.node):
            if not isinstance(loop, ast.For):
                continue
            body_nodes = [n for st in loop.body for n in ast.walk(st)]
            # accumulators merged in this loop:  S |= s
            merges: list[tuple[str, str]] = []
            for n in body_nodes:
                if isinstance(n, ast.AugAssign) and isinstance(n.op, ast.BitOr) and isinstance(n.target, ast.Name) and isinstance(n.value, ast.Name):
                    merges.append((n.target.id, n.value.id))
                elif isinstance(n, ast.Assign) and len(n.targets) == 1 and isinstance(n.targets[0], ast.Name) and isinstance(n.value, ast.BinOp) \
                        and isinstance(n.value.op, ast.BitOr) and isinstance(n.value.left, ast.Name) and n.value.left.id == n.targets[0].id and isinstance(n.value.right, ast.Name):
                    merges.append((n.targets[0].id, n.value.right.id))
                elif isinstance(n, ast.Assign) and len(n.targets) == 1 and isinstance(n.targets[0], ast.Name) and n.targets[0].id in _names(n.value):
                    # S = merge(S, s) / S = resolve(S | s): any re-binding of S computed from S and s
                    merges.extend((n.targets[0].id, x) for x in sorted(_names(n.value) - {n.targets[0].id}))
                elif isinstance(n, ast.Call) and isinstance(n.func, ast.Attribute) and n.func.attr == "update" and isinstance(n.func.value, ast.Name) \
                        and len(n.args) == 1 and isinstance(n.args[0], ast.Name):
                    merges.append((n.func.value.id, n.args[0].id))
            if not merges:
                continue
            # names bound inside the loop body by a plain assignment (for propagation)
            inner: dict[str, list[ast.expr]] = {}
            for n in body_nodes:
                if isinstance(n, ast.Assign) and len(n.targets) == 1 and isinstance(n.targets[0], ast.Name):
                    inner.setdefault(n.targets[0].id, []).append(n.value)

            def reads(e: ast.expr, acc: str, depth: int = 0) -> bool:
                ns = _names(e)
                if acc in ns:
                    return True
                return depth < 3 and any(reads(v, acc, depth + 1) for x in ns for v in inner.get(x, ()))

            for n in body_nodes:
                # `part, s = X.check(arg, EXPECTED, ...)`
                if not (isinstance(n, ast.Assign) and isinstance(n.value, ast.Call) and isinstance(n.value.func, ast.Attribute) and n.value.func.attr == "check"
                        and isinstance(n.targets[0], ast.Tuple) and len(n.targets[0].elts) == 2 and isinstance(n.targets[0].elts[1], ast.Name)):
                    continue
                s = n.targets[0].elts[1].id
                accs = [a for a, v in merges if v == s]
                if not accs or len(n.value.args) < 2:
                    continue
                acc = accs[0]
                n_sites += 1
                expected = n.value.args[1]
                ok = reads(expected, acc) or any(reads(a, acc) for a in n.value.args[2:]) or any(reads(k.value, acc) for k in n.value.keywords)
                ctx.check(ok, "R-C12.5", f"{f.qualname}#expected-type-under-accumulated-solutions[{ast.unparse(n.targets[0].elts[0])[:30]}]",
                          f"{f.module.rel}:{n.lineno}", {"check_call": ast.unparse(n.value)[:120], "accumulator": acc, "expected_type_expr": ast.unparse(expected)[:80]},
                          "the expected type of a later part is not taken under the solutions found for earlier parts: type variables shared between "
                          "parameters (or tuple elements) are solved independently and the merge keeps the last one, so an ill-typed generic call is accepted")
    ctx.floor("R-C12.5", "multi-part check loops that merge solutions", n_sites, 3)
    _check_inst(ctx)
    _substituter(ctx)


def _substituter(ctx: Ctx) -> None:
    """R-C12.7  applying a substitution replaces exactly the solved variables.

    The two variable arms of `Substituter` are interpreted: a variable that the substitution solves is replaced
    by its image, any other variable yields None ("not handled here": the generic transformer keeps it and
    descends).  There must be an arm for type variables and one for const variables, and no other arm (every
    other constructor is rebuilt structurally by the generic transformer).
    """
    from ..absint.minieval import Unsupported
    from ..absint.pyeval import PyEval, Raised, Tok

    idx = ctx.idx
    cls = idx.find_class("Substituter", "guppylang_internals.tys.subst")
    arms = {n: f for n, f in cls.methods.items() if n.startswith("_transform_")}
    want = {"_transform_ExistentialTypeVar", "_transform_ExistentialConstVar"}
    ctx.check(set(arms) == want, "R-C12.7", f"{cls.qualname}#arms", cls.where, {"arms": sorted(arms), "expected": sorted(want)},
              "the substituter lacks an arm for a kind of inference variable (it is never replaced) or overrides another constructor")
    for name, f in sorted(arms.items()):
        ps = [a.arg for a in f.node.args.args]
        v1, v2, img = Tok("?A", __class__="ExistentialTypeVar", __ident__=1), Tok("?B", __class__="ExistentialTypeVar", __ident__=1), Tok("image", __class__="NumericType", __ident__=1)
        bad = []
        try:
            for var, subst, expect in ((v1, {v1: img}, img), (v2, {v1: img}, None), (v1, {}, None)):
                out = PyEval(idx, f.module.name).run_function(f, {ps[0]: Tok("self", subst=dict(subst), __ident__=1), ps[1]: var})
                got = out[1] if out[0] in ("return", "fall") else out
                if got is not expect and got != expect:
                    bad.append({"variable": var.name, "solved": [k.name for k in subst], "got": repr(got), "want": repr(expect)})
        except (Unsupported, Raised) as e:
            ctx.undecided("R-C12.7", f"{f.qualname}#image-or-none", f.where, str(e))
            continue
        ctx.check(not bad, "R-C12.7", f"{f.qualname}#image-or-none", f.where, {"cases": 3, "counterexamples": bad},
                  "applying a substitution does not replace a solved variable by its solution (or replaces an unsolved one)")


def _check_inst(ctx: Ctx) -> None:
    """R-C12.6  an inferred/explicit instantiation is validated parameter by parameter, all of them.

    "…type-checks exactly when an instantiation of its parameters makes the arguments fit": a solution found
    by unification is only an instantiation if every argument satisfies its parameter's bound (copyable /
    droppable / const type).  `check_inst` must therefore reach `param.check_arg(arg, …)` (or raise) for
    EVERY parameter: the loop over `zip(func_ty.params, inst)` has no `return`/`break`, and every path through
    its body passes the `check_arg` call.  Who-must-call: every function that turns solved variables into an
    instantiation (`check_call`, `synthesize_call`, `check_type_apply`…) calls `check_inst`.
    """
    from ..flow import CFG, node_calls
    from ..index import call_name, calls_in

    idx = ctx.idx
    f = idx.find_func("check_inst", MOD)
    ctx.saw("functions", f.qualname)
    from . import c12_inst
    sem = c12_inst.run(ctx)  # interpreted on all instantiations of <= 2 type parameters; the loop-shape rule below is its fallback
    loops = [n for n in walk_no_nested(f.node) if isinstance(n, ast.For) and "params" in ast.unparse(n.iter)]
    key = f"{f.qualname}#every-parameter-is-checked"
    if sem:
        pass
    elif len(loops) != 1:
        ctx.undecided("R-C12.6", key, f.where, f"{len(loops)} loops over the parameters")
    else:
        loop = loops[0]
        exits = [type(n).__name__ for st in loop.body for n in ast.walk(st) if isinstance(n, (ast.Return, ast.Break))]
        g = CFG(body=loop.body)
        passes = g.every_path_to_exit_passes(lambda n: any(call_name(c) == "check_arg" for c in node_calls(n)))
        # `continue` ends an iteration without reaching the end of the body: it must come after check_arg too
        conts = [n for st in loop.body for n in ast.walk(st) if isinstance(n, ast.Continue)]
        ctx.check(not exits and passes and not conts, "R-C12.6", key, f"{f.module.rel}:{loop.lineno}",
                  {"early_exits_in_loop": exits, "continue_statements": len(conts), "every_path_calls_check_arg": passes},
                  "validation of an instantiation stops before (or skips) some parameter: a call whose later type argument violates its "
                  "parameter's bound (e.g. a qubit for a copyable T) is accepted although no valid instantiation exists")
    callers = {c.qualname.split(".")[-1] for c in idx.iter_funcs((MOD,)) if any(call_name(x) == "check_inst" for x in calls_in(c.node))}
    need = {"check_call", "synthesize_call"}
    ctx.check(need <= callers, "R-C12.6", f"{MOD}#instantiating-functions-validate", f.where, {"callers_of_check_inst": sorted(callers), "required": sorted(need)},
              "a function that instantiates a generic signature from solved variables does not validate the instantiation")
