"""C15 overloaded calls pick the first applicable variant.

R-C15.1  first-match shape of OverloadedFunctionDef.check_call / synthesize_call: a loop
         over `self.func_ids` itself, in order; every variant is attempted (no
         continue/break/conditional skip); the attempt returns the variant's own
         check_call/synthesize_call result with the caller's arguments; only GuppyError is
         suppressed; the no-match error is raised only after the loop.  The two methods are siblings.
         The decorator `_Guppy.overload` is interpreted on all orderings of 2 and 3 variants (and duplicates): the definition
         it constructs gets exactly the ids of its arguments in argument order (c15_decorator.py).
R-C15.2  attempts do not influence each other:
         (a) no function of the checker/definition packages mutates an argument *list*
             parameter in place or hands it back as its result;
         (b) every attempt gets its own copy of the argument nodes (the checker rewrites and
             annotates nodes in place).
"""

from __future__ import annotations

import ast
import copy

from ..flow import must_raise
from ..index import AnalysisError, call_name, calls_in, dotted, walk_no_nested
from ..report import Ctx

LEVEL = "other"
EXPLANATION = (
    "Shape rules on the two resolution loops (iteration order, no skipped variant, suppressed exception class, returned "
    "value, error only after the loop, sibling agreement), on how the decorator builds the variant list, and a sharing "
    "rule: values passed to successive speculative attempts must not be mutable by the callee chain."
)

OV = "guppylang_internals.definition.overloaded"
MUT = {"append", "extend", "insert", "pop", "remove", "clear", "sort", "reverse", "__setitem__"}


def _shape(f):
    """Normalised loop shape for sibling comparison."""
    n = copy.deepcopy(f.node)
    for x in ast.walk(n):
        if isinstance(x, ast.Attribute) and x.attr in ("check_call", "synthesize_call"):
            x.attr = "CALL"
    loop = next((l for l in n.body if isinstance(l, ast.For)), None)
    return ast.dump(loop, annotate_fields=False) if loop is not None else ""


def run(ctx: Ctx) -> None:
    idx = ctx.idx
    ov = idx.find_class("OverloadedFunctionDef", OV)
    ctx.saw("classes", ov.qualname)
    # decided by interpretation where possible (robust against helpers, generators, try/except, renamed locals); the lexical
    # rules on the loop's shape below are the fallback when a method is not evaluable
    from . import c15_semantic
    semantic = c15_semantic.run(ctx)
    shape_check = (lambda *a, **k: True) if semantic else ctx.check
    shapes = {}
    for meth in ("check_call", "synthesize_call"):
        f = ov.methods.get(meth)
        if f is None:
            raise AnalysisError(f"OverloadedFunctionDef.{meth} vanished")
        ctx.saw("functions", f.qualname)
        params = [a.arg for a in f.node.args.args][1:]
        loops = [n for n in f.node.body if isinstance(n, ast.For)]
        key = f"{f.qualname}#first-match-loop"
        if len(loops) != 1:
            if not semantic:
                ctx.violation("R-C15.1", key, f.where, {"top_level_for_loops": len(loops)}, "variants are not tried in one pass over the variant list")
            copied_any = any(call_name(c) in ("deepcopy", "copy") for c in ast.walk(f.node) if isinstance(c, ast.Call))
            ctx.check(copied_any, "R-C15.2", f"{f.qualname}#args-shared-across-attempts", f.where, {"copied_per_attempt": copied_any},
                      "a rejected variant leaves the argument nodes partially rewritten / type-annotated; a later variant is then checked "
                      "against different arguments than a direct call would see")
            continue
        loop = loops[0]
        facts: dict = {"iterates": ast.unparse(loop.iter)}
        ok_iter = ast.unparse(loop.iter) == "self.func_ids"
        # an "attempt" is the variant's call with rejections (and only those) caught:
        #   with suppress(E): return CALL          or          try: return CALL / except E: pass|continue
        attempts = []  # (statement, caught exception names, body)
        for st in loop.body:
            if isinstance(st, ast.With):
                sup = [it.context_expr for it in st.items if isinstance(it.context_expr, ast.Call) and call_name(it.context_expr) == "suppress"]
                if sup and len(sup) == len(st.items):
                    attempts.append((st, [dotted(a) for s_ in sup for a in s_.args], st.body))
            elif isinstance(st, ast.Try) and not st.orelse and not st.finalbody and st.handlers \
                    and all(len(h.body) == 1 and isinstance(h.body[0], (ast.Pass, ast.Continue)) for h in st.handlers):
                exc = []
                for h in st.handlers:
                    exc += [dotted(e) for e in (h.type.elts if isinstance(h.type, ast.Tuple) else [h.type])] if h.type is not None else ["BaseException(bare except)"]
                attempts.append((st, exc, st.body))
        attempt_stmts = {id(a[0]) for a in attempts}
        skips = [f"{type(n).__name__}@{n.lineno}" for st in loop.body if id(st) not in attempt_stmts for n in walk_no_nested(st) if isinstance(n, (ast.Continue, ast.Break))]
        skips += [f"{type(n).__name__}@{n.lineno}" for a in attempts for b in a[2] for n in walk_no_nested(b) if isinstance(n, (ast.Continue, ast.Break))]
        withs = [a[0] for a in attempts]
        nested_withs = [n for st in loop.body if id(st) not in attempt_stmts for n in walk_no_nested(st) if isinstance(n, (ast.With, ast.Try))]
        facts.update({"skips": skips, "attempt_blocks": len(withs), "conditional_attempt_blocks": len(nested_withs)})
        ok_attempt = False
        for w, exc, body in attempts:
            rets = [s_ for s_ in body if isinstance(s_, ast.Return)]
            facts.update({"suppresses": exc})
            if exc == ["GuppyError"] and len(body) == 1 and rets and isinstance(rets[0].value, ast.Call):
                c = rets[0].value
                recv = dotted(c.func.value) if isinstance(c.func, ast.Attribute) else ""
                passed = [dotted(a) for a in c.args]
                facts.update({"returns": ast.unparse(c), "receiver": recv})
                # receiver is the definition looked up from the loop variable
                lv = dotted(loop.target)
                recv_def = [n for n in loop.body if isinstance(n, ast.Assign) and dotted(n.targets[0]) == recv]
                from_loop_var = bool(recv_def) and lv in {x.id for x in ast.walk(recv_def[0].value) if isinstance(x, ast.Name)}
                facts["receiver_from_loop_variable"] = from_loop_var
                ok_attempt = (c.func.attr == meth and passed == params and from_loop_var and not c.keywords)
        after = f.node.body[f.node.body.index(loop) + 1:]
        err_after = bool(after) and (must_raise(after) or (isinstance(after[-1], ast.Return) and isinstance(after[-1].value, ast.Call) and call_name(after[-1].value) == "_call_error"))
        err_in_loop = any(isinstance(n, ast.Raise) or (isinstance(n, ast.Call) and call_name(n) == "_call_error") for st in loop.body for n in walk_no_nested(st))
        facts.update({"error_after_loop": err_after, "error_inside_loop": err_in_loop, "has_else": bool(loop.orelse)})
        shape_check(ok_iter and not skips and len(withs) == 1 and not nested_withs and ok_attempt and err_after and not err_in_loop and not loop.orelse,
                  "R-C15.1", key, f.where, facts,
                  "a call to an overloaded function does not resolve to the first listed variant that accepts it (variants reordered, skipped, "
                  "tried with other arguments, failures of other kinds swallowed, or rejected before all were tried)")
        shapes[meth] = (ok_iter, tuple(skips), len(withs), len(nested_withs), ok_attempt, err_after, err_in_loop, bool(loop.orelse), tuple(facts.get("suppresses", [])))
        # (b) each attempt must get its own argument nodes
        shared = ok_attempt and "args" in params
        copied = any(call_name(c) in ("deepcopy", "copy") for st in loop.body for c in ast.walk(st) if isinstance(c, ast.Call))
        ctx.check(copied, "R-C15.2", f"{f.qualname}#args-shared-across-attempts", f.where,
                  {"argument_passed": "the same `args` list and node objects for every variant", "copied_per_attempt": copied,
                   "why_it_matters": "ExprChecker/ExprSynthesizer rewrite children in place (node.elts[i] = ...) and annotate types on nodes (with_type) before a variant is rejected"},
                  "a rejected variant leaves the argument nodes partially rewritten / type-annotated; a later variant is then checked "
                  "against different arguments than a direct call would see")
    ce = ov.methods.get("_call_error")
    shape_check(ce is not None and must_raise([s for s in ce.node.body if not (isinstance(s, ast.Expr) and isinstance(s.value, ast.Constant))]) , "R-C15.1",
              f"{ov.qualname}._call_error#raises", ce.where if ce else ov.where, {}, "the no-match path does not reject the call")
    if len(shapes) == 2:
        shape_check(shapes["check_call"] == shapes["synthesize_call"], "R-C15.1", f"{ov.qualname}#siblings-agree", ov.where, {},
                  "checking and synthesis position resolve overloads differently")

    # decorator builds the list in argument order
    dec = idx.method("_Guppy", "overload", "guppylang.decorator")
    ctx.saw("functions", dec.qualname)
    from . import c15_decorator
    if not c15_decorator.run(ctx):
        # fallback: the shape of the loop that fills func_ids
        loops = [n for n in walk_no_nested(dec.node) if isinstance(n, ast.For)]
        ok = False
        facts = {}
        for l in loops:
            apps = [c for st in l.body for c in ast.walk(st) if isinstance(c, ast.Call) and call_name(c) == "append" and dotted(c.func.value) == "func_ids"]
            if apps:
                src = ast.unparse(l.iter)
                facts = {"iterates": src, "appends": [ast.unparse(a) for a in apps]}
                ok = src in ("funcs", "list(funcs)") and len(apps) == 1 and ast.unparse(apps[0].args[0]) == f"{dotted(l.target)}.id"
        rebinds = [ast.unparse(n) for n in walk_no_nested(dec.node) if isinstance(n, ast.Assign) and dotted(n.targets[0]) in ("funcs", "func_ids")
                   and not (isinstance(n.value, ast.List) and not n.value.elts) and ast.unparse(n.value) not in ("list(funcs)",)]
        mutated = [ast.unparse(c) for c in calls_in(dec.node, nested=True) if call_name(c) in ("sort", "reverse") or (call_name(c) in ("sorted", "reversed", "set") and c.args and dotted(c.args[0]) in ("funcs", "func_ids"))]
        passes = any(call_name(c) == "OverloadedFunctionDef" and any(dotted(a) == "func_ids" for a in c.args) for c in calls_in(dec.node, nested=True))
        facts.update({"reorderings": rebinds + mutated, "passed_to_definition": passes})
        ctx.check(ok and not rebinds and not mutated and passes, "R-C15.1", f"{dec.qualname}#variants-in-argument-order", dec.where, facts,
                  "the order of variants in the definition is not the order given to @guppy.overload")

    # ------------------------------------------------------------ R-C15.2 (a)
    n_funcs = 0
    offenders = []
    notes = []
    for f in idx.iter_funcs(("guppylang_internals.checker", "guppylang_internals.definition", "guppylang_internals.std._internal.checker")):
        list_params = [a.arg for a in f.node.args.args if a.annotation is not None and ast.unparse(a.annotation).replace(" ", "") in
                       ("list[ast.expr]", "Sequence[ast.expr]", "list[ast.AST]")]
        if not list_params:
            continue
        n_funcs += 1
        for n in walk_no_nested(f.node):
            tg = []
            if isinstance(n, ast.Assign):
                tg = n.targets
            elif isinstance(n, ast.AugAssign):
                tg = [n.target]
            for t in tg:
                for tt in (t.elts if isinstance(t, ast.Tuple) else [t]):
                    if isinstance(tt, ast.Subscript) and dotted(tt.value) in list_params:
                        offenders.append(f"{f.qualname}:{n.lineno}: {ast.unparse(tt)} = ...")
                    if isinstance(n, ast.AugAssign) and dotted(tt) in list_params:
                        offenders.append(f"{f.qualname}:{n.lineno}: {ast.unparse(n)[:40]}")
            if isinstance(n, ast.Call) and isinstance(n.func, ast.Attribute) and n.func.attr in MUT and dotted(n.func.value) in list_params:
                offenders.append(f"{f.qualname}:{n.lineno}: {ast.unparse(n)[:50]}")
            if isinstance(n, ast.Return) and n.value is not None:
                vals = n.value.elts if isinstance(n.value, ast.Tuple) else [n.value]
                for v in vals:
                    if dotted(v) in list_params and f.name in ("type_check_args",):
                        offenders.append(f"{f.qualname}:{n.lineno}: returns its argument list `{dotted(v)}`")
    # custom call checkers of builtins (array(...), .copy()) rewrite their own argument list; they are reached only for
    # those builtins, which cannot be listed as overload variants together with a later alternative -> reported as a note
    notes = [o for o in offenders if ".std._internal.checker." in o]
    offenders = [o for o in offenders if o not in notes]
    if notes:
        ctx.note(f"custom call checkers that rewrite their argument list in place (not on an overload path): {notes}")
    ctx.floor("R-C15.2", "functions taking an argument list", n_funcs, 15)
    ctx.check(not offenders, "R-C15.2", "argument-lists-not-mutated-in-place", "guppylang_internals/checker/**, definition/**",
              {"functions_scanned": n_funcs, "offenders": offenders[:8]},
              "a callee writes checked (possibly coerced) arguments back into the caller's list; overload resolution passes the same list "
              "to the next variant, which then sees the previous variant's rewrites")
