"""R-C17.3 (positions)  every expression of a comprehension goes through the desugaring that folds negative literals.

`-9223372036854775808` is accepted only because `ExprBuilder.visit_UnaryOp` folds the negated literal into one constant (and
`comptime(n)` only because `ExprBuilder.visit_Call` recognises it) BEFORE the checker sees the expression.  `desugar_comprehension`
is interpreted on a comprehension with one generator `for t in ITER if GUARD` and element ELT; the expression builder is a
recorder.  Decided: ITER, GUARD and ELT are each handed to the builder's `visit`, and the desugared generator / returned element
carry the built expressions, not the raw ones.
"""

from __future__ import annotations

from ..absint.minieval import Unsupported
from ..absint.pyeval import PyEval, Raised, Tok
from ..report import Ctx
from .C05 import mk_ast

B = "guppylang_internals.cfg.builder"


def interpret(idx, is_async: int = 0):
    """Interprets `desugar_comprehension` on `[ELT for t in ITER if GUARD]`; returns (outcome, visited, generators made, tokens)."""
    f = idx.find_func("desugar_comprehension", B)
    ps = [a.arg for a in f.node.args.args]
    it, guard, elt = (mk_ast("Operand", nm, __ident__=True, _fields=()) for nm in ("ITER", "GUARD", "ELT"))
    gen = Tok("generator", __class__="comprehension", target=mk_ast("Name", "t", id="t", __ident__=True), iter=it, ifs=[guard], is_async=is_async, __ident__=1)
    node = mk_ast("ListComp", "comp", elt=elt, generators=[gen], __ident__=True)
    visited: list = []

    def m_visit(r, a):
        visited.append(a[0])
        return Tok(f"built({a[0].name})", __class__="Name", raw=a[0], __ident__=1)

    made: list = []

    def h_gen(nd, e, env):
        kw = {k.arg: e.ev(k.value, env) for k in nd.keywords if k.arg}
        t = Tok("desugared_generator", **kw)
        made.append(t)
        return t

    env = {ps[0]: [gen], ps[1]: elt, ps[2]: node, "find_nodes": lambda nd, e, env: [], "CFG": lambda nd, e, env: Tok("dummy_cfg", entry_bb=Tok("bb")),
           "ExprBuilder": lambda nd, e, env: Tok("expr_builder", __methods__={"visit": m_visit}, __ident__=1),
           "make_var": lambda nd, e, env: Tok("it_var", __class__="Name", __ident__=1), "next": lambda nd, e, env: "%tmp", "make_assign": lambda nd, e, env: Tok("assign"),
           "with_loc": lambda nd, e, env: e.ev(nd.args[1], env), "MakeIter": lambda nd, e, env: Tok("make_iter"), "IterNext": lambda nd, e, env: Tok("iter_next"),
           "DesugaredGenerator": h_gen, "UnsupportedError": lambda nd, e, env: Tok("UnsupportedError")}
    try:
        out = PyEval(idx, B, max_depth=4).run(f.node.body, env)
    except Raised as e:
        out = ("raise", e.cls or str(e))
    return out, visited, made, (gen, it, guard, elt)


def run(ctx: Ctx) -> bool:
    idx = ctx.idx
    f = idx.find_func("desugar_comprehension", B)
    key = f"{f.qualname}#iterator-guard-and-element-are-desugared"
    try:
        out, visited, made, (gen, it, guard, elt) = interpret(idx)
    except Unsupported as e:
        ctx.undecided("R-C17.3", key, f.where, str(e))
        return False
    if out[0] == "raise":
        ctx.undecided("R-C17.3", key, f.where, f"raises {out[1]}")
        return False
    if out[0] != "return" or not made:
        ctx.undecided("R-C17.3", key, f.where, f"unexpected outcome {out!r}"[:100])
        return False
    raw_left = []
    ifs = made[0].attrs.get("ifs")
    if any(x is guard for x in (ifs if isinstance(ifs, list) else [ifs])):
        raw_left.append("GUARD")
    ret = out[1]
    if isinstance(ret, tuple) and len(ret) == 2 and ret[1] is elt:
        raw_left.append("ELT")
    if gen.attrs.get("iter") is it:
        raw_left.append("ITER")
    not_visited = [x.name for x in (it, guard, elt) if not any(v is x for v in visited)]
    ctx.check(not not_visited and not raw_left, "R-C17.3", key, f.where, {"handed_to_the_expression_builder": [v.name for v in visited], "raw_expressions_left_in_the_result": raw_left},
              "an expression of a comprehension is copied into the desugared form without going through the expression builder: in that position "
              "`-9223372036854775808` is rejected with IntOverflowError and `comptime(n)` with '`comptime` is not defined'")
    return True
