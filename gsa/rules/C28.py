"""C28 emulator configurations are immutable -- immutability clause.

R-C28.1  no method of the configuration classes mutates an object that an earlier
         configuration (or the caller) can also reach: mutation targets must be *fresh*
         objects (constructed, copied or `replace`d in the same method), tracked with a
         small ownership/alias analysis (dataclasses.replace and copy.copy are shallow).
R-C28.2  the configuration classes are frozen dataclasses; every with_* / *_sim method of the instance and every with_* method
         of the builder is interpreted on identity-carrying tokens (replace / copy.copy by contract), from an unseeded and from
         a seeded configuration: the result is a new object, the original configuration, everything it shares and the object
         the caller passed in are unchanged, with_seed and *_sim give the result its own simulator (c28_derive.py; the
         `replace(self, …)` shapes only as fallback).
R-C28.3  run() hands the configured seed to the backend and only reads options.
Not decided: reproducibility of the simulator backends themselves.
"""

from __future__ import annotations

import ast

from ..index import AnalysisError, ClassInfo, FuncInfo, call_name, calls_in, dotted, walk_no_nested
from ..report import Ctx

LEVEL = "other"
EXPLANATION = (
    "Ownership/alias analysis inside each method of EmulatorInstance, _Options and EmulatorBuilder: every store "
    "through an attribute/subscript, every mutating container method and setattr must hit an object created in the "
    "same method (constructor, copy.copy/deepcopy, dataclasses.replace -- with shallow-copy depth tracked), never "
    "something reachable from self or from a parameter. Plus frozen-dataclass and pure-derivation shape rules."
)

MUTATORS = {"append", "extend", "insert", "pop", "remove", "clear", "update", "add", "discard", "setdefault", "sort", "reverse", "popitem", "__setitem__", "__delitem__"}
INF = 99


def origins(f: FuncInfo) -> dict[str, int]:
    """local name -> freshness depth (0 = shared with self/caller; d>=1 = the object and d-1 levels
    below it are private to this call)."""
    org: dict[str, int] = {}
    for a in f.node.args.posonlyargs + f.node.args.args + f.node.args.kwonlyargs:
        org[a.arg] = 0
    if f.node.args.vararg:
        org[f.node.args.vararg.arg] = 0
    if f.node.args.kwarg:
        org[f.node.args.kwarg.arg] = 0

    def depth_of(e: ast.AST) -> int:
        if isinstance(e, ast.Name):
            return org.get(e.id, 0)
        if isinstance(e, ast.Attribute):
            return max(0, depth_of(e.value) - 1) if depth_of(e.value) < INF else INF
        if isinstance(e, ast.Subscript):
            return max(0, depth_of(e.value) - 1) if depth_of(e.value) < INF else INF
        if isinstance(e, ast.Call):
            n = dotted(e.func)
            last = n.split(".")[-1]
            if last == "deepcopy":
                return INF
            if last in ("copy",) and (n.startswith("copy.") or n == "copy") and e.args:
                return 1
            if isinstance(e.func, ast.Attribute) and e.func.attr == "copy" and not e.args:
                return 1  # x.copy(): shallow
            if last == "replace" and e.args:
                return 1
            if last in ("dict", "list", "set", "tuple", "frozenset"):
                return 1
            if last[:1].isupper() and isinstance(e.func, ast.Name):
                # constructor: fresh object; its fields alias the arguments unless there are none
                return INF if not e.args and not e.keywords else 1
            return 0
        if isinstance(e, (ast.Dict, ast.List, ast.Set, ast.ListComp, ast.DictComp, ast.SetComp, ast.Tuple)):
            return 1
        if isinstance(e, ast.BinOp) and isinstance(e.op, ast.BitOr):
            return 1  # d1 | d2 builds a new dict/set
        if isinstance(e, ast.Constant):
            return INF
        return 0

    for _ in range(3):
        for n in walk_no_nested(f.node):
            if isinstance(n, ast.Assign) and len(n.targets) == 1 and isinstance(n.targets[0], ast.Name):
                d = depth_of(n.value)
                nm = n.targets[0].id
                org[nm] = min(org[nm], d) if nm in org and _ > 0 else d
            elif isinstance(n, ast.AnnAssign) and isinstance(n.target, ast.Name) and n.value is not None:
                org[n.target.id] = depth_of(n.value)
    org["<depth_of>"] = depth_of  # type: ignore[assignment]
    return org


def mutations(f: FuncInfo) -> list[tuple[ast.AST, ast.AST, str]]:
    """(statement, object expression being mutated, how)"""
    out = []
    for n in walk_no_nested(f.node):
        tgts: list[ast.AST] = []
        if isinstance(n, ast.Assign):
            tgts = list(n.targets)
        elif isinstance(n, (ast.AugAssign, ast.AnnAssign)):
            tgts = [n.target]
        elif isinstance(n, ast.Delete):
            tgts = list(n.targets)
        for t in tgts:
            for tt in (t.elts if isinstance(t, (ast.Tuple, ast.List)) else [t]):
                if isinstance(tt, (ast.Attribute, ast.Subscript)):
                    out.append((n, tt.value, "store"))
        if isinstance(n, ast.Call):
            if isinstance(n.func, ast.Attribute) and n.func.attr in MUTATORS:
                out.append((n, n.func.value, f".{n.func.attr}()"))
            nm = dotted(n.func)
            if nm in ("setattr", "object.__setattr__", "delattr") and n.args:
                out.append((n, n.args[0], nm))
    return out


def run(ctx: Ctx) -> None:
    idx = ctx.idx
    inst = idx.find_class("EmulatorInstance", "guppylang.emulator.instance")
    opts = idx.find_class("_Options", "guppylang.emulator.instance")
    bld = idx.find_class("EmulatorBuilder", "guppylang.emulator.builder")
    classes = [inst, opts, bld]

    # ------------------------------------------------------------ R-C28.2 frozen dataclasses
    for c in classes:
        fz = c.dataclass_kw("frozen")
        ctx.check(c.is_dataclass() and isinstance(fz, ast.Constant) and fz.value is True, "R-C28.2", f"{c.qualname}#frozen", c.where,
                  {"dataclass": c.is_dataclass(), "frozen": ast.unparse(fz) if fz is not None else None},
                  "a configuration object can be changed after it was handed out")

    # ------------------------------------------------------------ R-C28.1 no mutation of shared objects
    n_meth = 0
    n_mut = 0
    for c in classes:
        for name, f in sorted(c.methods.items()):
            n_meth += 1
            ctx.saw("functions", f.qualname)
            org = origins(f)
            depth_of = org.pop("<depth_of>")
            muts = mutations(f)
            if not muts:
                ctx.ok("R-C28.1", f"{f.qualname}#no-mutation", f.where, {"mutations": 0})
                continue
            for i, (st, obj, how) in enumerate(muts):
                n_mut += 1
                d = depth_of(obj)
                ctx.check(d >= 1, "R-C28.1", f"{f.qualname}#mutates-only-fresh-objects[{ast.unparse(obj)}]", f"{f.module.rel}:{st.lineno}",
                          {"mutation": ast.unparse(st)[:90], "object": ast.unparse(obj), "how": how, "freshness_depth": d,
                           "locals": {k: v for k, v in org.items() if k not in ("self",)}},
                          f"`{ast.unparse(obj)}` is reachable from an existing configuration (or is the caller's object): "
                          f"deriving a new configuration changes the behaviour of one derived earlier")
    ctx.floor("R-C28.1", "configuration-class methods analysed", n_meth, 40)

    # ------------------------------------------------------------ R-C28.2 pure derivations
    from . import c28_derive
    sem = c28_derive.run(ctx, inst, bld)
    derive = [(n, f) for n, f in sorted(inst.methods.items()) if n.startswith("with_") or n.endswith("_sim")]
    ctx.floor("R-C28.2", "derivation methods", len(derive), 16)
    if not sem:
        # fallback (some method not interpretable): derivations are syntactically `replace(self, …)` / `self._with_option(…)`
        wo = inst.methods.get("_with_option")
        if wo is None:
            raise AnalysisError("EmulatorInstance._with_option vanished")
        rets = [r.value for r in walk_no_nested(wo.node) if isinstance(r, ast.Return)]
        single: dict[str, list] = {}
        for n in walk_no_nested(wo.node):
            if isinstance(n, ast.Assign) and len(n.targets) == 1 and isinstance(n.targets[0], ast.Name):
                single.setdefault(n.targets[0].id, []).append(n.value)

        def through_local(e):
            # a local bound exactly once stands for its value (`new_options = replace(...)` ... `_options=new_options`)
            while isinstance(e, ast.Name) and len(single.get(e.id, ())) == 1:
                e = single[e.id][0]
            return e

        ret0 = through_local(rets[0]) if len(rets) == 1 else None
        ok = isinstance(ret0, ast.Call) and call_name(ret0) == "replace" and bool(ret0.args) and dotted(ret0.args[0]) == "self" \
            and any(k.arg == "_options" and isinstance(through_local(k.value), ast.Call) and call_name(through_local(k.value)) == "replace"
                    and ast.unparse(through_local(k.value).args[0]) == "self._options" for k in ret0.keywords)
        ctx.check(ok, "R-C28.2", f"{wo.qualname}#pure-replace", wo.where, {"returns": [ast.unparse(r) for r in rets if r is not None]},
                  "_with_option does not build a new configuration from a new options object")
        for name, f in derive:
            rets = [r.value for r in walk_no_nested(f.node) if isinstance(r, ast.Return)]
            locs = origins(f)
            depth_of = locs.pop("<depth_of>")

            def is_new_config(v: ast.AST | None) -> bool:
                if v is None:
                    return False
                if isinstance(v, ast.Name) and v.id != "self":
                    return locs.get(v.id, 0) >= 1
                if isinstance(v, ast.Call):
                    n = call_name(v)
                    if n == "replace" and v.args and dotted(v.args[0]) == "self":
                        return True
                    if isinstance(v.func, ast.Attribute) and dotted(v.func.value) == "self" and (n == "_with_option" or n.startswith("with_")):
                        return True
                return False
            ctx.check(bool(rets) and all(is_new_config(v) for v in rets), "R-C28.2", f"{f.qualname}#returns-new-configuration", f.where,
                      {"returns": [ast.unparse(v) if v is not None else None for v in rets]},
                      f"`{name}` can return the configuration it was called on (or something not derived by replace): later derivations act on "
                      f"the shared object")
            if name.endswith("_sim"):
                fresh = [c for c in calls_in(f.node) if call_name(c) == "with_simulator" and c.args and isinstance(c.args[0], ast.Call)
                         and isinstance(c.args[0].func, ast.Name) and c.args[0].func.id[:1].isupper()]
                ctx.check(len(fresh) == len(rets) and bool(fresh), "R-C28.2", f"{f.qualname}#fresh-simulator", f.where,
                          {"constructs": [ast.unparse(c.args[0]) for c in fresh]},
                          f"`{name}` does not install a freshly constructed simulator")
        # builder: with_* returns replace(self, ...) ; dict-valued options rebuilt
        bderive = [(n, f) for n, f in sorted(bld.methods.items()) if n.startswith("with_")]
        ctx.floor("R-C28.2", "builder derivation methods", len(bderive), 3)
        for name, f in bderive:
            rets = [r.value for r in walk_no_nested(f.node) if isinstance(r, ast.Return)]
            ok = bool(rets) and all(isinstance(v, ast.Call) and ((call_name(v) == "replace" and v.args and dotted(v.args[0]) == "self")
                                                                  or (isinstance(v.func, ast.Attribute) and dotted(v.func.value) == "self")) for v in rets)
            ctx.check(ok, "R-C28.2", f"{f.qualname}#returns-new-builder", f.where, {"returns": [ast.unparse(v) if v is not None else None for v in rets]},
                      f"builder method `{name}` does not return a new builder")
    # accessors handing out internal mutable containers must copy
    for name, f in sorted(bld.methods.items()):
        if "property" not in f.decorator_names():
            continue
        for r in walk_no_nested(f.node):
            if isinstance(r, ast.Return) and r.value is not None:
                ann = ast.unparse(f.node.returns) if f.node.returns is not None else ""
                if ann.startswith(("dict", "list", "set")):
                    v = r.value

                    def is_copy(x: ast.AST) -> bool:
                        if isinstance(x, ast.IfExp):
                            return is_copy(x.body) and is_copy(x.orelse)
                        if isinstance(x, ast.Constant) and x.value is None:
                            return True
                        return (isinstance(x, ast.Call) and call_name(x) in ("copy", "dict", "list", "set", "deepcopy")) \
                            or isinstance(x, (ast.Dict, ast.List, ast.DictComp))
                    copies = is_copy(v)
                    ctx.check(bool(copies), "R-C28.2", f"{f.qualname}#hands-out-copy", f.where, {"returns": ast.unparse(v), "annotation": ann},
                              "a mutable container of the builder is handed out by reference: the caller can change every builder sharing it")

    # ------------------------------------------------------------ R-C28.3 run passes the seed, reads options only
    ri = inst.methods.get("_run_instance")
    if ri is None:
        raise AnalysisError("EmulatorInstance._run_instance vanished")
    if not c28_derive.run_plumbing(ctx, inst):
        # fallback (not interpretable): the run_shots call names `self.seed` / `self.simulator` literally
        seed_ok = any(k.arg == "random_seed" and ast.unparse(k.value) in ("self.seed", "self._options._seed")
                      for c in calls_in(ri.node) if call_name(c) == "run_shots" for k in c.keywords)
        sim_ok = any(k.arg == "simulator" and ast.unparse(k.value) in ("self.simulator", "self._options._simulator")
                     for c in calls_in(ri.node) if call_name(c) == "run_shots" for k in c.keywords)
        ctx.check(seed_ok and sim_ok, "R-C28.3", f"{ri.qualname}#passes-configured-seed-and-simulator", ri.where, {"random_seed": seed_ok, "simulator": sim_ok},
                  "running does not use the configuration's own seed/simulator")
    sp = inst.methods.get("seed")
    ok = sp is not None and "property" in sp.decorator_names() and any(isinstance(r, ast.Return) and ast.unparse(r.value) == "self._options._seed" for r in walk_no_nested(sp.node))
    ctx.check(ok, "R-C28.3", f"{inst.qualname}.seed#reads-own-option", sp.where if sp else inst.where, {}, "the seed accessor does not return this configuration's seed")
