"""R-C33.1 / R-C33.3 (semantic form)  the gate functions and the enable/disable switches, interpreted.

The module `experimental.py` is interpreted from its syntax trees with the module global EXPERIMENTAL_FEATURES_ENABLED
kept as real, shared state (`global` declarations honoured, helper functions and base classes followed).

gates      every `check_*_enabled` function, called with the flag False and with the flag True (set *after* the module
           was loaded, so a value captured at definition time shows): raises a GuppyError iff the flag is False.
protocol   for the two public switch classes, every scenario  initial flag {False, True}  x  outer switch {enable,
           disable}  x  inside the block {nothing, a nested `with` of either switch, a plain call of either switch}  x  how each
           block is left {normally, by an exception}:
             after construction the flag is the switch's setting; `__enter__` does not change it; after the inner
             `__exit__` it is the outer switch's setting again; after the outer `__exit__` it is the initial value;
             `__exit__` returns a false value (the exception propagates).
"""

from __future__ import annotations

import ast
import itertools

from ..absint.minieval import Unsupported
from ..absint.pyeval import PyEval, Raised, Tok
from ..report import Ctx

FLAG = "EXPERIMENTAL_FEATURES_ENABLED"
EXP = "guppylang_internals.experimental"
SWITCHES = {"enable_experimental_features": True, "disable_experimental_features": False}


def _ev(idx, flag: bool) -> PyEval:
    ev = PyEval(idx, EXP, max_depth=8)
    ev.__dict__["_modconst"] = {FLAG: flag}
    return ev


def _stmts(src: str) -> list[ast.stmt]:
    return ast.parse(src).body


def gates(ctx: Ctx, gate_funcs: list) -> bool:
    idx = ctx.idx
    decided = True
    for f in gate_funcs:
        key = f"{f.qualname}#raises-iff-disabled"
        params = [a.arg for a in f.node.args.posonlyargs + f.node.args.args]
        res = {}
        und = None
        for flag in (False, True):
            ev = _ev(idx, flag)
            ev.lenient = True
            env = {p: Tok(p, __ident__=1) for p in params[:1]}  # the location; further parameters keep their defaults
            defaults = f.node.args.defaults
            for p, d in zip(params[len(params) - len(defaults):], defaults):
                if p not in env:
                    try:
                        env[p] = ev.ev(d, {})
                    except Unsupported:
                        env[p] = Tok(p)
            try:
                out = ev.run(f.node.body, env)
                res[flag] = ("raises " + str(out[1])) if out[0] == "raise" else "returns"
            except Raised as e:
                res[flag] = "raises " + (e.cls or str(e))
            except Unsupported as e:
                und = f"flag={flag}: {e}"
                break
        if und:
            ctx.undecided("R-C33.1", key, f.where, und)
            decided = False
            continue
        ok = res[True] == "returns" and res[False].startswith("raises") and "GuppyError" in res[False]
        ctx.check(ok, "R-C33.1", key, f.where, {"flag_False": res[False], "flag_True": res[True]},
                  f"`{f.name}` does not reject exactly when experimental features are disabled at check time")
    return decided


def protocol(ctx: Ctx) -> bool | None:
    idx = ctx.idx
    classes = {}
    for name in SWITCHES:
        c = idx.classes.get(f"{EXP}.{name}")
        if c is None:
            return None
        classes[name] = c
    key = f"{EXP}#switches-set-and-restore"
    where = idx.module(EXP).rel
    bad = []
    n = 0
    exc = (Tok("exc_type", __ident__=1), Tok("exc", __ident__=1), Tok("tb", __ident__=1))
    inner_modes = [(None, "-")] + [(nm, how) for nm in SWITCHES for how in ("with", "plain call")]
    for initial, outer, (inner, how), outer_exc, inner_exc in itertools.product((False, True), SWITCHES, inner_modes, (False, True), (False, True)):
        if how != "with" and inner_exc:
            continue
        n += 1
        ev = _ev(idx, initial)
        state = ev.__dict__["_modconst"]
        trace = []

        def step(src, env, what, expect, ev=ev, state=state, trace=trace):
            out = ev.run(_stmts(src), env)
            if out[0] == "raise":
                raise Raised(f"{what} raises {out[1]}", str(out[1]))
            trace.append((what, state.get(FLAG)))
            return state.get(FLAG) is expect

        try:
            o = Tok("outer", __classes__=classes[outer].mro(), __ident__=1)
            env = {"o": o, "et": exc[0], "ev_": exc[1], "tb": exc[2]}
            ok = step("o.__init__()", env, f"{outer}()", SWITCHES[outer])
            ok &= step("o.__enter__()", env, "outer __enter__", SWITCHES[outer])
            if inner is not None:
                i = Tok("inner", __classes__=classes[inner].mro(), __ident__=1)
                env["i"] = i
                ok &= step("i.__init__()", env, f"{inner}()", SWITCHES[inner])
                if how == "with":
                    ok &= step("i.__enter__()", env, "inner __enter__", SWITCHES[inner])
                    ok &= step("ri = i.__exit__(et, ev_, tb)" if inner_exc else "ri = i.__exit__(None, None, None)", env, "inner __exit__", SWITCHES[outer])
                    ok &= not env.get("ri")
            ok &= step("ro = o.__exit__(et, ev_, tb)" if outer_exc else "ro = o.__exit__(None, None, None)", env, "outer __exit__", initial)
            ok &= not env.get("ro")
        except Unsupported as e:
            ctx.undecided("R-C33.3", key, where, f"{outer}/{inner}: {e}")
            return False
        except Raised as e:
            ok = False
            trace.append((str(e), None))
        if not ok:
            bad.append({"initial": initial, "outer": outer, "inner": f"{inner} ({how})" if inner else None, "outer_left_by_exception": outer_exc, "inner_left_by_exception": inner_exc,
                        "flag_after_each_step": trace})
    ctx.check(not bad, "R-C33.3", key, where, {"scenarios": n, "counterexamples": bad[:3], "n_counterexamples": len(bad)},
              "enabling/disabling experimental features does not set the flag, or leaving the block (normally or by exception, nested or not) "
              "does not put the previous setting back, or the exception is swallowed")
    return True


def flag_writers(idx) -> tuple[set, set]:
    """(functions that store to the gate flag, those among them that are part of the switch protocol).

    Part of the protocol: methods of the two switch classes and of their base classes, and functions of the module whose
    only callers are (transitively) such methods -- their writes are exactly the ones the protocol scenarios interpret."""
    from ..index import call_name, calls_in, walk_no_nested
    writers = set()
    for f in idx.iter_funcs(("guppylang_internals", "guppylang")):
        for n in walk_no_nested(f.node):
            if isinstance(n, ast.Name) and n.id == FLAG and isinstance(n.ctx, ast.Store):
                writers.add(f.qualname)
            if isinstance(n, ast.Attribute) and n.attr == FLAG and isinstance(n.ctx, ast.Store):
                writers.add(f.qualname)
    classes = [idx.classes[f"{EXP}.{nm}"] for nm in SWITCHES if f"{EXP}.{nm}" in idx.classes]
    allowed = {m.qualname for c in classes for k in c.mro() for m in k.methods.values()}
    changed = True
    while changed:
        changed = False
        for w in sorted(writers - allowed):
            wf = idx.funcs.get(w)
            if wf is None or wf.module.name != EXP:
                continue
            callers = {g.qualname for g in idx.iter_funcs(("guppylang_internals", "guppylang")) if g.qualname != w
                       and any(call_name(c) == wf.name for c in calls_in(g.node))}
            if callers and callers <= allowed:
                allowed.add(w)
                changed = True
    return writers, allowed
