"""R-C06.1 (semantic form)  a call uses each argument place once and hands back exactly the borrowed ones -- by interpretation.

`BBLinearityChecker.visit_GlobalCall` and `.visit_LocalCall` are interpreted as a whole from their syntax trees (helpers --
`_visit_call_args`, `visit_PlaceNode`, `_reassign_inout_args`, `_reassign_single_inout_arg` -- followed) together with the real
`Scope` methods, for calls with one or two place arguments drawn from two non-copyable variables q, r (so the SAME place may be
passed twice), each parameter owned or borrowed, and q used before the call or not.

Specification (arguments left to right): a place that is already used -- before the call, or by an earlier argument of this very
call, borrowed or not -- is rejected; otherwise the call is accepted and afterwards exactly the places passed to an owned
parameter are used, every borrowed place is available again.
"""

from __future__ import annotations

import itertools

from ..absint.minieval import Unsupported
from ..absint.pyeval import Raised, Tok
from ..report import Ctx
from .c06_aggregate import LC
from .c06_place import FlagEval


def run(ctx: Ctx) -> bool:
    idx = ctx.idx
    chk = idx.find_class("BBLinearityChecker", LC)
    scope_cls = idx.find_class("Scope", LC)
    decided = True
    for meth in ("visit_GlobalCall", "visit_LocalCall"):
        f = chk.find_method(meth)
        key = f"{chk.qualname}.{meth}#each-place-once-borrowed-ones-handed-back"
        if f is None:
            ctx.violation("R-C06.1", key, chk.where, {"visitor": None}, "calls get no linearity treatment of their arguments")
            continue
        ps = [a.arg for a in f.node.args.args]
        bad = []
        n = 0
        try:
            for k in (1, 2):
                for places, kinds, used_before in itertools.product(itertools.product("qr", repeat=k), itertools.product(("owned", "borrowed"), repeat=k), (False, True)):
                    n += 1
                    ty = Tok("qubit_ty", copyable=False, droppable=False, __ident__=1)
                    var = {}
                    for nm in "qr":
                        v = Tok(nm, __class__="Variable", id=nm, name=nm, ty=ty, defined_at=Tok(f"def_{nm}"), flags=set(), __ident__=1)
                        v.attrs["root"] = v
                        v.attrs["__methods__"] = {"replace_defined_at": lambda r, a: r}
                        var[nm] = v
                    earlier = Tok("earlier_use", node=Tok("earlier_node"), kind="UseKind.CONSUME", __truth__=True)
                    scope = Tok("scope", __classes__=scope_cls.mro(), vars=dict(var), parent_scope=None, used_local={"q": earlier} if used_before else {}, used_parent={}, __ident__=1)
                    inputs = [Tok(f"inp{i}", ty=ty, flags={"InputFlags.Inout"} if kd == "borrowed" else set(), __ident__=1) for i, kd in enumerate(kinds)]
                    func_ty = Tok("func_ty", __class__="FunctionType", inputs=inputs, __ident__=1)
                    args = [Tok(f"arg{i}_{p}", __class__="PlaceNode", place=var[p], __ident__=1) for i, p in enumerate(places)]
                    callee = Tok("callee", __class__="RawFunctionDef", __bases__=("CallableDef",), ty=Tok("poly_ty", __methods__={"instantiate": lambda r, a, func_ty=func_ty: func_ty}), name="g", __ident__=1)
                    node = Tok("call_node", __class__=meth[len("visit_"):], args=args, def_id="g", type_args=[], func=Tok("func_expr", __class__="Name", id="g"), __ident__=1)
                    me = Tok("checker", scope=scope, __classes__=chk.mro(), func_inputs={}, func_name="caller", __ident__=1)
                    visited: list = []
                    me.attrs["__methods__"] = {"_call_name": lambda r, a: "g", "visit": lambda r, a, visited=visited: visited.append(a[0])}

                    def mk_err(name):
                        return lambda nd, e, env: Tok(name, __methods__={"add_sub_diagnostic": lambda r, a: None})

                    env = {ps[0]: me, ps[1]: node,
                           "ENGINE.get_parsed": lambda nd, e, env, callee=callee: callee, "get_type": lambda nd, e, env, func_ty=func_ty: func_ty,
                           "leaf_places": lambda nd, e, env: [e.ev(nd.args[0], env)], "contains_subscript": lambda nd, e, env: None,
                           "has_explicit_copy": lambda nd, e, env: False,
                           "Use": lambda nd, e, env: Tok("use", node=e.ev(nd.args[0], env), kind=e.ev(nd.args[1], env), __truth__=True),
                           **{nm: mk_err(nm) for nm in ("NotOwnedError", "AlreadyUsedError", "MoveOutOfSubscriptError", "DropAfterCallError")}}
                    ev = FlagEval(idx, LC, max_depth=10)
                    try:
                        out = ev.run(f.node.body, env)
                        raised = str(out[1]) if out[0] == "raise" else None
                    except Raised as e:
                        raised = e.cls or str(e)
                    # specification
                    used = {"q"} if used_before else set()
                    want_reject = False
                    for p in places:
                        if p in used:
                            want_reject = True
                            break
                        used.add(p)
                    case = {"call": f"g({', '.join(f'{p}: {kd}' for p, kd in zip(places, kinds))})", "q_used_before_the_call": used_before}
                    if (raised is not None) != want_reject or (want_reject and "GuppyError" not in str(raised)):
                        bad.append({**case, "outcome": f"rejected ({raised})" if raised else "accepted", "should_be": "rejected (a place is used twice)" if want_reject else "accepted"})
                        continue
                    if not want_reject:
                        want_used = ({"q"} if used_before else set()) | {p for p, kd in zip(places, kinds) if kd == "owned"}
                        got_used = {x for x, u in scope.attrs["used_local"].items() if u is not None}
                        if got_used != want_used:
                            bad.append({**case, "places_marked_used_after_the_call": sorted(got_used), "should_be": sorted(want_used),
                                        "problem": "a borrowed argument stays used after the call, or an owned one is available again"})
        except Unsupported as e:
            ctx.undecided("R-C06.1", key, f.where, str(e))
            decided = False
            continue
        ctx.check(not bad, "R-C06.1", key, f.where, {"cases": n, "counterexamples": bad[:4], "n_counterexamples": len(bad)},
                  "the same non-copyable place can be passed twice in one call, or after a call borrowed arguments stay marked as used "
                  "(or consumed ones become available again)")
    return decided
