"""R-C29.4 (line window) and R-C29.5 (numbers stay attached to their lines).

R-C29.4  `SourceMap.span_lines(span, prefix_lines)` is interpreted on symbolic sources of six lines
         (`line1` … `line6`) for every span 1 <= start <= end <= 5 and every admissible number of context
         lines: it must return exactly the lines start-prefix … end, in order.

R-C29.5  In `render_snippet` the context lines are numbered by position:
         `for i, line in enumerate(all_lines[:prefix_lines]): render_line(line, span.start.line - prefix_lines + i)`.
         That is right only while `all_lines` is still the window returned by `span_lines(span,
         prefix_lines)` line for line, and `prefix_lines` still the number that was passed.  Def-use rule:
         between the `span_lines` call and the numbering loop, the line list is only rewritten element-wise
         (a comprehension over itself without a filter) and `prefix_lines` is not reassigned.  If the numbers
         are not computed from the enumerate index at all, the rule does not apply (UNDECIDED).
"""

from __future__ import annotations

import ast

from ..absint.minieval import Unsupported
from ..absint.pyeval import PyEval, Raised, Tok
from ..index import call_name, walk_no_nested
from ..report import Ctx


def run(ctx: Ctx, numbers_decided: bool = False) -> None:
    idx = ctx.idx
    sl = idx.method("SourceMap", "span_lines", "guppylang_internals.span")
    ctx.saw("functions", sl.qualname)
    ps = [a.arg for a in sl.node.args.args]
    src = [f"line{i}" for i in range(1, 7)]
    bad, n, und = [], 0, None
    for start in range(1, 6):
        for end in range(start, 6):
            for prefix in range(0, start):
                n += 1
                span = Tok("span", file="f.py", start=Tok("start", line=start), end=Tok("end", line=end))
                self_tok = Tok("self", sources={"f.py": list(src)}, __classes__=(sl.cls.mro() if sl.cls is not None else []))
                kwargs = {ps[0]: self_tok, ps[1]: span}
                if len(ps) > 2:
                    kwargs[ps[2]] = prefix
                elif prefix:
                    continue
                try:
                    out = PyEval(idx, sl.module.name).run_function(sl, kwargs)
                except Unsupported as e:
                    und = str(e)
                    break
                want = src[start - prefix - 1:end]
                got = out[1] if out[0] == "return" else out
                if got != want:
                    bad.append({"span_lines": [start, end], "context_lines": prefix, "got": repr(got), "want": want})
            if und:
                break
        if und:
            break
    key = f"{sl.qualname}#line-window"
    if und:
        ctx.undecided("R-C29.4", key, sl.where, und)
    else:
        ctx.check(not bad, "R-C29.4", key, sl.where, {"cases": n, "counterexamples": bad[:3]},
                  "the source lines shown are not the lines start..end of the span (1-based, plus the requested context)")

    # ---------------------------------------------------------------- R-C29.5
    if numbers_decided:
        return  # shape rule below = fallback for a tree where render_snippet cannot be interpreted as a whole
    rs = idx.method("DiagnosticsRenderer", "render_snippet", "guppylang_internals.diagnostic")
    key = f"{rs.qualname}#context-lines-keep-their-numbers"
    body = rs.node.body
    call_st = next((s for s in walk_no_nested(rs.node) if isinstance(s, ast.Assign) and isinstance(s.value, ast.Call) and call_name(s.value) == "span_lines"
                    and isinstance(s.targets[0], ast.Name)), None)
    loop = None
    for s in walk_no_nested(rs.node):
        if isinstance(s, ast.For) and isinstance(s.iter, ast.Call) and call_name(s.iter) == "enumerate" and isinstance(s.target, ast.Tuple) and len(s.target.elts) == 2 \
                and any(isinstance(c, ast.Call) and call_name(c) == "render_line" and len(c.args) == 2 for b in s.body for c in ast.walk(b)):
            loop = s
            break
    if call_st is None or loop is None:
        ctx.undecided("R-C29.5", key, rs.where, "no `lines = …span_lines(span, n)` followed by an enumerate loop that renders numbered lines")
        return
    lines_var = call_st.targets[0].id
    pvar = ast.unparse(call_st.value.args[1]) if len(call_st.value.args) > 1 else None
    idxvar = loop.target.elts[0].id if isinstance(loop.target.elts[0], ast.Name) else None
    rl = next(c for b in loop.body for c in ast.walk(b) if isinstance(c, ast.Call) and call_name(c) == "render_line" and len(c.args) == 2)
    num_names = {x.id for x in ast.walk(rl.args[1]) if isinstance(x, ast.Name)}
    if idxvar is None or idxvar not in num_names or pvar is None or pvar not in num_names:
        ctx.undecided("R-C29.5", key, rs.where, f"line numbers are not computed as f(enumerate index, {pvar}): {ast.unparse(rl.args[1])}")
        return
    # the loop must iterate the (possibly rewritten) window sliced with the same count
    it = loop.iter.args[0]
    iter_ok = isinstance(it, ast.Subscript) and isinstance(it.value, ast.Name) and it.value.id == lines_var and isinstance(it.slice, ast.Slice) \
        and it.slice.lower is None and it.slice.upper is not None and ast.unparse(it.slice.upper) == pvar
    problems = []
    if not iter_ok:
        problems.append({"numbering_loop_iterates": ast.unparse(it), "expected": f"{lines_var}[:{pvar}]"})
    for s in walk_no_nested(rs.node):
        if not (hasattr(s, "lineno") and call_st.lineno < s.lineno < loop.lineno):
            continue
        tgts = [t for t in (s.targets if isinstance(s, ast.Assign) else [getattr(s, "target", None)]) if t is not None] if isinstance(s, (ast.Assign, ast.AugAssign, ast.AnnAssign)) else []
        for t in tgts:
            for nm in ast.walk(t):
                if isinstance(nm, ast.Name) and nm.id == pvar:
                    problems.append({"line": s.lineno, "reassigns": pvar, "statement": ast.unparse(s)[:80]})
                if isinstance(nm, ast.Name) and nm.id == lines_var and isinstance(t, ast.Name):
                    v = getattr(s, "value", None)
                    elementwise = isinstance(v, ast.ListComp) and len(v.generators) == 1 and not v.generators[0].ifs \
                        and isinstance(v.generators[0].iter, ast.Name) and v.generators[0].iter.id == lines_var and not isinstance(s, ast.AugAssign)
                    if not elementwise:
                        problems.append({"line": s.lineno, "rewrites_the_window_not_line_by_line": ast.unparse(s)[:100]})
        if isinstance(s, ast.Expr) and isinstance(s.value, ast.Call) and isinstance(s.value.func, ast.Attribute) and isinstance(s.value.func.value, ast.Name) \
                and s.value.func.value.id == lines_var and s.value.func.attr in ("pop", "remove", "insert", "append", "extend", "clear", "sort", "reverse"):
            problems.append({"line": s.lineno, "mutates_the_window": ast.unparse(s)[:80]})
    # near the top of a file fewer context lines exist than requested: does span_lines deliver a full window then?
    short = False
    try:
        span = Tok("span", file="f.py", start=Tok("start", line=1), end=Tok("end", line=1))
        out = PyEval(idx, sl.module.name).run_function(sl, {ps[0]: Tok("self", sources={"f.py": list(src)}), ps[1]: span, **({ps[2]: 2} if len(ps) > 2 else {})})
        got = out[1] if out[0] == "return" else None
        short = not (isinstance(got, list) and len(got) == 3)
    except (Unsupported, Raised):
        short = True
    if short:
        # then the caller must clamp the count to the lines that exist before the span, before it asks for the window
        clamped = False
        for s in walk_no_nested(rs.node):
            if hasattr(s, "lineno") and s.lineno < call_st.lineno and isinstance(s, ast.Assign) and len(s.targets) == 1 and ast.unparse(s.targets[0]) == pvar:
                v = s.value
                if isinstance(v, ast.Call) and call_name(v) == "min" and any(ast.unparse(a) == pvar for a in v.args) and any("start.line" in ast.unparse(a) for a in v.args):
                    clamped = True
            if hasattr(s, "lineno") and s.lineno < call_st.lineno and isinstance(s, ast.If) and pvar in ast.unparse(s.test) and "start.line" in ast.unparse(s.test) \
                    and any(isinstance(b, ast.Assign) and ast.unparse(b.targets[0]) == pvar for b in s.body):
                clamped = True
        if not clamped:
            problems.append({"context_count_not_clamped": f"`{pvar}` can exceed the number of lines before the span (span on line 1 or 2), "
                             f"but {lines_var}[:{pvar}] and the numbering assume a full window"})
    ctx.check(not problems, "R-C29.5", key, f"{rs.module.rel}:{loop.lineno}",
              {"window": f"{lines_var} = …span_lines(span, {pvar})", "numbering": ast.unparse(rl.args[1]), "problems": problems[:4]},
              "context lines are numbered by their position in a list that is no longer the contiguous window of source lines "
              "(lines dropped, added or reordered, or the context count changed): the printed line numbers are not the true ones")
