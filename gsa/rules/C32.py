"""C32 accepted syntax is never silently ignored.

R-C32.1  field-consumption completeness over the acceptance chain
         statements:  CFGBuilder.visit_X  ->  StmtChecker.visit_X|visit_<derived>
         expressions: ExprBuilder/BranchBuilder.visit_X (absent = NodeTransformer forward)
                      ->  ExprSynthesizer.visit_X  (and ExprChecker.visit_X where present)
         every semantic field of every handled stdlib ast class must be read on every path
         on which the node is accepted (or the node is forwarded whole to the next stage,
         which then owes the read).  Helper node classes entered on the way (arguments,
         arg, withitem, comprehension, keyword) owe their fields too.
R-C32.2  the fallbacks reject: CFGBuilder.generic_visit and ExprSynthesizer.generic_visit
         must-raise GuppyError(UnsupportedError); builder fallbacks only delegate.
R-C32.3  explicit rejections: check_signature rejects every unsupported parameter kind;
         both call handlers reject keywords before dispatching; multi-target assignments,
         `as` in with-items, async generators are rejected.
R-C32.4  a built statement is dropped only when it is a compiler temporary.
R-C32.5  calls interpreted by callee name: `_handle_withitem` and `is_comptime_expression` are interpreted on `dagger()`,
         `control(c)`, `power(n)`, `comptime(v)`, `py(v)` with and without a keyword argument -- the keyword form is rejected, the
         plain form accepted; any OTHER function that recognises a call by its callee name is found by discovery and must read
         `.keywords` on every accepting path (c32_special.py).
R-C32.6  `CFGBuilder.visit_stmts` interpreted on statement sequences over {plain, jumping, `_@functional` pseudo-decorator}: every
         statement reaches the visitor once, in order; a sequence with the pseudo-decorator -- also as the last statement of a
         block -- ends in an error, never with the statement skipped (c32_stmts.py).
"""

from __future__ import annotations

import ast

from ..absint import booltab
from ..astfields import EXPR_CLASSES, STMT_CLASSES, semantic_fields
from ..consume import Consumption, HandlerResult
from ..flow import CFG, must_raise, raised_class, raises_in
from ..guards import guards_imply, lexical_guards
from ..index import AnalysisError, FuncInfo, body_without_docstring, call_name, calls_in, dotted, walk_no_nested
from ..report import Ctx

LEVEL = "other"
EXPLANATION = (
    "Finite table check: (stdlib ast class handled by the front end) x (semantic field) -> read on every accepting "
    "path of the handler chain, computed on per-handler CFGs with interprocedural may-read summaries of resolved "
    "helpers; unresolved callees read only what is passed to them explicitly. Plus must-raise checks of the generic "
    "fallbacks and the explicit rejections. A field that is only used for an error location still counts as read "
    "(stated limitation)."
)

HELPER_CLASSES = ("arguments", "arg", "withitem", "comprehension", "keyword")

# (class, field) that may legitimately stay unread, each with the reason
FROZEN_EXCEPTIONS = {
    ("arguments", "kw_defaults"): "holds one entry per keyword-only parameter; keyword-only parameters are rejected (R-C32.3), so it is always empty",
    ("FunctionDef", "name"): None,  # placeholder, removed below if read
}
FROZEN_EXCEPTIONS.pop(("FunctionDef", "name"))

DERIVED = {"NestedFunctionDef": "FunctionDef", "ModifiedBlock": "With"}


def _node_param(f: FuncInfo) -> str | None:
    ps = [a.arg for a in f.node.args.args]
    if ps and ps[0] in ("self", "cls"):
        ps = ps[1:]
    return ps[0] if ps else None


def run(ctx: Ctx) -> None:
    idx = ctx.idx
    cons = Consumption(idx)
    cfgb = idx.find_class("CFGBuilder", "guppylang_internals.cfg.builder")
    exprb = idx.find_class("ExprBuilder", "guppylang_internals.cfg.builder")
    brb = idx.find_class("BranchBuilder", "guppylang_internals.cfg.builder")
    stc = idx.find_class("StmtChecker", "guppylang_internals.checker.stmt_checker")
    syn = idx.find_class("ExprSynthesizer", "guppylang_internals.checker.expr_checker")
    chk = idx.find_class("ExprChecker", "guppylang_internals.checker.expr_checker")

    n_handlers = 0
    lost_total = 0

    def analyse(f: FuncInfo, cls: str) -> HandlerResult | None:
        nonlocal n_handlers
        p = _node_param(f)
        if p is None:
            return None
        n_handlers += 1
        ctx.saw("handlers", f.qualname)
        return cons.handler(f, p, cls)

    def report(stage_chain: list[HandlerResult], cls: str, fld: str, ok: bool, why: str, owner: HandlerResult) -> None:
        nonlocal lost_total
        key = f"{owner.func.qualname}#{fld}" if cls == owner.cls else f"{owner.func.qualname}#{cls}.{fld}"
        facts = {"class": f"ast.{cls}", "field": fld, "status": why,
                 "chain": [h.func.qualname for h in stage_chain],
                 "read_at": sorted({s for h in stage_chain for s in h.sites.get((cls, fld), [])})[:4]}
        if ok:
            ctx.ok("R-C32.1", key, owner.func.where, facts)
        else:
            lost_total += 1
            ctx.violation("R-C32.1", key, owner.func.where, facts,
                          f"`{fld}` of ast.{cls} is accepted and then ignored: the handler chain replaces or accepts the node on some path "
                          f"without ever looking at that part of the user's program")

    def helper_obligations(chain: list[HandlerResult], owner: HandlerResult) -> None:
        entered = set()
        for h in chain:
            entered |= h.entered
        for Y in HELPER_CLASSES:
            if Y not in entered or Y == owner.cls:
                continue
            for g in semantic_fields(Y):
                if (Y, g) in FROZEN_EXCEPTIONS:
                    ctx.ok("R-C32.1", f"{owner.func.qualname}#{Y}.{g}", owner.func.where, {"frozen_exception": FROZEN_EXCEPTIONS[(Y, g)]})
                    continue
                ok = any(h.may_read(Y, g) for h in chain)
                report(chain, Y, g, ok, "read somewhere in the chain" if ok else "LOST (never read anywhere in the chain)", owner)

    # ------------------------------------------------------------ statements
    for X in STMT_CLASSES:
        h1f = cfgb.methods.get(f"visit_{X}")
        if h1f is None:
            continue  # CFGBuilder.generic_visit rejects (R-C32.2)
        h1 = analyse(h1f, X)
        if h1 is None or h1.never_returns_normally():
            continue
        fields = semantic_fields(X)
        next_classes = sorted({DERIVED_INV.get(a, a) or X for a in h1.fwd_as}) if h1.fwd_nodes else []
        h2s: list[HandlerResult] = []
        for c in {(a or X) for a in h1.fwd_as}:
            f2 = stc.methods.get(f"visit_{c}")
            if f2 is not None:
                r = analyse(f2, DERIVED.get(c, c))
                if r is not None and not r.never_returns_normally():
                    h2s.append(r)
        for fld in fields:
            if h1.must_read(X, fld):
                report([h1], X, fld, True, "read on every path of the builder handler", h1)
                continue
            if not h1.must_read(X, fld, or_forward=True):
                report([h1], X, fld, False, "LOST in the builder: some path neither reads the field nor forwards the node", h1)
                continue
            # forwarded: the checker-stage handler owes it
            if not h2s:
                report([h1], X, fld, True, "forwarded; no checker handler returns normally (rejected there)", h1)
                continue
            bad = [h for h in h2s if not h.must_read(DERIVED.get(h.cls, h.cls), fld)]
            report([h1, *h2s], X, fld, not bad, "read by the checker-stage handler on every path" if not bad else
                   f"LOST: forwarded by the builder, not read on every accepting path of {[b.func.qualname for b in bad]}", h1)
        helper_obligations([h1, *h2s], h1)

    # ------------------------------------------------------------ expressions
    for X in EXPR_CLASSES:
        s2 = syn.methods.get(f"visit_{X}")
        c2 = chk.methods.get(f"visit_{X}")
        b1 = exprb.methods.get(f"visit_{X}")
        br1 = brb.methods.get(f"visit_{X}")
        if s2 is None and c2 is None and b1 is None and br1 is None:
            continue  # ExprSynthesizer.generic_visit rejects (R-C32.2)
        finals = [h for h in (analyse(s2, X) if s2 else None, analyse(c2, X) if c2 else None) if h is not None and not h.never_returns_normally()]
        firsts = [h for h in (analyse(b1, X) if b1 else None, analyse(br1, X) if br1 else None) if h is not None and not h.never_returns_normally()]
        fields = semantic_fields(X)
        # a node transformer (ExprBuilder) or a helper whose result it returns may hand back a *new* node:
        # at such a point every field must already have been looked at
        replaced_lost: dict[str, str] = {}
        if b1 is not None:
            for where, avail in cons.replace_points(b1, {_node_param(b1): X}):
                for fld in fields:
                    if (X, fld) not in avail:
                        replaced_lost.setdefault(fld, where)
        for fld in fields:
            if fld in replaced_lost:
                nonlocal_key = f"{b1.qualname}#{fld}"
                lost_total += 1
                ctx.violation("R-C32.1", nonlocal_key, b1.where,
                              {"class": f"ast.{X}", "field": fld, "status": "LOST: the node is replaced by a new node built without this field",
                               "replaced_at": replaced_lost[fld]},
                              f"`{fld}` of ast.{X} is dropped when the expression is rewritten into a new node: that part of the user's "
                              f"program is accepted and ignored")
                continue
            # stage 1 handlers (if any): read or forward on every path
            stage1_bad = [h for h in firsts if not h.must_read(X, fld, or_forward=True)]
            if stage1_bad:
                report(firsts, X, fld, False, f"LOST in {[h.func.qualname for h in stage1_bad]}: replaced without reading", stage1_bad[0])
                continue
            forwarded = (not firsts) or any(h.fwd_nodes and not h.must_read(X, fld) for h in firsts) or (b1 is None)
            if not forwarded:
                report(firsts, X, fld, True, "read by the builder stage on every path", firsts[0])
                continue
            if not finals:
                if firsts:
                    report(firsts, X, fld, True, "forwarded; the synthesiser has no accepting handler (rejected)", firsts[0])
                continue
            bad = [h for h in finals if not h.must_read(X, fld)]
            report([*firsts, *finals], X, fld, not bad, "read on every accepting path of the checker-stage handler(s)" if not bad else
                   f"LOST: not read on every accepting path of {[b.func.qualname for b in bad]}", (bad or finals)[0])
        if firsts or finals:
            helper_obligations([*firsts, *finals], (firsts or finals)[0])

    ctx.floor("R-C32.1", "acceptance-chain handlers analysed", n_handlers, 40)

    # ------------------------------------------------------------ R-C32.2 fallbacks reject
    for c, meth in ((cfgb, "generic_visit"), (syn, "generic_visit")):
        f = c.methods.get(meth)
        if f is None:
            raise AnalysisError(f"{c.qualname}.{meth} vanished")
        body = body_without_docstring(f.node)
        mr = must_raise(body)
        kinds = sorted({raised_class(r) for r in raises_in(f.node)})
        ctx.check(mr and all(k[0] in ("GuppyError", "GuppyTypeError") for k in kinds), "R-C32.2", f"{f.qualname}#rejects", f.where,
                  {"must_raise": mr, "raises": kinds},
                  "node kinds without a handler are accepted (or crash with a non-Guppy error) instead of being rejected as unsupported")
    # builder fallbacks only delegate
    f = exprb.methods.get("generic_visit")
    if f is None:
        raise AnalysisError("ExprBuilder.generic_visit vanished")
    rets = [r for r in walk_no_nested(f.node) if isinstance(r, ast.Return)]
    last = rets[-1].value if rets else None
    ok = isinstance(last, ast.Call) and call_name(last) == "generic_visit" and "super" in ast.unparse(last.func)
    ctx.check(ok, "R-C32.2", f"{f.qualname}#delegates", f.where, {"final_return": ast.unparse(last) if last is not None else None},
              "unknown expression kinds are not passed on (children unbuilt or node dropped)")
    f = brb.methods.get("generic_visit")
    if f is None:
        raise AnalysisError("BranchBuilder.generic_visit vanished")
    builds = [c for c in calls_in(f.node) if call_name(c) == "build" and c.args and dotted(c.args[0]) == _node_param(f)]
    sets_pred = any(isinstance(n, ast.Assign) and any(isinstance(t, ast.Attribute) and t.attr == "branch_pred" for t in n.targets) for n in walk_no_nested(f.node))
    ctx.check(bool(builds) and sets_pred, "R-C32.2", f"{f.qualname}#delegates", f.where, {"builds_node": bool(builds), "sets_branch_pred": sets_pred},
              "a branch condition of unknown kind is not built as an expression")
    # statements reaching the checker: BBStatement union subset of StmtChecker handlers
    from .shared import union_members
    bbst = union_members(idx, "guppylang_internals.cfg.bb", "BBStatement")
    ctx.floor("R-C32.2", "BBStatement members", len(bbst), 5)
    missing = [m for m in bbst if f"visit_{m}" not in stc.methods]
    ctx.check(not missing, "R-C32.2", f"{stc.qualname}#handles-every-BBStatement", stc.where, {"members": bbst, "missing": missing},
              "a statement kind that the builder may put into a block has no checker handler")

    # ------------------------------------------------------------ R-C32.3 explicit rejections
    cs = idx.find_func("check_signature", "guppylang_internals.checker.func_checker")
    ctx.saw("functions", cs.qualname)
    from ..absint.minieval import Unsupported as _Uns
    from ..absint.pyeval import PyEval as _PE, Raised as _Rai, Tok as _Tok
    for fld in ("posonlyargs", "kwonlyargs", "vararg", "kwarg", "defaults"):
        key = f"{cs.qualname}#rejects-{fld}"
        # (1) by interpretation: a signature whose only unusual part is this field must end in
        #     raise GuppyError(UnsupportedError(<that parameter>, …)) -- wherever the test lives (inline or in a helper)
        fields = {"posonlyargs": [], "kwonlyargs": [], "vararg": None, "kwarg": None, "defaults": [], "kw_defaults": [], "args": []}
        param = _Tok("param", annotation=_Tok("param_annotation"), arg="p", __ident__=1)
        fields[fld] = param if fields[fld] is None else [param]
        blamed: list = []

        def h_unsupported(node, ev_, env_, blamed=blamed):
            v = ev_.ev(node.args[0], env_) if node.args else None
            blamed.append(v)
            return _Tok("UnsupportedError")

        top = [s_ for s_ in cs.node.body if not (isinstance(s_, ast.Expr) and isinstance(s_.value, ast.Constant))]
        ev_ = _PE(idx, cs.module.name)
        ev_.lenient = True
        verdict = None
        try:
            # (the rest of the function is given what it needs to run to its end: a signature that is not rejected must be seen
            #  to be ACCEPTED, not merely to leave the interpretable fragment)
            more = {p_.arg: None for p_ in cs.node.args.args[2:]}
            r = ev_.run(top, {cs.node.args.args[0].arg: _Tok("func_def", args=_Tok("arguments", **fields), returns=_Tok("annotation"), name="f", body=[], decorator_list=[],
                                                             type_params=[]),
                              cs.node.args.args[1].arg: _Tok("globals"), **more, "sys.version_info": (3, 12),
                              "UnsupportedError": h_unsupported, "TypeParsingCtx": lambda n_, e_, en_: _Tok("parsing_ctx"),
                              "parse_function_arg_annotation": lambda n_, e_, en_: _Tok("func_input"), "parse_self_arg": lambda n_, e_, en_: _Tok("func_input"),
                              "type_from_ast": lambda n_, e_, en_: _Tok("output_ty"), "FunctionType": lambda n_, e_, en_: _Tok("function_type"),
                              "MissingArgAnnotationError": lambda n_, e_, en_: _Tok("MissingArgAnnotationError")})
            verdict = r[0] == "raise" and r[1] == "GuppyError" and any(b is param or b == param for b in blamed)
            if not verdict and r[0] == "raise" and not blamed:
                verdict = None  # some other diagnostic was raised first: not conclusive about this field
            elif not verdict and r[0] != "raise":
                verdict = False  # ran to the end (or returned) without rejecting
        except _Rai:
            verdict = None
        except _Uns:
            verdict = True if any(b is param or b == param for b in blamed) else None
        if verdict is not None:
            ctx.check(verdict, "R-C32.3", key, cs.where, {"decided_by": "interpretation", "diagnostic_blames_the_parameter": bool(blamed)},
                      f"function parameters of kind `{fld}` are accepted and ignored")
            continue
        # (2) fallback: the lexical form `if <test on args.FIELD>: raise GuppyError(…)`
        hit = None
        for n in walk_no_nested(cs.node):
            if isinstance(n, ast.If) and any(isinstance(a_, ast.Attribute) and a_.attr == fld and ast.unparse(a_.value).endswith(".args") for a_ in ast.walk(n.test)):
                hit = n
                break
        ok = hit is not None and must_raise(hit.body) and all(raised_class(r_)[0] == "GuppyError" for b_ in hit.body for r_ in ast.walk(b_) if isinstance(r_, ast.Raise))
        if hit is None:
            ctx.undecided("R-C32.3", key, cs.where, "neither evaluable nor in the `if args.FIELD: raise` form")
            continue
        if ok:
            # the test must also be TRUE for such a signature: interpret the function up to (and including) this `if`
            upto = next((i for i, s_ in enumerate(top) if any(x is hit for x in ast.walk(s_))), None)
            try:
                if upto is None:
                    raise _Uns("the rejection is not a top-level statement")
                r2 = _PE(idx, cs.module.name).run(top[: upto + 1], {cs.node.args.args[0].arg: _Tok("func_def", args=_Tok("arguments", **fields), returns=None, name="f", body=[])})
                ok = r2[0] == "raise" and r2[1] == "GuppyError"
            except _Rai:
                ok = False
            except _Uns as e:
                ctx.undecided("R-C32.3", key, cs.where, str(e))
                continue
        ctx.check(ok, "R-C32.3", key, f"{cs.module.rel}:{hit.lineno}", {"decided_by": "shape + evaluation of the test", "test": ast.unparse(hit.test)},
                  f"function parameters of kind `{fld}` are accepted and ignored")
    for c in (chk, syn):
        f = c.methods.get("visit_Call")
        if f is None:
            raise AnalysisError(f"{c.qualname}.visit_Call vanished")
        p = _node_param(f)
        g = CFG(f.node)
        guard = [n for n in walk_no_nested(f.node) if isinstance(n, ast.If) and f"{p}.keywords" in ast.unparse(n.test) and must_raise(n.body)]
        # the keyword test dominates every call that hands the node (or its args) to another function
        kw_nodes = {m.id for gd in guard for m in g.nodes_for(gd.test)}
        dispatch = [m for m in g.nodes if m.kind in ("stmt", "test") and m.id not in kw_nodes and any(
            any(ast.unparse(a) in (p, f"{p}.args") for a in list(cl.args) + [k.value for k in cl.keywords]) and not call_name(cl).endswith("Error")
            for cl in _calls_at(m))]
        undominated = [m.ast.lineno for m in dispatch if not g.dominated_by(m, lambda x: x.id in kw_nodes)]
        ctx.check(bool(guard) and not undominated, "R-C32.3", f"{f.qualname}#rejects-keywords-before-dispatch", f.where,
                  {"keyword_guard": [ast.unparse(gd.test) for gd in guard], "dispatch_sites": len(dispatch), "dispatch_without_guard_at_lines": undominated},
                  "a call with keyword arguments reaches a callee-specific checker (custom checkers only see the positional arguments): "
                  "the keywords are dropped silently")
    va = stc.methods.get("visit_Assign")
    guard = [n for n in walk_no_nested(va.node) if isinstance(n, ast.If) and "targets" in ast.unparse(n.test) and must_raise(n.body)]
    ctx.check(bool(guard), "R-C32.3", f"{va.qualname}#rejects-multiple-targets", va.where, {"guards": [ast.unparse(gd.test) for gd in guard]},
              "`a = b = 1` is accepted but only one target is assigned")
    hw = cfgb.methods.get("_handle_withitem")
    if hw is None:
        raise AnalysisError("CFGBuilder._handle_withitem vanished")
    guard = [n for n in walk_no_nested(hw.node) if isinstance(n, ast.If) and "optional_vars" in ast.unparse(n.test) and must_raise(n.body)]
    ctx.check(bool(guard), "R-C32.3", f"{hw.qualname}#rejects-as", hw.where, {"guards": [ast.unparse(gd.test) for gd in guard]},
              "`with m as x:` is accepted and the `as` target ignored")
    dc = idx.find_func("desugar_comprehension", "guppylang_internals.cfg.builder")
    # interpreted: an async generator is rejected with a Guppy error, a plain one is not (shape of the guard only as fallback)
    guard = [n for n in walk_no_nested(dc.node) if isinstance(n, ast.If) and "is_async" in ast.unparse(n.test) and must_raise(n.body)]
    try:
        from .c17_positions import interpret as _interp_comp
        from ..absint.minieval import Unsupported as _Uns
        o_async, o_plain = _interp_comp(idx, 1)[0], _interp_comp(idx, 0)[0]
        async_ok = o_async[0] == "raise" and "GuppyError" in str(o_async[1]) and o_plain[0] == "return"
        facts_async = {"async_generator": f"{o_async[0]} {o_async[1] if o_async[0] == 'raise' else ''}".strip(), "plain_generator": o_plain[0]}
    except _Uns as e_:
        async_ok, facts_async = (True if guard else None), {"guards": [ast.unparse(gd.test) for gd in guard], "not_interpretable": str(e_)}
    if async_ok is None:
        ctx.undecided("R-C32.3", f"{dc.qualname}#rejects-async", dc.where, facts_async["not_interpretable"])
    else:
        ctx.check(bool(async_ok), "R-C32.3", f"{dc.qualname}#rejects-async", dc.where, facts_async,
                  "`async for` inside a comprehension is accepted as a plain loop")

    # ------------------------------------------------------------ R-C32.4 dropped statements
    ve = cfgb.methods.get("visit_Expr")
    if ve is None:
        raise AnalysisError("CFGBuilder.visit_Expr vanished")
    # interpreted: the built value is (a) a compiler temporary `%tmp…`, (b) a user variable, (c) a call; the statement must be kept in
    # the block it was built in for (b) and (c) -- and may be dropped only for (a)
    from ..absint.minieval import Unsupported
    from ..absint.pyeval import PyEval, Raised, Tok
    sem_bad, sem_und = [], None
    vps = [a_.arg for a_ in ve.node.args.args]
    for label, value in (("temporary", Tok("tmp_name", __class__="Name", id="%tmp3")), ("user variable", Tok("user_name", __class__="Name", id="x")),
                         ("call", Tok("call", __class__="Call")), ("user variable named like a prefix of a temporary", Tok("n2", __class__="Name", id="tmp"))):
        out_bb = Tok("bb_after_build", statements=[], __ident__=1)
        node_tok = Tok("expr_stmt", __class__="Expr", value=Tok("unbuilt"), __ident__=1)
        envx = {vps[0]: Tok("self", cfg=Tok("cfg"), __classes__=cfgb.mro(), __ident__=1), vps[1]: node_tok, vps[2]: Tok("bb_before", statements=[], __ident__=1),
                "ExprBuilder.build": lambda n_, e_, en_, value=value, out_bb=out_bb: (value, out_bb)}
        for extra in vps[3:]:
            envx[extra] = Tok(extra)
        try:
            r = PyEval(idx, ve.module.name).run(ve.node.body, envx)
        except Unsupported as e:
            sem_und = f"{label}: {e}"
            break
        except Raised as e:
            sem_bad.append({"value": label, "problem": f"raises {e}"})
            continue
        kept = node_tok in out_bb.attrs["statements"]
        if label != "temporary" and not (kept and r[0] == "return" and r[1] is out_bb):
            sem_bad.append({"value": label, "statement_kept_in_the_block": kept, "returns_the_block_after_build": r[0] == "return" and r[1] is out_bb})
    if sem_und is None:
        ctx.check(not sem_bad, "R-C32.4", f"{ve.qualname}#drops-only-temporaries", ve.where, {"cases": 4, "counterexamples": sem_bad},
                  "an expression statement written by the user is dropped from the block (never checked): `x` alone on a line is accepted "
                  "even if x is undefined or already consumed")
    else:
        ctx.note(f"R-C32.4 visit_Expr not interpretable ({sem_und}); guard-table form used")
        appends = [c for c in calls_in(ve.node) if call_name(c) == "append" and "statements" in ast.unparse(c.func)]
        ctx.floor("R-C32.4", "appends in visit_Expr", len(appends), 1)
        known = lambda x: ("tmp" if isinstance(x, ast.Call) and call_name(x) == "is_tmp_var" else None)  # noqa: E731
        for a in appends:
            gs = lexical_guards(ve.node, a) or []
            if not gs:
                ctx.ok("R-C32.4", f"{ve.qualname}#drops-only-temporaries", ve.where, {"unconditional_append": True})
                continue
            # statement dropped  <=>  some guard false.  Require: dropped -> is_tmp_var(...)
            from ..absint.booltab import atoms_of, evaluate
            from ..guards import generic_atomizer
            import itertools
            atomize = generic_atomizer(known)
            names: list[str] = []
            for e, _ in gs:
                for nm in atoms_of(e, atomize):
                    if nm not in names:
                        names.append(nm)
            bad = []
            for vals in itertools.product([False, True], repeat=len(names)):
                env = dict(zip(names, vals))
                kept = all(evaluate(e, env, atomize) == pol for e, pol in gs)
                if not kept and not env.get("tmp", False):
                    bad.append({k.lstrip("?")[:50]: v for k, v in env.items()})
            ctx.check(not bad, "R-C32.4", f"{ve.qualname}#drops-only-temporaries", f"{ve.module.rel}:{a.lineno}",
                      {"guards": [(ast.unparse(e)[:80], p) for e, p in gs], "dropped_although_not_a_temporary": bad[:3]},
                      "an expression statement written by the user is dropped from the block (never checked): `x` alone on a line is accepted "
                      "even if x is undefined or already consumed")

    # ------------------------------------------------------------ R-C32.5 special-form calls read their keywords
    from . import c32_special
    c32_special.run(ctx)

    # ------------------------------------------------------------ R-C32.6 the statement loop drops nothing
    from . import c32_stmts
    c32_stmts.run(ctx)


def _calls_at(m) -> list[ast.Call]:
    from ..flow import node_calls
    return node_calls(m)


DERIVED_INV = {v: k for k, v in DERIVED.items()}
