"""R-C17.6  integers written as type arguments are range-checked like other nat constants -- `arg_from_ast`, interpreted.

`arg_from_ast` (tys/parsing.py) is interpreted on constant nodes and on `comptime(...)` expressions standing where a type argument is
expected (`array[int, N]`); definition lookup, the comptime evaluator and the constant constructors are recorders, `_int_bounds_check`
and every other helper of the repository are followed.  Values: 0, 1, 2^63, 2^64 - 1, 2^64, 2^70 as literals; -2^63, -1, 0, 7,
2^64 - 1, 2^64 as comptime values (a literal cannot be negative: `-1` is a unary expression).

Decided: the argument is accepted as a nat constant holding exactly that value iff 0 <= value <= 2^64 - 1, and rejected with a
Guppy error otherwise (today's parser gives every integer type argument the type nat).
"""

from __future__ import annotations

from ..absint.astmodel import N
from ..absint.minieval import Unsupported
from ..absint.pyeval import PyEval, Raised, Tok
from ..report import Ctx

TP = "guppylang_internals.tys.parsing"


def run(ctx: Ctx) -> bool:
    idx = ctx.idx
    f = idx.find_func("arg_from_ast", TP)
    key = f"{f.qualname}#integer-type-arguments-are-range-checked"
    ps = [a.arg for a in f.node.args.args]
    nat = Tok("nat", __class__="NumericType", kind="NumericType.Kind.Nat", __ident__=1)
    bad = []
    cases = [("literal", v) for v in (0, 1, 1 << 63, (1 << 64) - 1, 1 << 64, 1 << 70)] + [("comptime", v) for v in (-(1 << 63), -1, 0, 7, (1 << 64) - 1, 1 << 64)]
    try:
        for how, v in cases:
            made: list = []

            def h_value(nd, e, env, made=made):
                vals = [e.ev(x, env) for x in nd.args]
                made.append(vals)
                return Tok("ConstValue", ty=vals[0], value=vals[1], __ident__=1)

            node = N("Constant", value=v) if how == "literal" else N("Call", func=N("Name", id="comptime"), args=[N("Name", id="n")], keywords=[])
            env = {ps[0]: node, ps[1]: Tok("parsing_ctx", globals=Tok("globals"), param_var_mapping={}, __ident__=1),
                   "_try_parse_defn": lambda nd, e, env: None, "NumericType": lambda nd, e, env: nat, "bool_type": lambda nd, e, env: Tok("bool"),
                   "ConstValue": h_value, "ConstArg": lambda nd, e, env: Tok("ConstArg", const=e.ev(nd.args[0], env), __ident__=1),
                   "is_comptime_expression": lambda nd, e, env, how=how: (Tok("comptime_expr", __truth__=True) if how == "comptime" else None),
                   "eval_comptime_expr": lambda nd, e, env, v=v: v,
                   "Context": lambda nd, e, env: Tok("context"), "Locals": lambda nd, e, env: Tok("locals"),
                   "IntOverflowError": lambda nd, e, env: Tok("IntOverflowError"), "IllegalComptimeTypeArgError": lambda nd, e, env: Tok("IllegalComptimeTypeArgError"),
                   "__globals__": {}}
            def h_bounds_spec(nd, e, env):
                # the specification of `_int_bounds_check(value, node, signed)` -- the function itself is decided by R-C17.1
                vals = [e.ev(a, env) for a in nd.args] + [e.ev(k.value, env) for k in nd.keywords]
                val, signed = vals[0], bool(vals[2]) if len(vals) > 2 else True
                lo, hi = (-(1 << 63), (1 << 63) - 1) if signed else (0, (1 << 64) - 1)
                if not (lo <= val <= hi):
                    raise Raised("value out of range", "GuppyTypeError")
                return None

            def attempt(extra):
                ev = PyEval(idx, TP, max_depth=6)
                ev.lenient = True
                made.clear()
                try:
                    out = ev.run(f.node.body, {**env, **extra})
                    return (str(out[1]) if out[0] == "raise" else None), (out[1] if out[0] == "return" else None)
                except Raised as e:
                    return e.cls or str(e), None

            try:
                raised, ret = attempt({})
            except Unsupported:
                # the range-check helper could not be followed across the module boundary: use its specification instead
                raised, ret = attempt({"_int_bounds_check": h_bounds_spec})
            fits = 0 <= v <= (1 << 64) - 1
            accepted = raised is None and isinstance(ret, Tok) and ret.name == "ConstArg"
            value_ok = accepted and isinstance(ret.attrs.get("const"), Tok) and ret.attrs["const"].attrs.get("value") == v and type(ret.attrs["const"].attrs.get("value")) is int
            if fits and not value_ok:
                bad.append({"written_as": how, "value": str(v), "outcome": raised or repr(ret), "should_be": "accepted as that nat constant"})
            if not fits and (raised is None or "Guppy" not in str(raised)):
                bad.append({"written_as": how, "value": str(v), "outcome": raised or "accepted", "should_be": "rejected (does not fit a 64-bit unsigned integer)"})
    except Unsupported as e:
        ctx.undecided("R-C17.6", key, f.where, str(e))
        return False
    ctx.check(not bad, "R-C17.6", key, f.where, {"cases": len(cases), "counterexamples": bad[:6], "n_counterexamples": len(bad)},
              "an integer that does not fit a nat (2^64 and above, or a negative comptime value) is accepted as a type argument, e.g. as an array "
              "length, and becomes an out-of-range BoundedNat in the HUGR")
    return True
