"""R-C09.2 (semantic form)  the block transfer functions are the gen/kill functions of their analyses.

`LivenessAnalysis.apply_bb` and `AssignmentAnalysis.apply_bb` are interpreted from their syntax trees on every combination
of  used / assigned / incoming  subsets of a three-variable universe (8^3 cases each; for the assignment analysis the two
incoming components vary independently over a reduced family).  Decided, for every case:

  liveness     keys(result) = used  ∪ (live_after − assigned)
  assignment   result = (definitely ∪ assigned, maybe ∪ assigned)
  neither function changes the value it was given nor the block statistics (both are cached by the worklist loop).
"""

from __future__ import annotations

import itertools

from ..absint.minieval import Unsupported
from ..absint.pyeval import PyEval, Raised, Tok
from ..report import Ctx

AN = "guppylang_internals.cfg.analysis"
VARS = ("x", "y", "z")


def _subsets(u):
    return [frozenset(c) for r in range(len(u) + 1) for c in itertools.combinations(u, r)]


def _keys(v):
    if isinstance(v, dict):
        return frozenset(v)
    if isinstance(v, (set, frozenset, list, tuple)):
        return frozenset(v)
    return None


def run(ctx: Ctx) -> bool:
    idx = ctx.idx
    decided = True
    subsets = _subsets(VARS)
    for cname, kind in (("LivenessAnalysis", "liveness"), ("AssignmentAnalysis", "assignment")):
        cls = idx.find_class(cname, AN)
        f = cls.methods.get("apply_bb")
        if f is None:
            decided = False
            continue
        key = f"{f.qualname}#transfer"
        ps = [a.arg for a in f.node.args.posonlyargs + f.node.args.args]
        bad: list = []
        und = None
        n = 0
        if kind == "liveness":
            ins = [(s,) for s in subsets]
        else:
            # (definitely, maybe) with definitely ⊆ maybe, plus a few unordered pairs: the function must not rely on the inclusion
            ins = [(d, m) for d in subsets for m in subsets if d <= m] + [(frozenset("x"), frozenset("y")), (frozenset("xy"), frozenset())]
        for used, assigned in itertools.product(subsets, subsets):
            if und:
                break
            if kind == "assignment" and len(used) > 1:
                continue  # uses must not matter for the assignment analysis: the empty and the one-variable use sets suffice to see that
            # sets are iterated in ascending and in descending order: the result (as a set) must be the same either way
            for inp, set_order in itertools.product(ins, ("asc", "desc")):
                n += 1
                bb = Tok("bb", __ident__=1)
                other = Tok("bb_later", __ident__=1)
                st_used = {v: Tok(f"use_{v}") for v in sorted(used)}
                st_ass = {v: Tok(f"asg_{v}") for v in sorted(assigned)}
                stats = Tok("stats", used=st_used, assigned=st_ass, __ident__=1)
                self_tok = Tok("self", stats={bb: stats}, __classes__=[cls], __ident__=1)
                if kind == "liveness":
                    val = {v: other for v in sorted(inp[0])}
                    snapshot = dict(val)
                else:
                    val = (set(inp[0]), set(inp[1]))
                    snapshot = (set(val[0]), set(val[1]))
                ev = PyEval(idx, AN, max_depth=6)
                ev.set_order = set_order
                try:
                    out = ev.run(f.node.body, {ps[0]: self_tok, ps[1]: val, ps[2]: bb})
                except Unsupported as e:
                    und = str(e)
                    break
                except Raised as e:
                    bad.append({"used": sorted(used), "assigned": sorted(assigned), "incoming": [sorted(i) for i in inp], "problem": f"raises {e}"})
                    continue
                res = out[1] if out[0] == "return" else None
                if kind == "liveness":
                    want = used | (inp[0] - assigned)
                    got = _keys(res) if isinstance(res, dict) else None
                    ok = got == want
                    shown = sorted(got) if got is not None else repr(res)[:60]
                    wanted = sorted(want)
                else:
                    wd, wm = inp[0] | assigned, inp[1] | assigned
                    got2 = (_keys(res[0]), _keys(res[1])) if isinstance(res, tuple) and len(res) == 2 else None
                    ok = got2 == (wd, wm)
                    shown = [sorted(g) if g is not None else None for g in got2] if got2 else repr(res)[:60]
                    wanted = [sorted(wd), sorted(wm)]
                untouched = val == snapshot and set(st_used) == set(used) and set(st_ass) == set(assigned)
                if not ok or not untouched:
                    bad.append({"used": sorted(used), "assigned": sorted(assigned), "incoming": [sorted(i) for i in inp], "result": shown,
                                "should_be": wanted, "inputs_left_untouched": untouched})
        if und:
            ctx.undecided("R-C09.2", key, f.where, und)
            decided = False
            continue
        ctx.check(not bad, "R-C09.2", key, f.where, {"cases": n, "universe": list(VARS), "counterexamples": bad[:3], "n_counterexamples": len(bad)},
                  "the block transfer function is not the gen/kill function of the analysis (live = used or (live_after and not "
                  "assigned); assigned = before or assigned here), or it changes a value the worklist loop has cached")
    return decided
