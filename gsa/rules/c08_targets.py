"""R-C08.7 (assignment targets)  expressions inside an assignment TARGET go through the expression builder too.

`a[(i := 0)] = 5`, `a[0 if c else 1] = 5`: the index of a subscript target is an arbitrary expression; an assignment expression in
it binds a variable that later statements may use, a conditional expression needs blocks.  `CFGBuilder.visit_Assign`
and `visit_AugAssign` are interpreted (helpers followed, `ExprBuilder.build` a recorder that returns a fresh built
expression) on a statement whose target is `a[INDEX]` and whose value is VALUE.  Decided: VALUE is handed to the expression
builder, and so is INDEX (or an expression that contains it); otherwise the raw index survives in the block: its assignment
expression is then counted as a *use* of the variable it binds ("`i` is not defined") and a conditional expression is an internal
error.
"""

from __future__ import annotations

from ..absint.minieval import Unsupported
from ..absint.pyeval import PyEval, Raised, Tok
from ..report import Ctx
from .C05 import mk_ast

B = "guppylang_internals.cfg.builder"


def _contains(node, tok) -> bool:
    if node is tok:
        return True
    if isinstance(node, Tok):
        return any(_contains(v, tok) for k, v in node.attrs.items() if not k.startswith("__"))
    if isinstance(node, (list, tuple)):
        return any(_contains(v, tok) for v in node)
    return False


def run(ctx: Ctx) -> bool:
    idx = ctx.idx
    cb = idx.find_class("CFGBuilder", B)
    decided = True
    for kind in ("Assign", "AugAssign"):
        f = cb.find_method(f"visit_{kind}")
        key = f"{cb.qualname}.visit_{kind}#index-expression-of-the-target-is-built"
        if f is None:
            ctx.undecided("R-C08.7", key, cb.where, "no visitor")
            decided = False
            continue
        ps = [a.arg for a in f.node.args.args]
        index = mk_ast("NamedExpr", "INDEX", __ident__=True, _fields=())
        value = mk_ast("Operand", "VALUE", __ident__=True, _fields=())
        target = mk_ast("Subscript", "target", value=mk_ast("Name", "a", id="a", __ident__=True), slice=index, ctx="Store", __ident__=True, _fields=("value", "slice"))
        if kind == "Assign":
            node = mk_ast("Assign", "stmt", targets=[target], value=value, __ident__=True)
        elif kind == "AugAssign":
            node = mk_ast("AugAssign", "stmt", target=target, op=Tok("Add"), value=value, __ident__=True)
        else:
            node = mk_ast("AnnAssign", "stmt", target=target, annotation=Tok("ann"), value=value, __ident__=True)
        built: list = []
        n = [0]

        def h_build(nd, e, env):
            x = e.ev(nd.args[0], env)
            built.append(x)
            n[0] += 1
            return (Tok(f"built{n[0]}", __class__="Name", __ident__=1), e.ev(nd.args[2], env))

        bb = Tok("bb", statements=[], __ident__=1)
        me = Tok("builder", cfg=Tok("cfg"), __classes__=cb.mro(), __ident__=1)
        env = {ps[0]: me, ps[1]: node, ps[2]: bb, "ExprBuilder.build": h_build}
        if len(ps) > 3:
            env[ps[3]] = Tok("jumps")
        try:
            PyEval(idx, B, max_depth=6).run(f.node.body, env)
        except Raised as e:
            ctx.undecided("R-C08.7", key, f.where, f"raises {e.cls or e}")
            decided = False
            continue
        except Unsupported as e:
            ctx.undecided("R-C08.7", key, f.where, str(e))
            decided = False
            continue
        value_built = any(_contains(x, value) for x in built)
        index_built = any(_contains(x, index) for x in built)
        if not value_built:
            ctx.undecided("R-C08.7", key, f.where, "the assigned value is not handed to ExprBuilder.build in a recognisable way")
            decided = False
            continue
        ctx.check(index_built, "R-C08.7", key, f.where, {"statement": {"Assign": "a[INDEX] = VALUE", "AugAssign": "a[INDEX] += VALUE", "AnnAssign": "a[INDEX]: T = VALUE"}[kind],
                                                     "handed_to_the_expression_builder": [getattr(x, "name", str(x)) for x in built]},
                  "`a[(i := 0)] = 5; return i` is rejected with '`i` is not defined' and `a[0 if c else 1] = 5` is an internal error: the index "
                  "expression of an assignment target never goes through the expression builder")
    return decided
