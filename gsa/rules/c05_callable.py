"""R-C05.1 (custom checkers that fold a call away)  `callable(e)` keeps the evaluation of `e`.

`CallableChecker.synthesize` replaces the call by a boolean constant that depends only on the TYPE of its argument.  Python still
evaluates the argument, so when it is an arbitrary expression (a call, a qubit allocation) the checked expression has to contain
the synthesized argument; for a plain variable or global name nothing needs to be evaluated.  The method is interpreted (the
expression synthesizer, the globals and the AST constructors are recorders) on an argument that is a call expression and on one
that is a place.  Decided: in the first case the node handed back contains the synthesized argument.
"""

from __future__ import annotations

import ast

from ..absint.minieval import Unsupported
from ..absint.pyeval import PyEval, Raised, Tok
from ..report import Ctx
from .C05 import mk_ast

M = "guppylang_internals.std._internal.checker"


def _contains(node, tok) -> bool:
    if node is tok:
        return True
    if isinstance(node, Tok):
        return any(_contains(v, tok) for k, v in node.attrs.items() if not k.startswith("__"))
    if isinstance(node, (list, tuple)):
        return any(_contains(v, tok) for v in node)
    return False


def run(ctx: Ctx) -> bool:
    idx = ctx.idx
    cls = idx.opt_class("CallableChecker", M)
    if cls is None:
        return True  # no such checker: nothing folds `callable(...)` away
    f = cls.methods.get("synthesize")
    key = f"{cls.qualname}.synthesize#argument-expression-still-evaluated"
    if f is None:
        ctx.undecided("R-C05.1", key, cls.where, "CallableChecker has no synthesize method")
        return False
    ps = [a.arg for a in f.node.args.args]

    class Ev(PyEval):
        n = 0

        def call(self, node_, env):
            fn = ast.unparse(node_.func)
            if fn.startswith("ast.") and isinstance(getattr(ast, fn[4:], None), type):
                Ev.n += 1
                vals = [self.ev(a, env) for a in node_.args]
                kw = {k.arg: self.ev(k.value, env) for k in node_.keywords if k.arg}
                return mk_ast(fn[4:], f"{fn[4:]}#{Ev.n}", args_=vals, **kw)
            return super().call(node_, env)

    bad = []
    try:
        for kind in ("call expression", "place"):
            raw = mk_ast("Call" if kind == "call expression" else "Name", "raw_argument", __ident__=True)
            checked = mk_ast("GlobalCall" if kind == "call expression" else "PlaceNode", "synthesized_argument", __ident__=True)
            ty = Tok("arg_ty", __class__="NumericType", __ident__=1)
            synth = Tok("synthesizer", __methods__={"synthesize": lambda r, a, checked=checked, ty=ty: (checked, ty)}, __ident__=1)
            glob = Tok("globals", __methods__={"get_instance_func": lambda r, a: None}, __ident__=1)
            me = Tok("checker", ctx=Tok("ctx", globals=glob, __ident__=1), node=mk_ast("Call", "call_node", __ident__=True), __classes__=cls.mro(), __ident__=1)

            def h_node(nm):
                def h(nd, e, env):
                    vals = [e.ev(a, env) for a in nd.args]
                    kw = {k.arg: e.ev(k.value, env) for k in nd.keywords if k.arg}
                    return mk_ast(nm, f"{nm}(...)", args_=vals, **kw)
                return h

            env = {ps[0]: me, ps[1]: [raw], "check_num_args": lambda nd, e, env: None, "ExprSynthesizer": lambda nd, e, env, synth=synth: synth,
                   "with_loc": lambda nd, e, env: e.ev(nd.args[1], env), "with_type": lambda nd, e, env: e.ev(nd.args[1], env),
                   "bool_type": lambda nd, e, env: Tok("bool"), "TupleType": h_node("TupleType"), "TupleAccessAndDrop": h_node("TupleAccessAndDrop")}
            try:
                out = Ev(idx, M, max_depth=4).run(f.node.body, env)
            except Raised as e:
                bad.append({"argument": kind, "outcome": f"raises {e.cls or e}"})
                continue
            if out[0] != "return" or not (isinstance(out[1], tuple) and len(out[1]) == 2):
                raise Unsupported(f"synthesize returns {out!r}"[:80])
            if kind == "call expression" and not _contains(out[1][0], checked):
                bad.append({"argument": kind, "node_handed_back": repr(out[1][0]), "contains_the_synthesized_argument": False})
    except Unsupported as e:
        ctx.undecided("R-C05.1", key, f.where, str(e))
        return False
    ctx.check(not bad, "R-C05.1", key, f.where, {"cases": 2, "counterexamples": bad},
              "`callable(f())` never calls f and `callable(qubit())` makes an allocation (and a non-droppable value) disappear: the call is "
              "replaced by a constant and its argument expression is dropped")
    return True
