"""R-C14.7  for struct types, classification, declared HUGR bound and lowered HUGR type agree.

"Its HUGR type is a copyable HUGR type exactly when the Guppy type is copyable."  For a struct three things
must say the same: (1) the `copyable` property (which also looks at the type ARGUMENTS), (2) `hugr_bound`
(the bound declared for variables/parameters of that type), (3) the bound of the type `to_hugr` actually
produces (a tuple of the lowered FIELD types).  The three are interpreted from their syntax trees on struct
tokens whose argument and field have independent copy/drop flags (4 x 4 cases: this includes a *phantom*
parameter -- a type argument that occurs in no field).

  a. copyable  <=>  hugr_bound is Copyable                 (classification vs declared bound)
  b. copyable  <=>  every lowered field type is Copyable   (classification vs lowered type)
"""

from __future__ import annotations

import ast
import itertools

from ..absint.minieval import Opaque, Unsupported
from ..absint.pyeval import PyEval, Raised, Tok
from ..report import Ctx

TY = "guppylang_internals.tys.ty"


def _bound_name(v) -> str | None:
    if isinstance(v, str):
        return v
    if isinstance(v, Opaque):
        return v.what.split(".")[-1]
    return None


def run(ctx: Ctx) -> None:
    idx = ctx.idx
    st = idx.find_class("StructType", TY)
    ptb = idx.find_class("ParametrizedTypeBase", TY)
    tb = idx.find_class("TypeBase", TY)
    flags = list(itertools.product((False, True), repeat=2))
    bad_a, bad_b, und = [], [], None
    n = 0

    def ty_tok(name, c, d):
        b = "Copyable" if c else "Linear"
        return Tok(name, copyable=c, droppable=d, linear=not c and not d, affine=d and not c, hugr_bound=b,
                   __methods__={"to_hugr": lambda recv, a, b=b: ("lowered", b)})

    def find_prop(name):
        for c in (st, ptb, tb):
            m = c.methods.get(name)
            if m is not None:
                return c, m
        return None, None

    for (ac, ad), (fc, fd) in itertools.product(flags, flags):
        n += 1
        arg = Tok("arg", __class__="TypeArg", ty=ty_tok("argty", ac, ad))
        fld = Tok("field", name="f", ty=ty_tok("fieldty", fc, fd))
        self_tok = Tok("self", args=[arg], fields=[fld], defn=Tok("defn", fields=[fld]), __classes__=[st, ptb, tb], __ident__=1)
        lowered: list = []

        def h_join(node, ev, env):
            vals = []
            for a in node.args:
                if isinstance(a, ast.Starred):
                    vals.extend(ev.ev(a.value, env))
                else:
                    vals.append(ev.ev(a, env))
            names = [_bound_name(v) for v in vals]
            if any(x is None for x in names):
                raise Unsupported(f"TypeBound.join of {vals!r}")
            return "Linear" if "Linear" in names else "Copyable"

        def h_super(node, ev, env):
            # `super().hugr_bound` inside ParametrizedTypeBase: the TypeBase implementation on the same object
            m = tb.methods.get("hugr_bound")
            out = ev.run(m.node.body, {m.node.args.args[0].arg: self_tok, **{k: v for k, v in env.items() if callable(v)}})
            return Tok("super", hugr_bound=out[1] if out[0] == "return" else None)

        def h_tuple(node, ev, env, lowered=lowered):
            for a in node.args:
                v = ev.ev(a.value, env) if isinstance(a, ast.Starred) else [ev.ev(a, env)]
                lowered.extend(v)
            return Tok("ht.Tuple")

        env = {"ht.TypeBound.join": h_join, "super": h_super, "ht.Tuple": h_tuple}
        try:
            ev = PyEval(idx, TY, max_depth=12)
            cop = ev.attr(self_tok, "copyable", ast.Attribute(value=ast.Name(id="self"), attr="copyable"), dict(env))
            hb = _bound_name(ev.attr(self_tok, "hugr_bound", ast.Attribute(value=ast.Name(id="self"), attr="hugr_bound"), dict(env)))
            _, th = find_prop("to_hugr")
            ev.run(th.node.body, {th.node.args.args[0].arg: self_tok, th.node.args.args[1].arg: Tok("ctx"), **env})
        except (Unsupported, Raised) as e:
            und = str(e)
            break
        if not isinstance(cop, bool) or hb not in ("Copyable", "Linear") or not lowered:
            und = f"not evaluable: copyable={cop!r} hugr_bound={hb!r} lowered={lowered!r}"
            break
        low_copyable = all(x == ("lowered", "Copyable") for x in lowered)
        case = {"type_argument": {"copyable": ac, "droppable": ad}, "field_type": {"copyable": fc, "droppable": fd}}
        if cop != (hb == "Copyable"):
            bad_a.append({**case, "copyable": cop, "hugr_bound": hb})
        if cop != low_copyable:
            bad_b.append({**case, "copyable": cop, "lowered_type_is_copyable": low_copyable})
    if und:
        ctx.undecided("R-C14.7", f"{st.qualname}#classification-vs-bound-vs-lowering", st.where, und)
        return
    ctx.check(not bad_a, "R-C14.7", f"{st.qualname}#copyable<=>hugr_bound", st.where, {"cases": n, "counterexamples": bad_a[:3]},
              "a struct type is classified copyable while the HUGR bound declared for it is Linear (or the other way round)")
    ctx.check(not bad_b, "R-C14.7", f"{st.qualname}#copyable<=>lowered-type(phantom-parameters)", st.where, {"cases": n, "counterexamples": bad_b[:3]},
              "a struct whose type ARGUMENT is not copyable but whose FIELDS are (a phantom parameter, `Tag[qubit]` with `Tag[T]{ident: int}`) is "
              "classified non-copyable while its lowered HUGR type (the tuple of its fields) is Copyable")
