"""R-C32.5  calls that the front end interprets by callee NAME must look at their keywords.

Ordinary calls go through `ExprSynthesizer/ExprChecker.visit_Call`, which reject keyword arguments
(R-C32.3).  A few calls are special forms recognised by the *name* of the callee before they ever
reach those visitors: `comptime(...)`/`py(...)`, and the modifiers `dagger()`, `control(...)`,
`power(...)` in `with` items.  Their handler is then the only place that sees `ast.Call.keywords`.

Sites are found, not listed: a function is a special-form handler if it matches
`ast.Call(func=ast.Name(id=<literal>))` in a `match`, or tests `isinstance(x, ast.Call)` together
with `x.func.id == / in <literal(s)>`.  Rule: no path from the function's entry through an
accepting arm to a normal exit avoids reading the matched call's `.keywords` (a test on it, a
`keywords=` sub-pattern, or handing it on).
"""

from __future__ import annotations

import ast

from ..flow import CFG, node_exprs
from ..index import walk_no_nested
from ..report import Ctx


def _reads_keywords(n) -> bool:
    for e in node_exprs(n):
        for x in ast.walk(e):
            if isinstance(x, ast.Attribute) and x.attr == "keywords" and isinstance(x.ctx, ast.Load):
                return True
            if isinstance(x, ast.MatchClass) and "keywords" in x.kwd_attrs:
                return True
    return False


def _special_call_pattern(p: ast.AST) -> str | None:
    """`ast.Call(func=ast.Name(id='dagger'))` -> 'dagger'"""
    if isinstance(p, ast.MatchClass) and ast.unparse(p.cls) in ("ast.Call", "Call"):
        for k, sub in zip(p.kwd_attrs, p.kwd_patterns):
            if k == "func" and isinstance(sub, ast.MatchClass) and ast.unparse(sub.cls) in ("ast.Name", "Name"):
                for k2, s2 in zip(sub.kwd_attrs, sub.kwd_patterns):
                    if k2 == "id" and isinstance(s2, ast.MatchValue) and isinstance(s2.value, ast.Constant):
                        return str(s2.value.value)
    return None


def run_semantic(ctx: Ctx) -> set[str]:
    """The two known special-form handlers, interpreted on token ASTs: `dagger()`, `control(c)`, `power(n)` as `with` items and
    `comptime(v)` / `py(v)` as expressions -- each once as written and once with an extra keyword argument.  Decided: the form
    with the keyword is rejected (an error is raised), the form without is accepted.  Returns the qualified names of the
    handlers that were decided (their arms need no path argument about `.keywords`)."""
    from ..absint.astmodel import N
    from ..absint.minieval import Unsupported
    from ..absint.pyeval import PyEval, Raised, Tok
    idx = ctx.idx
    decided: set[str] = set()

    def call(name, nargs, kw):
        return N("Call", func=N("Name", id=name), args=[N("Name", id=f"a{i}") for i in range(nargs)],
                 keywords=[N("keyword", arg="ignored", value=N("Constant", value=True))] if kw else [])

    hooks = {nm: (lambda nd, e, env, nm=nm: Tok(nm, __ident__=1)) for nm in ("Dagger", "Control", "Power", "ComptimeExpr", "UnsupportedError", "WrongNumberOfArgsError",
                                                                              "UnknownModifierError", "EmptyComptimeExprError", "Span")}
    hooks.update({"to_span": lambda nd, e, env: Tok("span", start=Tok("start"), end=Tok("end")), "with_loc": lambda nd, e, env: e.ev(nd.args[1], env)})
    jobs = []
    try:
        hw = idx.method("CFGBuilder", "_handle_withitem", "guppylang_internals.cfg.builder")
        jobs += [(hw, f"{nm}", lambda c, hw=hw: {hw.node.args.args[0].arg: Tok("builder", __classes__=hw.cls.mro(), __ident__=1),
                                                 hw.node.args.args[1].arg: Tok("withitem", context_expr=c, optional_vars=None, __ident__=1)}, nm, k)
                 for nm, k in (("dagger", 0), ("control", 1), ("power", 1))]
    except Exception:  # noqa: BLE001
        pass
    ice = idx.funcs.get("guppylang_internals.cfg.builder.is_comptime_expression")
    if ice is not None:
        jobs += [(ice, nm, lambda c, ice=ice: {ice.node.args.args[0].arg: c}, nm, 1) for nm in ("comptime", "py")]
    per_func: dict[str, list] = {}
    for f, form, mkenv, nm, nargs in jobs:
        key = f"{f.qualname}#special-form[{form}]-rejects-keywords"
        bad = []
        try:
            for kw in (False, True):
                try:
                    out = PyEval(idx, f.module.name, max_depth=6).run(f.node.body, {**hooks, **mkenv(call(nm, nargs, kw))})
                    raised = str(out[1]) if out[0] == "raise" else None
                    accepted = out[0] == "return" and out[1] is not None
                except Raised as e:
                    raised, accepted = e.cls or str(e), False
                if kw and raised is None:
                    bad.append({"call": f"{nm}(…, ignored=True)", "outcome": "accepted", "should_be": "rejected (keyword arguments are not supported)"})
                if not kw and not accepted:
                    bad.append({"call": f"{nm}(…)", "outcome": raised or "not recognised", "should_be": "accepted"})
        except Unsupported as e:
            ctx.undecided("R-C32.5", key, f.where, str(e))
            per_func.setdefault(f.qualname, []).append(False)
            continue
        ctx.check(not bad, "R-C32.5", key, f.where, {"counterexamples": bad},
                  f"`{nm}(…, name=value)` is recognised by this function and accepted without ever looking at the keyword arguments: they are silently dropped")
        per_func.setdefault(f.qualname, []).append(True)
    return {q for q, oks in per_func.items() if all(oks)}


def run(ctx: Ctx) -> None:
    idx = ctx.idx
    n_sites = 0
    semantic = run_semantic(ctx)
    for f in idx.iter_funcs(("guppylang_internals", "guppylang")):
        if f.qualname in semantic:
            continue  # decided by interpretation above
        accepting: list[tuple[str, list[ast.stmt]]] = []  # (form name, statements executed when the form is recognised)
        for n in walk_no_nested(f.node):
            if isinstance(n, ast.Match):
                for case in n.cases:
                    for p in ast.walk(case.pattern):
                        nm = _special_call_pattern(p)
                        if nm:
                            accepting.append((nm, case.body))
            if isinstance(n, ast.If):
                t = n.test
                txt = ast.unparse(t)
                if "isinstance(" in txt and "ast.Call" in txt and ".func.id" in txt:
                    lits = [c.value for c in ast.walk(t) if isinstance(c, ast.Constant) and isinstance(c.value, str)]
                    if lits:
                        accepting.append(("/".join(lits), n.body))
        if not accepting:
            continue
        g = CFG(f.node)
        kw_nodes = {n.id for n in g.nodes if _reads_keywords(n)}

        def not_a_call_edge(n, lab) -> bool:
            # the false edge of `if isinstance(x, ast.Call)` cannot lead to an arm that matches a Call: the keyword test may
            # sit inside that `if` (`if isinstance(e, ast.Call): kws = e.keywords; if kws: raise …`)
            if lab != "F" or n.kind != "test":
                return False
            t = getattr(n.ast, "test", n.ast)
            return isinstance(t, ast.Call) and isinstance(t.func, ast.Name) and t.func.id == "isinstance" and len(t.args) == 2 \
                and ast.unparse(t.args[1]) in ("ast.Call", "Call")

        from_entry = g.reachable(g.entry, blocked=lambda n: n.id in kw_nodes, edge_blocked=not_a_call_edge)
        for form, body in accepting:
            n_sites += 1
            if not body:
                continue
            body_nodes = [n for st in body for n in g.nodes_for(st)]
            # an accepting node reached without having read keywords, from which the normal exit is reachable without reading them
            bad = [n for n in body_nodes if n.id in from_entry and n.id not in kw_nodes
                   and g.exit in g.reachable(n.id, blocked=lambda m: m.id in kw_nodes)]
            ctx.check(not bad, "R-C32.5", f"{f.qualname}#special-form[{form}]-reads-keywords", f"{f.module.rel}:{body[0].lineno}",
                      {"form": form, "keyword_reading_nodes": len(kw_nodes), "accepting_nodes_that_bypass_them": len(bad)},
                      f"`{form.split('/')[0]}(…, name=value)` is recognised by this function and accepted without ever looking at the keyword "
                      f"arguments: they are silently dropped")
    if len(semantic) < 2:
        ctx.floor("R-C32.5", "special-form call arms", n_sites, 4)
