"""R-C32.5  calls that the front end interprets by callee NAME must look at their keywords.

Ordinary calls go through `ExprSynthesizer/ExprChecker.visit_Call`, which reject keyword arguments
(R-C32.3).  A few calls are special forms recognised by the *name* of the callee before they ever
reach those visitors: `comptime(...)`/`py(...)`, and the modifiers `dagger()`, `control(...)`,
`power(...)` in `with` items.  Their handler is then the only place that sees `ast.Call.keywords`.

Sites are found, not listed: a function is a special-form handler if it matches
`ast.Call(func=ast.Name(id=<literal>))` in a `match`, or tests `isinstance(x, ast.Call)` together
with `x.func.id == / in <literal(s)>`.  Rule: no path from the function's entry through an
accepting arm to a normal exit avoids reading the matched call's `.keywords` (a test on it, a
`keywords=` sub-pattern, or handing it on).
"""

from __future__ import annotations

import ast

from ..flow import CFG, node_exprs
from ..index import walk_no_nested
from ..report import Ctx


def _reads_keywords(n) -> bool:
    for e in node_exprs(n):
        for x in ast.walk(e):
            if isinstance(x, ast.Attribute) and x.attr == "keywords" and isinstance(x.ctx, ast.Load):
                return True
            if isinstance(x, ast.MatchClass) and "keywords" in x.kwd_attrs:
                return True
    return False


def _special_call_pattern(p: ast.AST) -> str | None:
    """`ast.Call(func=ast.Name(id='dagger'))` -> 'dagger'"""
    if isinstance(p, ast.MatchClass) and ast.unparse(p.cls) in ("ast.Call", "Call"):
        for k, sub in zip(p.kwd_attrs, p.kwd_patterns):
            if k == "func" and isinstance(sub, ast.MatchClass) and ast.unparse(sub.cls) in ("ast.Name", "Name"):
                for k2, s2 in zip(sub.kwd_attrs, sub.kwd_patterns):
                    if k2 == "id" and isinstance(s2, ast.MatchValue) and isinstance(s2.value, ast.Constant):
                        return str(s2.value.value)
    return None


def run(ctx: Ctx) -> None:
    idx = ctx.idx
    n_sites = 0
    for f in idx.iter_funcs(("guppylang_internals", "guppylang")):
        accepting: list[tuple[str, list[ast.stmt]]] = []  # (form name, statements executed when the form is recognised)
        for n in walk_no_nested(f.node):
            if isinstance(n, ast.Match):
                for case in n.cases:
                    for p in ast.walk(case.pattern):
                        nm = _special_call_pattern(p)
                        if nm:
                            accepting.append((nm, case.body))
            if isinstance(n, ast.If):
                t = n.test
                txt = ast.unparse(t)
                if "isinstance(" in txt and "ast.Call" in txt and ".func.id" in txt:
                    lits = [c.value for c in ast.walk(t) if isinstance(c, ast.Constant) and isinstance(c.value, str)]
                    if lits:
                        accepting.append(("/".join(lits), n.body))
        if not accepting:
            continue
        g = CFG(f.node)
        kw_nodes = {n.id for n in g.nodes if _reads_keywords(n)}

        def not_a_call_edge(n, lab) -> bool:
            # the false edge of `if isinstance(x, ast.Call)` cannot lead to an arm that matches a Call: the keyword test may
            # sit inside that `if` (`if isinstance(e, ast.Call): kws = e.keywords; if kws: raise …`)
            if lab != "F" or n.kind != "test":
                return False
            t = getattr(n.ast, "test", n.ast)
            return isinstance(t, ast.Call) and isinstance(t.func, ast.Name) and t.func.id == "isinstance" and len(t.args) == 2 \
                and ast.unparse(t.args[1]) in ("ast.Call", "Call")

        from_entry = g.reachable(g.entry, blocked=lambda n: n.id in kw_nodes, edge_blocked=not_a_call_edge)
        for form, body in accepting:
            n_sites += 1
            if not body:
                continue
            body_nodes = [n for st in body for n in g.nodes_for(st)]
            # an accepting node reached without having read keywords, from which the normal exit is reachable without reading them
            bad = [n for n in body_nodes if n.id in from_entry and n.id not in kw_nodes
                   and g.exit in g.reachable(n.id, blocked=lambda m: m.id in kw_nodes)]
            ctx.check(not bad, "R-C32.5", f"{f.qualname}#special-form[{form}]-reads-keywords", f"{f.module.rel}:{body[0].lineno}",
                      {"form": form, "keyword_reading_nodes": len(kw_nodes), "accepting_nodes_that_bypass_them": len(bad)},
                      f"`{form.split('/')[0]}(…, name=value)` is recognised by this function and accepted without ever looking at the keyword "
                      f"arguments: they are silently dropped")
    ctx.floor("R-C32.5", "special-form call arms", n_sites, 4)
