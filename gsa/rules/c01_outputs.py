"""R-C01.6  what a basic block outputs is what each successor declares as inputs (order included).

`compile_bb` is interpreted as a whole (the HUGR builder, the data-flow container and the statement / expression compilers
are recorder tokens) on symbolic signatures: 1 or 2 successors, rows over four
variables covering every copy/drop class with names chosen against the class order
(z: copyable+droppable, a: droppable only, m: linear, b: copyable only), the non-linear part of
each row chosen independently per successor -- a value that can be copied or dropped may be live in only some successors; for a
copyable, non-droppable one: used before the branch and again in one arm -- the linear part shared (the linearity checker
guarantees that for places that are neither copyable nor droppable), every row given in two source orders.  `sort_vars` / `compare_var` are interpreted
too (`sorted(..., key=cmp_to_key(compare_var))`); the order a successor declares is the one the code's own `sort_vars` gives
for its row (the specification "linear last, then by name" only when `sort_vars` cannot be interpreted); `choose_vars_for_tuple_sum` and `set_block_outputs` are recorders.  (If `sort_vars` cannot be interpreted it is
modelled by the specification and the flag returned by `run` is False: R-C01.3's shape rules then tie it to `compare_var`.)

Decided:
  outputs   for every successor i, (variables in branch-sum row i) ++ (regular outputs) is exactly spec_sort(output_rows[i]);
  inputs    a non-entry block declares its inputs (types given to `add_block`, and the binding of the block's input wires to
            places in the data-flow container) in the order spec_sort(input_row); the entry block binds them in the order of
            the signature (the function's parameters).
So what a block passes is what its successor, compiled by the same function, declares.  A mismatch is an ill-typed edge between
two basic blocks.
"""

from __future__ import annotations

import ast
import itertools

from ..absint.minieval import Unsupported
from ..absint.pyeval import PyEval, Raised, Tok
from ..report import Ctx

VARS = {"z": (True, True), "a": (False, True), "m": (False, False), "b": (True, False)}  # name -> (copyable, droppable)


def _place(name: str) -> Tok:
    c, d = VARS[name]
    return Tok(name, id=name, name=name, ty=Tok(f"ty_{name}", copyable=c, droppable=d, linear=not c and not d, __ident__=1), __ident__=1)


def _spec_sort(row):
    return sorted(row, key=lambda p: (p.attrs["ty"].attrs["linear"], p.name))


def run(ctx: Ctx) -> bool:
    idx = ctx.idx
    cb = idx.find_func("compile_bb", "guppylang_internals.compiler.cfg_compiler")
    key = f"{cb.qualname}#outputs-match-successor-inputs"
    # the whole function is interpreted (not a slice of it: locals hoisted above the output part by a refactoring stay bound);
    # everything before the output part is modelled by recorders on the builder / container tokens
    stmts = cb.node.body
    params = [a.arg for a in cb.node.args.args]
    drop = [n for n, (c, d) in VARS.items() if c or d]  # may differ between successors
    nondrop = [n for n, (c, d) in VARS.items() if not c and not d]  # linear: live in all successors or in none
    subsets = lambda xs: [list(c) for r in range(len(xs) + 1) for c in itertools.combinations(xs, r)]  # noqa: E731
    cases = []
    for nd in subsets(nondrop):
        for d0 in subsets(drop):
            cases.append([d0 + nd])  # one successor
            for d1 in subsets(drop):
                cases.append([d0 + nd, d1 + nd])
    bad: list = []
    n = 0
    # is sort_vars interpretable?  (one probe; otherwise it is modelled by the specification)
    probe_env = {"__row__": [_place(x) for x in ("m", "z", "b", "a")]}
    try:
        got = PyEval(idx, cb.module.name).ev(ast.parse("sort_vars(__row__)", mode="eval").body, probe_env)
        sort_hook = {}
        if not isinstance(got, list):
            raise Unsupported("sort_vars does not give a list")
    except (Unsupported, Raised):
        sort_hook = {"sort_vars": lambda node, ev, env: _spec_sort(ev.ev(node.args[0], env))}
    decided = not sort_hook

    def _code_sort(row):
        return PyEval(idx, cb.module.name).ev(ast.parse("sort_vars(__row__)", mode="eval").body, {"__row__": list(row)})
    for rows_names in cases:
        for flip in itertools.product((False, True), repeat=len(rows_names)):
            rows = [[_place(x) for x in (reversed(r) if f else r)] for r, f in zip(rows_names, flip)]
            n += 1
            rec: dict = {}

            def h_choose(node, ev, env, rec=rec):
                kw = {k.arg: ev.ev(k.value, env) for k in node.keywords if k.arg}
                pos = [ev.ev(a, env) for a in node.args]
                rec["sum_rows"] = kw.get("output_vars", pos[1] if len(pos) > 1 else None)
                return Tok("sum_port", __ident__=1)

            def m_set(recv, vals, rec=rec):
                rec["outputs"] = list(vals[1:])
                rec["port"] = vals[0]
                return None

            succs = [Tok(f"succ{i}", is_exit=False, __ident__=1) for i in range(len(rows))]
            bb = Tok("bb", successors=succs, sig=Tok("sig", input_row=[], output_rows=rows, __ident__=1), branch_pred=Tok("pred"), is_exit=False, reachable=True,
                     statements=[], __ident__=1)
            port = lambda nm: Tok(nm, __methods__={"out_port": lambda r, a: Tok("out_port")}, __ident__=1)  # noqa: E731
            block = Tok("block", input_node=[], __methods__={"set_block_outputs": m_set}, __ident__=1)
            hugr = Tok("hugr", __methods__={"port_type": lambda r, a: Tok("OpaqueBool")}, __ident__=1)
            builder = Tok("builder", hugr=hugr, exit=Tok("exit_node"), __methods__={"add_entry": lambda r, a: block, "add_block": lambda r, a: block}, __ident__=1)
            dfg_builder = Tok("dfg.builder", __methods__={"add_op": lambda r, a: port("unit_sum_port")}, __ident__=1)
            dfg = Tok("dfg", builder=dfg_builder, __getitem__=lambda p: p, __ident__=1)
            dfg.attrs["__methods__"] = {"__setitem__": lambda r, a: None}
            env = {
                params[0]: bb, params[1]: builder, params[2]: True, params[3]: Tok("ctx", __ident__=1),
                "DFContainer": lambda node, ev, env: dfg,
                "StmtCompiler": lambda node, ev, env: Tok("stmt_compiler", __methods__={"compile_stmts": lambda r, a: a[1]}),
                "ExprCompiler": lambda node, ev, env: Tok("expr_compiler", __methods__={"compile": lambda r, a: port("pred_port")}),
                **sort_hook,
                "choose_vars_for_tuple_sum": h_choose,
            }
            ev = PyEval(idx, cb.module.name)
            try:
                r = ev.run(stmts, env)
            except Unsupported as e:
                ctx.undecided("R-C01.6", key, cb.where, str(e))
                return False
            except Raised as e:
                bad.append({"output_rows": [[p.name for p in r_] for r_ in rows], "problem": f"raises {e}"})
                continue
            if "outputs" not in rec:
                ctx.undecided("R-C01.6", key, cb.where, f"set_block_outputs not reached ({r[0]})")
                return False
            regular = [p.name for p in rec["outputs"]]
            for i, row in enumerate(rows):
                in_sum = [p.name for p in rec["sum_rows"][i]] if rec.get("sum_rows") is not None else []
                got = in_sum + regular
                want = [p.name for p in (_code_sort(row) if decided else _spec_sort(row))]
                if got != want:
                    bad.append({"output_rows": [[p.name for p in r_] for r_ in rows], "successor": i, "block_passes": got, "successor_expects": want,
                                "branch_sum_used": rec.get("sum_rows") is not None})
                    break
    ctx.check(not bad, "R-C01.6", key, cb.where, {"cases": n, "variables": {k: {"copyable": c, "droppable": d} for k, (c, d) in VARS.items()},
                                                   "counterexamples": bad[:3], "n_counterexamples": len(bad)},
              "a basic block passes its live variables to a successor in another order (or another set) than the successor declares as "
              "inputs: the two blocks' signatures do not match and the HUGR is invalid")

    # ---------------------------------------------------------------- the order is total on every kind of place name
    key_t = f"{cb.qualname}#variable-order-is-total-on-all-names"
    names_pool = ["x", "x2", "q1", "q", "y", "y3", "%tmp3", "%tmp3.a", "x2.b", "x10", "x02", "q01", "y3.f1", "y3.f01"]
    bad_t = []
    und_t = None

    def named(nm):
        return Tok(nm, id=nm, name=nm, __str__=nm, ty=Tok(f"ty_{nm}", copyable=True, droppable=True, linear=False, __ident__=1), __ident__=1)

    if decided:
        import random
        rng = random.Random(7)
        for size in (2, 3, 5, len(names_pool)):
            for _ in range(6):
                pick = rng.sample(names_pool, size)
                orders = []
                try:
                    for perm in (pick, list(reversed(pick)), sorted(pick)):
                        got = _code_sort([named(nm) for nm in perm])
                        orders.append([p.name for p in got])
                except Raised as e:
                    bad_t.append({"row": pick, "problem": f"sort_vars raises {e.cls or e}"})
                    continue
                except Unsupported as e:
                    und_t = str(e)
                    break
                if not all(o == orders[0] for o in orders) or sorted(orders[0]) != sorted(pick):
                    bad_t.append({"row": pick, "orders_for_three_input_orders": orders})
            if und_t:
                break
        if und_t:
            ctx.undecided("R-C01.6", key_t, cb.where, und_t)
        else:
            ctx.check(not bad_t, "R-C01.6", key_t, cb.where, {"name_pool": names_pool, "rows": 24, "counterexamples": bad_t[:3], "n_counterexamples": len(bad_t)},
                      "for some names of live variables (`x` next to `x2`, fields of temporaries, ...) the order in which a block passes its variables on is "
                      "not defined -- the comparison raises, or the result depends on the order the row was given in: an accepted program crashes "
                      "the compiler or two blocks disagree about their common signature")

    # ---------------------------------------------------------------- the input side
    key = f"{cb.qualname}#inputs-declared-in-the-order-predecessors-pass-them"
    bad = []
    n = 0
    names = list(VARS)
    for k in range(len(names) + 1):
        for row_names in itertools.permutations(names, k):
            for is_entry in (False, True):
                n += 1
                row = [_place(x) for x in row_names]
                for p in row:
                    p.attrs["ty"].attrs["__methods__"] = {"to_hugr": lambda r, a: ("hugr", r.name)}
                wires = [Tok(f"in_wire{i}", __ident__=1) for i in range(len(row))]
                declared: list = []
                bound: list = []
                block = Tok("block", input_node=wires, __methods__={"set_block_outputs": lambda r, a: None}, __ident__=1)
                hugr = Tok("hugr", __methods__={"port_type": lambda r, a: Tok("OpaqueBool")}, __ident__=1)
                builder = Tok("builder", hugr=hugr, exit=Tok("exit_node"), __ident__=1)
                builder.attrs["__methods__"] = {"add_entry": lambda r, a, declared=declared: (declared.append("entry"), block)[1],
                                                "add_block": lambda r, a, declared=declared: (declared.extend(a), block)[1]}
                dfg_builder = Tok("dfg.builder", __methods__={"add_op": lambda r, a: Tok("unit_sum_port", __ident__=1)}, __ident__=1)
                dfg = Tok("dfg", builder=dfg_builder, __getitem__=lambda p: p, __ident__=1)
                dfg.attrs["__methods__"] = {"__setitem__": lambda r, a, bound=bound: bound.append((a[0].name, a[1].name))}
                succ = Tok("succ", is_exit=False, __ident__=1)
                bb = Tok("bb", successors=[succ], sig=Tok("sig", input_row=row, output_rows=[[]], __ident__=1), branch_pred=None, is_exit=False, reachable=True,
                         statements=[], __ident__=1)
                env = {
                    params[0]: bb, params[1]: builder, params[2]: is_entry, params[3]: Tok("ctx", __ident__=1),
                    "DFContainer": lambda node, ev, env, dfg=dfg: dfg,
                    "StmtCompiler": lambda node, ev, env: Tok("stmt_compiler", __methods__={"compile_stmts": lambda r, a: a[1]}),
                    "ExprCompiler": lambda node, ev, env: Tok("expr_compiler", __methods__={"compile": lambda r, a: Tok("pred_port")}),
                    **sort_hook,
                }
                ev = PyEval(idx, cb.module.name)
                try:
                    ev.run(stmts, env)
                except Unsupported as e:
                    ctx.undecided("R-C01.6", key, cb.where, str(e))
                    return False
                except Raised as e:
                    bad.append({"input_row": list(row_names), "entry_block": is_entry, "problem": f"raises {e}"})
                    continue
                order = list(row_names) if is_entry else [p.name for p in (_code_sort(row) if decided else _spec_sort(row))]
                want_bound = [(x, f"in_wire{i}") for i, x in enumerate(order)]
                want_decl = ["entry"] if is_entry else [("hugr", f"ty_{x}") for x in order]
                if bound != want_bound or declared != want_decl:
                    bad.append({"input_row": list(row_names), "entry_block": is_entry, "input_wires_bound_to": bound, "should_be": want_bound,
                                "declared_input_types": [d if isinstance(d, str) else d[1] for d in declared]})
    ctx.check(not bad, "R-C01.6", key, cb.where, {"cases": n, "counterexamples": bad[:3], "n_counterexamples": len(bad)},
              "a basic block declares or binds its inputs in another order than its predecessors pass them (sorted: droppable first, then by "
              "name; the entry block: the order of the function's parameters): values arrive under the wrong variable")
    return decided
