"""C16 implicit numeric coercions only widen -- direction clause.

R-C16.1  `try_coerce_to`, interpreted on every (actual, expected) pair over
         {nat, int, float, non-numeric}: it coerces exactly when both are numeric and
         actual is strictly narrower in nat < int < float (the order is read from the enum
         body: member order + `__lt__`), asks the *actual* type for the conversion method
         named after the *expected* kind, and checks the call against the expected type.
R-C16.2  every caller of `try_coerce_to` is interpreted on unification {succeeds, fails} x coercion {possible, impossible}:
         no attempt after a successful unification; exactly one attempt, with (actual, expected, node), after a failed one; its
         result is what is returned, else a Guppy type error is raised (c16_callers.py; guard-shape rule only as fallback).
R-C16.3  the three widening conversion methods exist on the std numeric types.
R-C16.5  no type annotation is written onto a node before `check_type_against` accepted it (c16_stale.py).
Not decided: converted values.
"""

from __future__ import annotations

import ast
import itertools

from ..absint.pyeval import PyEval, Tok
from ..absint.minieval import Opaque, Unsupported
from ..guards import lexical_guards
from ..index import AnalysisError, call_name, calls_in, dotted, walk_no_nested
from ..report import Ctx

LEVEL = "other"
EXPLANATION = (
    "The coercion decision function is interpreted (syntax tree, own interpreter) on the complete 4x4 table of "
    "actual/expected kinds with the enum order folded from the class body; plus a who-may-call rule with its guard "
    "and a table check of the conversion methods in std/num.py."
)

EC = "guppylang_internals.checker.expr_checker"
CANON = {"Nat": 0, "Int": 1, "Float": 2}


class KindEval(PyEval):
    """Kinds are tokens carrying the enum's folded `.value`; `<` follows the enum's own __lt__."""

    def __init__(self, idx, module, lt_body: ast.FunctionDef | None):
        super().__init__(idx, module)
        self.lt = lt_body

    kinds: dict = {}  # name -> kind token, in definition order (set by run)

    def attr(self, value, name, node, env):
        d = dotted(node) or ""
        if d.endswith("NumericType.Kind") or d == "Kind":
            return list(self.kinds.values())  # iterating an Enum class yields its members in definition order
        if d.split(".")[-2:-1] == ["Kind"] and name in self.kinds:
            return self.kinds[name]
        return super().attr(value, name, node, env)

    def tok_compare(self, op, a, b):
        if isinstance(a, Tok) and isinstance(b, Tok) and "value" in a.attrs and "value" in b.attrs:
            if self.lt is None:
                raise Unsupported("enum has no __lt__")
            ps = [x.arg for x in self.lt.args.args]
            out = PyEval(self.idx, self.module.name).run(self.lt.body, {ps[0]: a, ps[1]: b})
            if out[0] != "return" or not isinstance(out[1], bool):
                raise Unsupported("__lt__ not evaluable")
            lt = out[1]
            out2 = PyEval(self.idx, self.module.name).run(self.lt.body, {ps[0]: b, ps[1]: a})
            gt = out2[1]
            eq = a == b
            return {ast.Lt: lt, ast.Gt: gt, ast.LtE: lt or eq, ast.GtE: gt or eq}[type(op)]
        return super().tok_compare(op, a, b)


def run(ctx: Ctx) -> None:
    idx = ctx.idx
    nt = idx.find_class("NumericType", "guppylang_internals.tys.ty")
    kind = idx.classes.get(f"{nt.qualname}.Kind")
    if kind is None:
        raise AnalysisError("NumericType.Kind vanished")
    members: dict[str, int] = {}
    nxt = 1
    for st in kind.node.body:
        if isinstance(st, ast.Assign) and len(st.targets) == 1 and isinstance(st.targets[0], ast.Name):
            v = st.value
            if isinstance(v, ast.Call) and dotted(v.func) == "auto":
                members[st.targets[0].id] = nxt
                nxt += 1
            elif isinstance(v, ast.Constant) and isinstance(v.value, int):
                members[st.targets[0].id] = v.value
                nxt = v.value + 1
            else:
                raise AnalysisError(f"NumericType.Kind member {st.targets[0].id} not foldable")
    if set(members) != set(CANON):
        raise AnalysisError(f"NumericType.Kind members changed: {members}")
    lt = kind.methods.get("__lt__")
    total = any(dotted(d) == "total_ordering" for d in kind.node.decorator_list)
    ctx.saw("classes", kind.qualname)

    tc = idx.find_func("try_coerce_to", EC)
    ctx.saw("functions", tc.qualname)
    ps = [a.arg for a in tc.node.args.args]
    ev = KindEval(idx, EC, lt.node if lt else None)

    ev.kinds = {k: Tok(k, value=v, name=k) for k, v in members.items()}

    def ty_tok(k: str | None) -> Tok:
        if k is None:
            return Tok("bool_ty", __class__="OpaqueType")
        return Tok(k.lower() + "_ty", __class__="NumericType", kind=ev.kinds[k])

    kinds: list[str | None] = ["Nat", "Int", "Float", None]
    bad = []
    und = None
    n = 0
    for ak, ek in itertools.product(kinds, kinds):
        act, exp = ty_tok(ak), ty_tok(ek)
        asked: list[tuple] = []
        checked: list[tuple] = []

        def get_instance_func(recv, a, asked=asked, checked=checked):
            asked.append((a[0], a[1]))
            return Tok("conv_fn", __methods__={"check_call": lambda recv, args, checked=checked: (checked.append(args), (Tok("coerced_node"), {}))[1]})
        # the lookup is a method of the token (reached through any alias of `ctx.globals`), not a hook on one spelling
        env = {ps[0]: act, ps[1]: exp, ps[2]: Tok("node"), ps[3]: Tok("ctx", globals=Tok("globals", __methods__={"get_instance_func": get_instance_func})),
               "NumericType": lambda nd, e, en: ty_tok(e.ev(nd.args[0], en).name)}
        n += 1
        try:
            out = ev.run_function(tc, env)
        except Unsupported as e:
            und = str(e)
            break
        coerced = out[0] == "return" and out[1] is not None
        want = ak is not None and ek is not None and CANON[ak] < CANON[ek]
        row = {"actual": ak or "non-numeric", "expected": ek or "non-numeric", "coerces": coerced, "should": want}
        if out[0] == "raise" or coerced != want:
            bad.append({**row, "outcome": out[0]})
            continue
        if coerced:
            want_name = f"__{ek.lower()}__"
            ok_req = len(asked) == 1 and asked[0][0] == act and asked[0][1] == want_name
            ok_chk = len(checked) == 1 and len(checked[0]) >= 2 and checked[0][1] == exp
            if not (ok_req and ok_chk):
                bad.append({**row, "conversion_requested": [(repr(a), b) for a, b in asked], "wanted_method": want_name,
                            "checked_against_expected": ok_chk})
    key = f"{tc.qualname}#coercion-table"
    if und:
        ctx.undecided("R-C16.1", key, tc.where, und)
    else:
        ctx.check(not bad, "R-C16.1", key, tc.where,
                  {"pairs": n, "enum_values": members, "total_ordering": total, "counterexamples": bad[:6]},
                  "an implicit numeric conversion is inserted in a narrowing (or same-kind) direction, or a widening one is not, or the "
                  "wrong conversion method is used")

    # ------------------------------------------------------------ R-C16.2 who may call
    from . import c16_stale
    c16_stale.run(ctx)
    from . import c16_callers
    if not c16_callers.run(ctx):
        # fallback (a caller could not be interpreted): the call is lexically guarded by `<unify result> is None`
        sites = []
        for f in idx.iter_funcs(("guppylang_internals", "guppylang")):
            for c in calls_in(f.node):
                if call_name(c) == "try_coerce_to":
                    sites.append((f, c))
        ctx.floor("R-C16.2", "try_coerce_to call sites", len(sites), 1)
        for f, c in sites:
            gs = lexical_guards(f.node, c) or []
            after_unify_failed = any(isinstance(e, ast.Compare) and isinstance(e.ops[0], ast.Is) and isinstance(e.comparators[0], ast.Constant)
                                     and e.comparators[0].value is None and pol for e, pol in gs)
            # the tested name must come from unify(exp, act, ...)
            unified = any(isinstance(n, ast.Assign) and isinstance(n.value, ast.Call) and call_name(n.value) == "unify" for n in walk_no_nested(f.node))
            args_ok = len(c.args) >= 2 and [dotted(a) for a in c.args[:2]] == ["act", "exp"]
            ctx.check(f.name == "check_type_against" and after_unify_failed and unified and args_ok, "R-C16.2",
                      f"{f.qualname}#coerce-only-after-unify-failed", f"{f.module.rel}:{c.lineno}",
                      {"caller": f.qualname, "guards": [(ast.unparse(e)[:50], p) for e, p in gs], "args": [ast.unparse(a) for a in c.args[:2]]},
                      "implicit coercion is attempted somewhere other than the type-mismatch fallback, or with actual/expected swapped")

    # ------------------------------------------------------------ R-C16.3 conversion methods exist
    num = idx.module("guppylang.std.num")
    for cls_name, meth in (("nat", "__int__"), ("nat", "__float__"), ("int", "__float__")):
        c = idx.classes.get(f"{num.name}.{cls_name}")
        m = c.methods.get(meth) if c else None
        ret = ast.unparse(m.node.returns) if m is not None and m.node.returns is not None else None
        want_ret = meth.strip("_")
        ctx.check(m is not None and ret == want_ret, "R-C16.3", f"{num.name}.{cls_name}.{meth}", m.where if m else num.rel,
                  {"defined": m is not None, "returns": ret}, f"widening {cls_name} -> {want_ret} has no conversion method of the expected name/type")
        # R-C16.4 the lowering of the widening conversion reads the source with the source type's signedness
        if m is not None and want_ret == "float":
            ops = [a.value for d in m.node.decorator_list for a in ast.walk(d) if isinstance(a, ast.Constant) and isinstance(a.value, str) and a.value.startswith("convert")]
            want_op = "convert_u" if cls_name == "nat" else "convert_s"
            ctx.check(ops == [want_op], "R-C16.4", f"{num.name}.{cls_name}.{meth}#signedness", m.where, {"hugr_op": ops, "want": want_op},
                      f"{cls_name} -> float reads the 64-bit value with the wrong signedness: values with the top bit set convert to a "
                      f"different number")
        if m is not None and cls_name == "nat" and want_ret == "int":
            deco = [ast.unparse(d) for d in m.node.decorator_list]
            ctx.check(any("NoopCompiler" in d for d in deco) or any("iu_to_s" in d for d in deco), "R-C16.4", f"{num.name}.nat.__int__#reinterpret", m.where, {"decorators": deco},
                      "nat -> int must keep the bits (no-op) or use the checked unsigned-to-signed conversion")
