"""R-C33.2 (semantic form, closures)  a nested function that captures a variable passes the capturing-closures gate first.

`check_nested_func_def` is interpreted as a whole from its syntax tree; the signature check, the nested CFG (with its liveness
result), the body check and the node constructors are recorder tokens.  Scenarios: the variables live at the entry of the nested
function are any subset of {x: a local of the enclosing function, y: another local, a: a parameter of the nested function,
g: a global} -- only x and y are captures.

Decided: `check_capturing_closures_enabled` is called iff something is captured, with the place of a use of a captured
variable, and before the body is checked (`check_cfg`); without captures it is not called at all; the captured variables are
handed to the body check as inputs and recorded on the resulting node.
"""

from __future__ import annotations

import itertools

from ..absint.minieval import Unsupported
from ..absint.pyeval import PyEval, Raised, Tok
from ..report import Ctx
from .c06_place import FlagEval

FC = "guppylang_internals.checker.func_checker"


def run(ctx: Ctx) -> bool:
    idx = ctx.idx
    f = idx.find_func("check_nested_func_def", FC)
    key = f"{f.qualname}#captured-implies-gate"
    ps = [a.arg for a in f.node.args.args]
    bad = []
    n = 0
    try:
        for live in itertools.chain.from_iterable(itertools.combinations("xyag", k) for k in range(5)):
            n += 1
            log: list = []
            use = {v: Tok(f"use_of_{v}", __ident__=1) for v in "xyag"}
            using_bb = Tok("using_bb", vars=Tok("vars", used=dict(use), assigned={}), __ident__=1)
            entry = Tok("entry_bb", __ident__=1)
            cfg = Tok("nested_cfg", entry_bb=entry, bbs=[using_bb], live_before={entry: {v: using_bb for v in live}}, __ident__=1)
            cfg.attrs["__methods__"] = {"analyze": lambda r, a, log=log: log.append("analyze")}
            ty = Tok("ty", __ident__=1)
            inp = Tok("inp_a", name="a", ty=ty, flags=set(), __ident__=1)
            func_ty = Tok("func_ty", input_names=["a"], parametrized=False, inputs=[inp], output=Tok("out_ty"), __ident__=1)
            func_def = Tok("func_def", cfg=cfg, name="inner", args=Tok("arguments", args=[Tok("arg_a")]), body=[], decorator_list=[], returns=None, type_comment=None,
                           ty=func_ty, __ident__=1)
            outer_bb = Tok("outer_bb", __ident__=1)
            outer_bb.attrs["containing_cfg"] = Tok("outer_cfg", maybe_ass_before={outer_bb: set()}, __ident__=1)
            local = {v: Tok(f"var_{v}", name=v, defined_at=Tok(f"def_{v}"), ty=ty, __ident__=1) for v in "xy"}
            context = Tok("context", globals=Tok("globals", f_locals={}), locals=dict(local), __ident__=1)
            seen: dict = {}

            def h_gate(nd, e, env, log=log, seen=seen):
                log.append("gate")
                seen["gate_arg"] = e.ev(nd.args[0], env) if nd.args else None
                return None

            def h_check_cfg(nd, e, env, log=log, seen=seen):
                log.append("check_cfg")
                seen["inputs"] = e.ev(nd.args[1], env)
                return Tok("checked_cfg", __ident__=1)

            def h_node(nd, e, env, seen=seen):
                vals = [e.ev(x, env) for x in nd.args]
                seen["captured_on_node"] = vals[3] if len(vals) > 3 else None
                return Tok("checked_def", __ident__=1)

            env = {ps[0]: func_def, ps[1]: outer_bb, ps[2]: context,
                   "check_signature": lambda nd, e, env, func_ty=func_ty: func_ty, "inout_var_names": lambda nd, e, env: [],
                   "check_capturing_closures_enabled": h_gate, "check_cfg": h_check_cfg, "CheckedNestedFunctionDef": h_node,
                   "with_loc": lambda nd, e, env: e.ev(nd.args[1], env), "DefId.fresh": lambda nd, e, env: Tok("def_id"),
                   "Variable": lambda nd, e, env: Tok("param_var", name=e.ev(nd.args[0], env), __ident__=1),
                   "IllegalAssignError": lambda nd, e, env: Tok("IllegalAssignError", __methods__={"add_sub_diagnostic": lambda r, a: None})}
            ev = FlagEval(idx, FC, max_depth=6)  # (InputFlags.X evaluate to their names)
            try:
                out = ev.run(f.node.body, env)
                raised = str(out[1]) if out[0] == "raise" else None
            except Raised as e:
                raised = e.cls or str(e)
            captured = [v for v in live if v in "xy"]
            case = {"live_at_the_entry_of_the_nested_function": list(live), "captured": captured}
            if raised:
                bad.append({**case, "problem": f"raises {raised}"})
                continue
            problems = []
            if captured:
                if log.count("gate") < 1 or "check_cfg" not in log or log.index("gate") > log.index("check_cfg"):
                    problems.append(f"order of events {log}: the gate must be passed before the body is checked")
                elif not (isinstance(seen.get("gate_arg"), Tok) and seen["gate_arg"].name in {f"use_of_{v}" for v in captured}):
                    problems.append(f"the gate is called with {seen.get('gate_arg')!r}, not with the use of a captured variable")
            elif "gate" in log:
                problems.append("the gate is called although nothing is captured")
            ins = seen.get("inputs")
            in_names = [getattr(v, "name", None) for v in ins] if isinstance(ins, list) else None
            if in_names is None or [x for x in in_names if x in ("var_x", "var_y")] != [f"var_{v}" for v in captured]:
                problems.append(f"inputs of the body check {in_names}: the captured variables {captured} are not passed (in order)")
            cap = seen.get("captured_on_node")
            if not isinstance(cap, dict) or list(cap) != captured:
                problems.append(f"captured variables recorded on the node: {list(cap) if isinstance(cap, dict) else cap!r}, should be {captured}")
            if problems:
                bad.append({**case, "problems": problems[:3]})
    except Unsupported as e:
        ctx.undecided("R-C33.2", key, f.where, str(e))
        return False
    ctx.check(not bad, "R-C33.2", key, f.where, {"cases": n, "counterexamples": bad[:3], "n_counterexamples": len(bad)},
              "a nested function that captures variables is checked without passing the capturing-closures gate")
    return True
