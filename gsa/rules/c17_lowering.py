"""R-C17.4 (semantic form)  integer constants are lowered with the signedness and width of their type.

`python_value_to_hugr` is interpreted from its syntax tree on integer values (0, a small one, 2^63, 2^64-1, a negative one)
at the types nat and int, bare and inside tuple / list constants; the HUGR value constructors are recorders.  Decided: a
value of type nat becomes an *unsigned* integer constant, a value of type int a *signed* one, both with the width
NumericType.INT_WIDTH (folded from the class body), carrying exactly the given value; booleans do not become integers.
"""

from __future__ import annotations

from ..absint.minieval import Unsupported
from ..absint.pyeval import PyEval, Raised, Tok
from ..index import dotted
from ..report import Ctx

XC = "guppylang_internals.compiler.expr_compiler"


class KindEval(PyEval):
    """`NumericType.Kind.X` evaluates to the string "Kind.X" (type tokens carry the same strings)."""

    def attr(self, value, name, node, env):
        d = dotted(node)
        if d and d.split(".")[-2:-1] == ["Kind"]:
            return f"Kind.{name}"
        return super().attr(value, name, node, env)


def run(ctx: Ctx) -> bool:
    idx = ctx.idx
    ph = idx.find_func("python_value_to_hugr", XC)
    key = f"{ph.qualname}#signedness"
    nt = idx.find_class("NumericType", "guppylang_internals.tys.ty")
    width = None
    for st in nt.node.body:
        tgt = getattr(st, "target", None) or (st.targets[0] if hasattr(st, "targets") and len(st.targets) == 1 else None)
        if getattr(tgt, "id", None) == "INT_WIDTH" and getattr(st, "value", None) is not None:
            try:
                width = PyEval(idx, nt.module.name).ev(st.value, {})
            except Unsupported:
                width = None
    if not isinstance(width, int):
        ctx.undecided("R-C17.4", key, ph.where, "NumericType.INT_WIDTH not foldable")
        return False
    ps = [a.arg for a in ph.node.args.args]
    made: list = []

    def ctor(kind):
        def h(node, e, env):
            vals = [e.ev(a, env) for a in node.args]
            kws = {k.arg: e.ev(k.value, env) for k in node.keywords if k.arg}
            t = Tok(f"{kind}({vals[0] if vals else None})", kind=kind, value=vals[0] if vals else kws.get("v"), width=kws.get("width", vals[1] if len(vals) > 1 else None))
            made.append(t)
            return t
        return h

    nat = Tok("nat", __class__="NumericType", kind="Kind.Nat")
    int_ = Tok("int", __class__="NumericType", kind="Kind.Int")
    hooks = {"UnsignedIntVal": ctor("unsigned"), "hugr.std.int.IntVal": ctor("signed"), "IntVal": ctor("signed"), "OpaqueBoolVal": ctor("bool"),
             "hv.Tuple": lambda node, e, env: Tok("tuple_val", elems=[e.ev(a.value, env) if hasattr(a, "value") and a.__class__.__name__ == "Starred" else e.ev(a, env) for a in node.args]),
             "hugr.std.collections.static_array.StaticArrayVal": lambda node, e, env: Tok("array_val", elems=e.ev(node.args[0], env)),
             "StaticArrayVal": lambda node, e, env: Tok("array_val", elems=e.ev(node.args[0], env)),
             "is_frozenarray_type": lambda node, e, env: True,
             "get_element_type": lambda node, e, env: e.ev(node.args[0], env).attrs["elem"],
             "doesnt_contain_none": lambda node, e, env: all(x is not None for x in e.ev(node.args[0], env)),
             "next": lambda node, e, env: 0}
    for t in (nat, int_):
        t.attrs["__methods__"] = {"to_hugr": lambda recv, a: Tok("hugr_int_ty")}
    cases = []
    for ty, kind in ((nat, "unsigned"), (int_, "signed")):
        vals = [0, 5, (1 << 63) - 1] + ([1 << 63, (1 << 64) - 1] if kind == "unsigned" else [-3, -(1 << 63)])
        for v in vals:
            cases.append((v, ty, [(kind, v)]))
        cases.append(((1, 2), Tok("tuple_ty", __class__="TupleType", element_types=[ty, ty]), [(kind, 1), (kind, 2)]))
        cases.append(([7], Tok("farr_ty", __class__="OpaqueType", elem=ty), [(kind, 7)]))
    cases.append(((3, 4), Tok("tuple_ty", __class__="TupleType", element_types=[nat, int_]), [("unsigned", 3), ("signed", 4)]))
    cases.append((True, Tok("bool_ty", __class__="OpaqueType"), [("bool", True)]))
    bad = []
    try:
        for v, ty, want in cases:
            made.clear()
            ev = KindEval(idx, XC, max_depth=6)
            env = {ps[0]: v, ps[1]: ty, ps[2]: Tok("ctx"), **hooks}
            try:
                out = ev.run_function(ph, env)
            except Raised as e:
                bad.append({"value": str(v), "type": ty.name, "problem": f"raises {e.cls or e}"})
                continue
            if out[0] == "raise":
                bad.append({"value": str(v), "type": ty.name, "problem": f"raises {out[1]}"})
                continue
            got = [(t.attrs["kind"], t.attrs["value"]) for t in made]
            widths = {t.attrs["width"] for t in made if t.attrs["kind"] in ("signed", "unsigned")}
            if got != want or (widths - {width}):
                bad.append({"value": str(v), "type": ty.name, "constants_built": [f"{k} {x}" for k, x in got], "widths": sorted(map(str, widths)),
                            "should_be": [f"{k} {x}" for k, x in want], "width_should_be": width})
    except Unsupported as e:
        ctx.undecided("R-C17.4", key, ph.where, str(e))
        return False
    ctx.check(not bad, "R-C17.4", key, ph.where, {"cases": len(cases), "INT_WIDTH": width, "counterexamples": bad[:4]},
              "an accepted nat/int constant is lowered with the wrong signedness or width")
    _unsigned_value_class(ctx, width)
    return True


def _unsigned_value_class(ctx: Ctx, width: int) -> None:
    """The repository's own constant class for nat values accepts every nat and carries the value unchanged."""
    idx = ctx.idx
    cls = idx.classes.get("guppylang_internals.std._internal.compiler.arithmetic.UnsignedIntVal")
    if cls is None:
        return
    key = f"{cls.qualname}#holds-every-nat-value"
    bad = []
    try:
        for v in (0, 1, (1 << 63) - 1, 1 << 63, (1 << 63) + 12345, (1 << 64) - 1):
            me = Tok("unsigned_val", v=v, width=width, __classes__=cls.mro(), __ident__=1)
            pi = cls.find_method("__post_init__")
            if pi is not None:
                ev = PyEval(idx, cls.module.name, max_depth=4)
                ev.check_asserts = True
                out = ev.run_function(pi, {pi.node.args.args[0].arg: me})
                if out[0] == "raise":
                    bad.append({"value": str(v), "problem": f"constructing the constant raises {out[1]}"})
                    continue
            tv = cls.find_method("to_value")
            if tv is not None:
                seen = {}

                def h_ext(node, e, env, seen=seen):
                    for k in node.keywords:
                        if k.arg:
                            seen[k.arg] = e.ev(k.value, env)
                    return Tok("extension_value")
                ev = PyEval(idx, cls.module.name, max_depth=4)
                ev.run_function(tv, {tv.node.args.args[0].arg: me, "val.Extension": h_ext, "int_t": lambda node, e, env: Tok("int_t")})
                payload = seen.get("val")
                if not (isinstance(payload, dict) and payload.get("value") == v and payload.get("log_width") == width):
                    bad.append({"value": str(v), "payload": repr(payload)[:80], "should_carry": {"value": str(v), "log_width": width}})
    except Unsupported as e:
        ctx.undecided("R-C17.4", key, cls.where, str(e))
        return
    except Raised as e:
        bad.append({"problem": f"raises {e.cls or e}"})
    ctx.check(not bad, "R-C17.4", key, cls.where, {"values": 6, "counterexamples": bad[:3]},
              "a nat constant that passed the range check cannot be lowered (or is lowered to another value)")
